"""C14 — taxonomy queries agree with the tree: LCA, lineage, clade, rank, aliases (pkg/obitax + ncbitaxdump loader)."""
import itertools, json, math, os, re, struct, subprocess, tempfile, time

PROPS = ["C14/Props.v", "C14/Props3.v"]
META = dict(
    text="59 Rocq theorems (unbounded, by induction on lineages) over an executable model of pkg/obitax, of the row semantics of ncbitaxdump.LoadNCBITaxDump and (round 3, Model3/Props3) of the glue "
         "around them. Props.v: Path is the parent chain from the taxon to the self-looped root without repetition (and returns for every taxon of a well-formed taxonomy); LCA (paths compared "
         "from the root end) is the deepest common ancestor-or-self, commutative, associative, idempotent; IsSubCladeOf / IsBelongingSubclades / TaxonAtRank / HasRankDefined are membership / first "
         "match on that path; merged ids resolve to a present node; rows outside the tree (dangling parent) change no answer about the taxa of the tree. The weighted sequence LCA "
         "Taxonomy.LCA(seq, threshold) is modelled for EVERY threshold and for three arithmetics of rmax (IEEE binary64 = the Go code, exact rationals, 'still 1' for threshold 1.0): the set of "
         "possible outcomes is independent of the map iteration order, it is a single outcome iff no tie between maximal children passes the threshold (never above 1/2 with exact arithmetic, never "
         "at threshold 1.0; a witness at 1/2 is proved and observed on the code), every outcome is a walk down the tree along a heaviest clade while (heaviest clade weight / weight of the merged "
         "taxa comparable with the current taxon) cumulated >= threshold; at threshold 1.0 it is the LCA of the taxa designated by a key of positive count (aliases of one taxon add up, zero counts "
         "do not count). Taxon(interface{}) spellings (int, \"n\", \"+n\", first TX:n) designate one taxon; IsNameEqual/IsNameMatching on byte strings (regexp = oracle), names.dmp lines parsed "
         "field by field. Props3.v: the selection obigrep composes from --require-rank / -r TAXID / -r ATTRIBUTE / -i / -v with the nil-neutral predicate combinators keeps exactly the sequences "
         "whose lineage carries every required rank, meets one clade to restrict to and no clade to ignore (unknown taxid: kept only by -i alone; several -i = every single -i; -v and "
         "--save-discarded partition the input); IsAValidTaxon with auto-correction rewrites the taxid into one that designates the same taxon directly, is idempotent and changes no selection "
         "or annotation; the taxon-at-rank annotations (species / genus / family workers, --with-taxon-at-rank) write the first taxon of the lineage carrying the rank with its own name, -1/NA "
         "otherwise, nothing for an unknown taxid; --taxonomic-path is the lineage root first with each taxon's own name and rank, and its text taxid@name@rank|... reads back (injective when "
         "no field contains '@' or '|'); the three attribute names of --add-lca-in SLOT are pairwise distinct for every SLOT (SLOT_taxid/_name/_error when SLOT does not contain 'taxid'); the "
         "name index lists nodes only. On every run the models are evaluated by vm_compute on the same synthetic NCBI dumps and queries that the real loader, methods, worker constructors and "
         "COMMANDS ran on: every rooted tree up to 5 (quick) / 6 (thorough) nodes x all pairs incl. aliases and unknown ids x all ranks, random trees up to 2000 / 5000 nodes, chains, stars, "
         "alias chains up to length 5, rows outside the tree, names rows for ids that are no node, thresholds from 1.5 down to 0.1 run 12-40 times each on fresh sequences (every observed "
         "(taxid, rans bit pattern, granTotal) must be one the binary64 model allows); HISTORIES of 10-18 operations on ONE taxonomy object and one persistent sequence already carrying stale "
         "annotations (Path / LCA / TaxonAtRank / Species / Genus / Family / Rank interleaved with weighted LCAs, every sequence worker, AddLCAWorker with slot names containing 'taxid', "
         "IsAValidTaxon with and without auto-correction, Index, AddNewTaxa without replacement, LCA with a nil taxon), each operation judged as a pure function of the dump, and all pair / path "
         "queries repeated after everything else; the dump files as TEXT (comment lines, CRLF, blank lines, blanks for tabs, no final newline, text in unused columns, names lines of 4095..16000 "
         "bytes: same answers; non-numeric / overflowing taxids, short rows, quotes, rows with another number of columns, missing files: a loud failure, never a silently shorter taxonomy). A "
         "Python oracle on the parent map checks the statement directly (LCA by ancestor-set intersection and depth; descent by clade weights). obigrep (-r / -i with 1-3 nested and disjoint "
         "clades, -r ATTRIBUTE alone and mixed, several --require-rank, all three kinds together, -v, --save-discarded, stdin, two input files, --force-one-cpu, --max-cpu 1 with small batches, "
         "--no-order; no -t, unreadable -t, unknown clade, unknown rank must exit non-zero) and obiannotate (--with-taxon-at-rank once and twice, --add-lca-in with --lca-error and slot names "
         "containing 'taxid', --taxonomic-path / --taxonomic-rank / --scientific-name, annotation restricted by -r, stdin, an unknown taxid must exit non-zero) are run on built binaries; the "
         "selections of the commands are also compared with Model3.grep_sel inside Coq.",
    note="Hypothesis wf_tax (one self-looped root, parents present, every node reaches the root) is decided by the proved-sound wf_check on every generated taxonomy and compared with the generator's "
         "own verdict; the loader checks none of it (observation: a parent cycle makes Path loop forever). Rank labels are abstracted to codes. The tree-level characterisation of the descent is generic in the arithmetic under the "
         "hypotheses 'a null share fails the test on reachable scores' (threshold > 0), discharged for exact rationals (any positive threshold) and for threshold 1.0, NOT for binary64; the statement 'no tie passes above 1/2' is proved for exact rationals only - for binary64 it is observed (single outcome over repeated "
         "runs), not proved. Regexp matching is an oracle (a table of Python re verdicts on RE2-compatible patterns in the correspondence). Thresholds <= 0 never return (observation). The model has no "
         "state: 'a history leaves nothing behind' is checked by observation (every operation of a history and the second pass must equal the pure functions), not proved about the Go heap. The text of "
         "taxonomic_path is split on '|' and '@' by the Python renderer (names of the generator contain neither) and the decimal spelling of taxids is Python's. Not exercised, because outside the "
         "property (they are C16's: obigrep / obiannotate act on each record as their options say): in obigrep/options.go the size / count / predicate / pattern / id / attribute selections and the "
         "paired-read modes; in obiannotate.go the delete / keep / rename / set-tag / clear / cut / pattern / length workers and their branches of CLIAnnotationWorker. Not exercised: "
         "obitax.MakeTaxName (no caller, result without exported field). Outside the property (observations in known_findings.d): the error text of Taxonomy.Taxon (%d on a string), the spelling "
         "'scienctific_name' of the attribute written by --scientific-name (either spelling accepted, value checked), SetTaxid turning a resolved taxid 0 into 1 (no taxon 0 in NCBI; hypothesis 1 <= x "
         "of C14_autocorrect_preserves_every_answer). Fixed in round 3: the loader stopped silently at the first nodes.dmp / merged.dmp line the csv reader could not parse (a quote, another number of "
         "columns) and at the first names.dmp line longer than 4096 bytes. Fixed in round 2: TaxonomicDistribution overwrote the weights of aliases of one taxon; ReindexParent stopped at the first "
         "dangling parent; SetTaxonAtRank dereferenced a missing scientific name. Round 1: AddNewName dropped the first alternate name.")
TRUSTED = ["float64 arithmetic of Go (float64(int) exact below 2^53, /, *, >= round-to-nearest-even) = Coq.Floats.SpecFloat binary64 (SFdiv, SFmul, SFleb, binary_normalize); compared bit for bit on every run",
           "Go map iteration order is modelled as an arbitrary choice: wld_all collects the outcomes of every choice among maximal keys; C14_wlcad_outcomes_order_independent shows nothing else depends on it",
           "regexp.MatchString is an oracle (Section-style parameter rm of name_matching); the fixed pattern TX:(\\d+) of Taxonomy.Taxon is transcribed as find_tx (leftmost match, greedy digits)",
           "encoding/csv + bufio line splitting of nodes.dmp / merged.dmp (rows are modelled as already parsed; the text-level behaviour is judged by the oracle on literal files); names.dmp lines: strings.Split / TrimSpace transcribed for ASCII blanks (parse_name_line)",
           "strconv.Atoi transcribed as atoi (optional sign, decimal digits, int64 range; on a range error the value MaxInt64 is kept by Taxon)",
           "strings.HasSuffix / strings.Replace(.., 1) transcribed as has_suffix / find1 + replace1 (first occurrence, byte strings); fmt %d of a taxid = Python str() in the renderer",
           "getoptions parsing of the command lines and the fasta/JSON header reader-writer of the commands (the CLI observations are the records printed and their annotations); math.Round((1-rans)*1000)/1000 of the error attribute is recomputed in Python, not modelled"]

RANKS = ["no rank", "species", "genus", "family", "order", "class", "kingdom"]
IMPORTS = "From Coq Require Import NArith ZArith List Floats.SpecFloat. Import ListNotations.\nFrom OBI.C14 Require Import Model.\nOpen Scope N_scope."


# ------------------------------------------------------------------ the reference semantics (parent map)
class Tax:
    def __init__(self, case):
        self.nodes = {}
        for t, p, r in case["nodes"]:
            self.nodes[t] = (p, r)                       # a later row replaces an earlier one
        self.alias = {}
        for old, new in case["merged"]:
            n = self.resolve(new)
            if n is not None:
                self.alias[old] = n
        self.names = {}
        self.sci = {}
        for row in case["names"]:
            t, n, c = row[0], row[1].strip(), row[2].strip()
            if case.get("onlysn") and c != "scientific name":
                continue
            if t in self.nodes:                          # names are read before merged.dmp: only node ids designate a taxon
                if c == "scientific name":
                    self.sci[t] = n                      # the last one wins, the earlier ones are forgotten
                else:
                    self.names.setdefault(t, set()).add(n)
        for t, n in self.sci.items():
            self.names.setdefault(t, set()).add(n)
        self.ranklist = {r for (_, r) in self.nodes.values()}

    def resolve(self, x):
        if x in self.nodes:
            return x
        return self.alias.get(x)

    def wf(self):
        roots = [t for t, (p, _) in self.nodes.items() if p == t]
        if len(roots) != 1:
            return False
        for t in self.nodes:
            if self.anc(t) is None:
                return False
        return True

    def anc(self, x):
        """ancestors-or-self, from x to the root; None if the walk leaves the map or cycles"""
        seen, l = set(), []
        while True:
            if x not in self.nodes or x in seen:
                return None
            seen.add(x)
            l.append(x)
            p = self.nodes[x][0]
            if p == x:
                return l
            x = p

    def lca(self, x, y):
        """deepest common ancestor-or-self, by set intersection and depth (independent of the code's algorithm)"""
        ax, ay = self.anc(x), self.anc(y)
        common = set(ax) & set(ay)
        return max(common, key=lambda w: len(self.anc(w)))

    def at_rank(self, x, r):
        for w in self.anc(x):
            if self.nodes[w][1] == r:
                return w
        return None


def expected(case):
    """What the property demands for each query (None = unconstrained)."""
    T = Tax(case)
    e = dict(pairs=[], paths=[], ranks=[], sets=[], resolve=[], namesq=[], seqs=[])
    for a, b in case["pairs"]:
        x, y = T.resolve(a), T.resolve(b)
        if x is None or y is None:
            e["pairs"].append(dict(lca=-1, sub=-1))
        elif T.anc(x) is None or T.anc(y) is None:
            e["pairs"].append("*")                       # a taxon that does not reach the root: outside the tree
        else:
            e["pairs"].append(dict(lca=T.lca(x, y), sub=int(y in T.anc(x))))
    for a in case["paths"]:
        x = T.resolve(a)
        e["paths"].append(None if x is None else ("*" if T.anc(x) is None else T.anc(x)))
    for a, r in case["ranks"]:
        x = T.resolve(a)
        if x is None:
            e["ranks"].append(dict(at=-1, nil=0, has=-1))
        elif T.anc(x) is None:
            e["ranks"].append("*")
        else:
            w = T.at_rank(x, r)
            e["ranks"].append(dict(at=0 if w is None else w, nil=int(w is None), has=int(w is not None)))
    for a, ids in case["sets"]:
        x = T.resolve(a)
        if x is None:
            e["sets"].append(-1)
        elif T.anc(x) is None:
            e["sets"].append("*")
        else:
            cl = {T.resolve(i) for i in ids} - {None}
            e["sets"].append(int(any(w in cl for w in T.anc(x))))
    for a in case["resolve"]:
        x = T.resolve(a)
        e["resolve"].append(-1 if x is None else x)
    for a, n in case["namesq"]:
        x = T.resolve(a)
        e["namesq"].append(-1 if x is None else (-3 if x not in T.sci else int(n in T.names.get(x, ()))))
    e["namesm"] = []
    for a, pat in case.get("namesm") or []:
        x = T.resolve(a)
        e["namesm"].append(-1 if x is None else (-3 if x not in T.sci else int(any(re.search(pat, n) for n in T.names.get(x, ())))))
    e["forms"] = []
    for kind, v in case.get("forms") or []:
        z = form_taxid(kind, v)
        x = None if z is None else T.resolve(z)
        e["forms"].append(-1 if x is None else x)
    if case.get("loads"):
        e["nilpar"] = [sorted(t for t, (p, _) in T.nodes.items() if p not in T.nodes)]
    for s in case["seqs"]:
        e["seqs"].append(expected_seq(T, s))
    return e


def form_taxid(kind, v):
    """the taxid Taxonomy.Taxon(interface{}) looks up (None = parse error)"""
    if kind == "int":
        return v
    if kind != "str":
        return 0                                         # the type switch has no default: itaxid stays 0
    if re.fullmatch(r"[+-]?[0-9]+", v) and -2 ** 63 <= int(v) < 2 ** 63:
        return int(v)
    m = re.search(r"TX:([0-9]+)", v)
    if not m:
        return None
    return min(int(m.group(1)), 2 ** 63 - 1)


def fbits(x):
    return struct.unpack(">Q", struct.pack(">d", x))[0]


def descent(T, dist, thr):
    """Taxonomy.LCA(seq, thr) restated on the TREE (clade weights), every choice among tied heaviest children:
    set of (taxid | -4, bits of rans).  dist: node -> weight >= 0 (all nodes reach the root); thr > 0."""
    if not dist:
        return {(-4, fbits(1.0))}
    nodes = list(dist)
    root = T.anc(nodes[0])[-1]
    if not (1.0 >= thr):
        return {(root, fbits(1.0))}
    ancs = {x: T.anc(x) for x in nodes}
    ancset = {x: set(a) for x, a in ancs.items()}
    res = set()
    todo = [(root, 1.0, 0)]
    while todo:
        # one turn of the loop: answer = a, rans = r; candidates are the taxa at this depth below a
        a, r, depth = todo.pop()
        if depth == 0:
            cand = {root}
            total = sum(dist.values())
        else:
            cand = {ancs[x][-1 - depth] for x in nodes if len(ancs[x]) > depth and ancs[x][-depth] == a}
            anc_a = set(T.anc(a))
            total = sum(w for x, w in dist.items() if a in ancset[x] or x in anc_a)
        ws = {c: sum(w for x, w in dist.items() if c in ancset[x]) for c in cand}
        wmax = max([0] + list(ws.values()))
        r2 = r * (wmax / total) if total > 0 else 0.0
        if not (r2 >= thr):
            res.add((a, fbits(r)))
            continue
        for c in cand:
            if ws[c] == wmax and wmax > 0:
                todo.append((c, r2, depth + 1))
    return res


UNKNOWN_ID = 10 ** 9 + 7


def slot_id(s):
    """taxid designated by the clade attribute as Taxonomy.Taxon(string) reads it: an integer, or the first TX:<digits>; None = attribute absent"""
    if s.get("slotstr") is not None:
        v = s["slotstr"]
        if re.fullmatch(r"[+-]?\d+", v):
            return int(v)
        m = re.search(r"TX:(\d+)", v)
        return int(m.group(1)) if m else UNKNOWN_ID
    return s.get("slot")


def expected_seq(T, s):
    tid = s["taxid"] if s.get("taxid") is not None else 1
    x = T.resolve(tid)
    r = dict(valid=int(x is not None), restrict=-9, ignore=-9, require=-9, slotsub=-9, atrank=None, wlca=-9, lcaattr=-9)

    def inclade(ids):
        return int(x is not None and any(T.resolve(c) in T.anc(x) for c in ids))
    if s.get("restrict"):
        r["restrict"] = -3 if any(T.resolve(c) is None for c in s["restrict"]) else inclade(s["restrict"])
    if s.get("ignore"):
        r["ignore"] = -3 if any(T.resolve(c) is None for c in s["ignore"]) else 1 - inclade(s["ignore"])
    if s.get("require"):
        r["require"] = -3 if any(k not in T.ranklist for k in s["require"]) else int(x is not None and all(T.at_rank(x, k) is not None for k in s["require"]))
    if slot_id(s) is not None:
        c = T.resolve(slot_id(s))
        r["slotsub"] = int(c is not None and x is not None and c in T.anc(x))
    if s.get("atrank"):
        r["atrank"] = {}
        for k in s["atrank"]:
            if k not in T.ranklist:
                r["atrank"][k] = -3
            elif x is None:
                r["atrank"][k] = -9
            else:
                w = T.at_rank(x, k)
                r["atrank"][k] = -1 if w is None else w
    if s.get("merged") is not None or s.get("taxid") is not None:
        m = s["merged"] if s.get("merged") is not None else {str(s["taxid"]): 1}
        taxa = [(T.resolve(int(k)), w) for k, w in m.items()]
        if any(t is None or T.anc(t) is None for t, _ in taxa):
            r["wlca"] = r["lcaattr"] = -3          # Taxon() fails: TaxonomicDistribution panics (unknown taxid in the merged set); a lineage that does not reach the root: LCA panics
        else:
            pos = [t for t, w in taxa if w > 0]
            if pos:
                l = pos[0]
                for t in pos[1:]:
                    l = T.lca(l, t)
                r["wlca"] = r["lcaattr"] = l
            else:
                r["wlca"] = r["lcaattr"] = None    # no taxon of positive weight: unconstrained
    r["notax"] = -9
    if s.get("merged") is None and s.get("taxid") is None:
        x0 = T.resolve(0)                                        # {"na": 1}: Atoi("na") = 0: taxid 0 is looked up
        r["notax"] = x0 if x0 is not None and T.anc(x0) is not None else -3
    r["thr"] = []
    for thr in s.get("thr") or []:
        m = s["merged"] if s.get("merged") is not None else ({str(s["taxid"]): 1} if s.get("taxid") is not None else {"0": 1})
        taxa = [(T.resolve(int(k)), w) for k, w in m.items()]
        if any(t is None or T.anc(t) is None for t, _ in taxa):
            r["thr"].append(None)                                # panic
            continue
        dist = {}
        for t, w in taxa:
            dist[t] = dist.get(t, 0) + w                         # the weights of aliases of one taxon add up
        g = sum(dist.values())
        r["thr"].append(sorted((t, b, g) for t, b in descent(T, dist, thr)))
    return r


def compare(case, obs, exp):
    """list of (what, index, implementation, expected) where the implementation disagrees with the property"""
    bad = []
    if obs.get("kind") != "ok":
        return [("load", 0, obs, "ok")]
    for k in ("pairs", "ranks"):
        for i, (o, x) in enumerate(zip(obs.get(k) or [], exp[k])):
            if o != x and x != "*":
                bad.append((k, i, o, x))
    for i, (o, x) in enumerate(zip(obs.get("paths") or [], exp["paths"])):
        if o != x and x != "*":
            bad.append(("paths", i, o, x))
    for k in ("sets", "resolve", "namesq", "namesm", "forms"):
        for i, (o, x) in enumerate(zip(obs.get(k) or [], exp[k])):
            if o != x and x != "*":
                bad.append((k, i, o, x))
    if "nilpar" in exp and obs.get("nilpar") != exp["nilpar"]:
        bad.append(("nilpar", 0, obs.get("nilpar"), exp["nilpar"]))
    for i, (o, x) in enumerate(zip(obs.get("seqs") or [], exp["seqs"])):
        for f in ("valid", "restrict", "ignore", "require", "slotsub", "wlca", "lcaattr"):
            if x[f] is not None and o[f] != x[f]:
                bad.append(("seq." + f, i, o[f], x[f]))
        if x["atrank"] is not None and (o.get("atrank") or {}) != x["atrank"]:
            bad.append(("seq.atrank", i, o.get("atrank"), x["atrank"]))
        if x["lcaattr"] is not None and x["lcaattr"] >= 0 and o.get("lcaerr") not in ("0", "-0"):
            bad.append(("seq.lcaerr", i, o.get("lcaerr"), "0"))
        if o.get("notax", -9) != x["notax"]:
            bad.append(("seq.notax", i, o.get("notax"), x["notax"]))
        for j, (thr, ot, xt) in enumerate(zip(case["seqs"][i].get("thr") or [], o.get("thr") or [], x["thr"])):
            what = "seq.thr1" if thr == 1.0 else "seq.thr"       # thr1: the zero-error case the property speaks of
            runs = [q for q in ot if q["t"] != -100]
            wk = [q for q in ot if q["t"] == -100]
            if xt is None:
                if any(q["t"] != -3 for q in runs):
                    bad.append((what, i, ot, "panic"))
                continue
            allowed = {(t, b, g) for t, b, g in xt}
            got = {(q["t"], int(q["b"]) if q["b"] else 0, q["g"]) for q in runs}
            if not got <= allowed or (thr == 1.0 and len(got) != 1):
                bad.append((what, i, sorted(got), sorted(allowed)))
            for q in wk:                                          # the worker: taxid and error = round((1-rans)*1000)/1000
                okw = False
                for t, b, g in xt:
                    rans = struct.unpack(">d", struct.pack(">Q", b))[0]
                    try:
                        okw = okw or (q["wt"] == t and abs(float(q["we"]) - math.floor((1 - rans) * 1000 + 0.5) / 1000) < 1e-12)
                    except ValueError:
                        pass
                if not okw:
                    bad.append((what + ".worker", i, q, sorted(allowed)))
    for k in ("pairs", "paths", "ranks", "sets", "resolve", "namesq", "seqs"):
        if len(obs.get(k) or []) != len(exp[k]):
            bad.append((k + ".len", 0, len(obs.get(k) or []), len(exp[k])))
    if case.get("hist"):
        bad += hist_check(case, obs.get("hist"))
    if case.get("again"):
        # the same queries after the weighted LCAs, the workers and the history: a pure function of the dump
        for k in ("pairs", "paths"):
            o2 = obs.get(k + "2") or []
            if len(o2) != len(exp[k]):
                bad.append((k + "2.len", 0, len(o2), len(exp[k])))
            for i, (o, x) in enumerate(zip(o2, exp[k])):
                if o != x and x != "*":
                    bad.append((k + "2", i, o, x))
    return bad


# ------------------------------------------------------------------ round 3: histories of operations on one taxonomy object
SCI_KEYS = ("scientific_name", "scienctific_name")      # SetScientificName writes the second spelling; either is accepted


def lca_keys(slot):
    """attribute names written by AddLCAWorker(slot): taxid, name, error"""
    s = slot if slot.endswith("taxid") else slot + "_taxid"
    e = s.replace("taxid", "error", 1)
    n = s.replace("taxid", "name", 1)
    return s, ("scientific_name" if n == "name" else n), ("lca_error" if e == "error" else e)


def seq_attrs0(s, extra):
    """attributes of the sequence the harness builds from a description (c14mkseq) + extra attributes"""
    a = {}
    s = s or {}
    if s.get("taxid") is not None:
        a["taxid"] = s["taxid"]
    if s.get("merged") is not None:
        a["merged_taxid"] = dict(s["merged"])
    if s.get("slotstr") is not None:
        a["clade"] = s["slotstr"]
    elif s.get("slot") is not None:
        a["clade"] = str(s["slot"])
    a.update(extra or {})
    return a


def attrs_dist(a):
    """what TaxonomicDistribution reads: merged_taxid, else {taxid: 1}, else {"na": 1} (Atoi("na") = 0); second value: the
    merged_taxid attribute StatsOn creates as a side effect (None: none)"""
    if isinstance(a.get("merged_taxid"), dict):
        return {k: v for k, v in a["merged_taxid"].items()}, None
    m = {str(a["taxid"]): 1} if a.get("taxid") is not None else {"na": 1}
    return m, m


def atoi0(k):
    return int(k) if re.fullmatch(r"[+-]?\d+", k) else 0


def path_string(T, x):
    return "|".join("%d@%s@%s" % (w, T.sci.get(w, ""), T.nodes[w][1]) for w in reversed(T.anc(x)))


def rank_updates(T, tid, ranks):
    """SetTaxonAtRank for each rank: attributes written (nothing when the taxid is unknown); "fatal" in the result when the walk up
    the tree meets a missing parent (a row outside the tree) before it finds the rank: the worker stops there"""
    x = T.resolve(tid)
    upd = {}
    if x is None:
        return upd
    for rk in ranks:
        cur = x
        while True:
            if T.nodes[cur][1] == rk:
                w = cur
                break
            par = T.nodes[cur][0]
            if par == cur:
                w = None
                break
            if par not in T.nodes:
                upd["fatal"] = True
                return upd
            cur = par
        upd[rk + "_taxid"] = -1 if w is None else w
        upd[rk + "_name"] = "NA" if w is None else T.sci.get(w, "")
    return upd


def hist_check(case, ohist, befores=None):
    """every operation of the history judged as a pure function of the dump and of the attributes the sequence carried
    (befores: filled with the attributes the sequence of each operation carried before it, None for the other operations)"""
    T = Tax(case)
    bad = []
    named = {}
    befores = befores if befores is not None else []
    if len(ohist or []) != len(case["hist"]):
        return [("hist.len", 0, len(ohist or []), len(case["hist"]))]
    for i, (op, o) in enumerate(zip(case["hist"], ohist)):
        k = op["op"]

        def fail(exp):
            bad.append(("hist." + k, i, o, exp))
        on = op.get("on") or None
        before = None
        if k in ("new", "wlca", "valid") or k.startswith("w_"):
            before = named[on] if on in named else seq_attrs0(op.get("seq"), op.get("attrs"))
            before = json.loads(json.dumps(before))
        tid = (before or {}).get("taxid", 1)
        befores.append(before)

        def effect(upd, fatal=False, side=None):
            """the worker must leave exactly before + upd (+ the merged_taxid StatsOn creates)"""
            want = dict(before)
            if side:
                want["merged_taxid"] = side
            want.update(upd or {})
            if fatal:
                if not o.get("fatal"):
                    fail(dict(fatal=1))
            elif o.get("fatal") or o.get("err") or o.get("panic") or o.get("attrs") != want:
                fail(dict(attrs=want))
        if k == "new":
            if o.get("ok") != 1:
                fail(dict(ok=1))
        elif k == "path":
            x = T.resolve(op["a"])
            exp = None if x is None else T.anc(x)
            if x is not None and exp is None:
                continue
            if o.get("p", "missing") != exp:
                fail(dict(p=exp))
        elif k == "lca":
            x, y = T.resolve(op["a"]), T.resolve(op["b"])
            if x is None or y is None:
                exp = dict(lca=-1, sub=-1)
            elif T.anc(x) is None or T.anc(y) is None:
                continue
            else:
                exp = dict(lca=T.lca(x, y), sub=int(y in T.anc(x)))
            if o != exp:
                fail(exp)
        elif k in ("rank", "species", "genus", "family"):
            rk = op.get("rank") if k == "rank" else k
            x = T.resolve(op["a"])
            if x is None:
                exp = dict(at=-1, nil=0, has=-1)
            elif T.anc(x) is None:
                continue
            else:
                w = T.at_rank(x, rk)
                exp = dict(at=0 if w is None else w, nil=int(w is None), has=int(w is not None))
            if o != exp:
                fail(exp)
        elif k == "noderank":
            x = T.resolve(op["a"])
            exp = dict(r=None) if x is None else dict(r=T.nodes[x][1], sn=T.sci.get(x, ""))
            if o != exp:
                fail(exp)
        elif k == "nillca":
            exp = dict(lca=-1) if T.resolve(op["a"]) is None else dict(lca=-3, lca2=-3)       # a nil taxon is refused loudly, never answered
            if o != exp:
                fail(exp)
        elif k == "index":
            exp = sorted({r[0] for r in case["names"] if r[1].strip() == op["name"] and r[0] in T.nodes and
                          (not case.get("onlysn") or r[2].strip() == "scientific name")})
            if o.get("ids") != exp:
                fail(dict(ids=exp))
        elif k == "addtaxa":
            exp = dict(err=1, nil=1, dlen=0)
            if o != exp:
                fail(exp)
        elif k == "valid":
            x = T.resolve(tid)
            want = dict(before)
            if x is not None and op.get("auto") and x != tid:
                want["taxid"] = x
            exp = dict(ok=int(x is not None), again=int(x is not None), attrs=want)
            if o != exp:
                fail(exp)
        elif k in ("wlca", "w_lca"):
            m, side = attrs_dist(before)
            taxa = [(T.resolve(atoi0(kk)), w) for kk, w in m.items()]
            if any(t is None or T.anc(t) is None for t, _ in taxa):
                if k == "wlca":
                    if o.get("t") != -3:
                        fail(dict(t=-3))
                else:
                    effect(None, fatal=True)
            else:
                dist = {}
                for t, w in taxa:
                    dist[t] = dist.get(t, 0) + w
                g = sum(dist.values())
                allowed = descent(T, dist, op["thr"])
                if k == "wlca":
                    got = (o.get("t"), int(o["b"]) if o.get("b") else 0, o.get("g"))
                    if got not in {(t, b, g) for t, b in allowed}:
                        fail(sorted((t, b, g) for t, b in allowed))
                elif any(t == -4 for t, _ in allowed):
                    effect(None, fatal=True)                       # no taxon at all: lca.Taxid() on nil
                else:
                    kt, kn, ke = lca_keys(op["slot"])
                    okw = False
                    a = o.get("attrs") or {}
                    for t, b in allowed:
                        rans = struct.unpack(">d", struct.pack(">Q", b))[0]
                        want = dict(before)
                        if side:
                            want["merged_taxid"] = side
                        want.update({kt: t, kn: T.sci.get(t, "")})
                        try:
                            ev = float(a.get(ke))
                        except (TypeError, ValueError):
                            continue
                        rest = {kk: v for kk, v in a.items() if kk != ke}
                        want.pop(ke, None)
                        okw = okw or (rest == want and abs(ev - math.floor((1 - rans) * 1000 + 0.5) / 1000) < 1e-12)
                    if not okw or o.get("fatal") or o.get("err"):
                        fail(dict(keys=[kt, kn, ke], allowed=sorted(allowed)))
        elif k in ("w_species", "w_genus", "w_family", "w_atrank", "w_atranks"):
            ranks = op.get("ranks") if k == "w_atranks" else [op.get("rank") if k == "w_atrank" else k[2:]]
            if k == "w_atrank" and op["rank"] not in T.ranklist:
                effect(None, fatal=True)                           # MakeSetTaxonAtRankWorker refuses a rank no taxon carries
            else:
                upd = rank_updates(T, tid, ranks)
                if upd.pop("fatal", False):
                    effect(None, fatal=True)
                else:
                    effect(upd)
        elif k in ("w_path", "w_sci", "w_trank"):
            x = T.resolve(tid)
            if x is None:
                effect(None, fatal=True)                           # unknown taxid: log.Fatalf
            elif T.anc(x) is None:
                if k == "w_path":
                    effect(None, fatal=True)                       # the lineage does not reach the root: "Taxonomy index error"
                elif k == "w_trank":
                    effect(dict(taxonomic_rank=T.nodes[x][1]))
            elif k == "w_path":
                effect(dict(taxonomic_path=path_string(T, x)))
            elif k == "w_trank":
                effect(dict(taxonomic_rank=T.nodes[x][1]))
            else:
                a = o.get("attrs") or {}
                newk = [kk for kk in SCI_KEYS if kk in a and a.get(kk) != before.get(kk, object())] or [kk for kk in SCI_KEYS if kk in a]
                effect({newk[0]: T.sci.get(x, "")} if len(newk) >= 1 else {SCI_KEYS[0]: T.sci.get(x, "")})
        else:
            fail("unknown operation")
        if on and before is not None:
            if isinstance(o.get("attrs"), dict):
                named[on] = o["attrs"]
            else:
                named[on] = before
                if k == "wlca" and attrs_dist(before)[1]:
                    named[on] = dict(before, merged_taxid=attrs_dist(before)[1])     # StatsOn stores the table it builds
    return bad


def gen_hist(rng, case, T, ids, olds, unknown, pool, garbage):
    """a history: plain queries interleaved with weighted LCAs and workers involving the same taxa, one persistent sequence"""
    qids = ids + olds + unknown
    ops = []
    focus = [rng.choice(ids) for _ in range(3)]

    def someseq(known=True):
        k = rng.choice([1, 2, 2, 3, 4])
        focus_l = focus + [rng.choice(ids)]
        m = {str(rng.choice(focus_l + (olds if rng.random() < 0.3 else []))): rng.randrange(1, 5) for _ in range(k)}
        if not known and rng.random() < 0.5:
            m[str(rng.choice(unknown + garbage))] = 1
        r = rng.random()
        tx = rng.choice(focus_l + olds) if known or rng.random() < 0.5 else rng.choice(unknown + garbage)
        if r < 0.6:
            return dict(taxid=tx, merged=m)
        if r < 0.85:
            return dict(taxid=tx, merged=None)
        return dict(taxid=None, merged=m if r < 0.95 else None)
    thr = lambda: rng.choice([1.0, 1.0, 1.0, 0.8, 0.6, 0.5, 0.3])
    ranks = pool + ["species", "genus", "family", "absent rank"]
    slots = ["x", "lca", "taxid", "lca_taxid", "mytaxid", "taxidx", "a_taxid_b", "name", "error", "x_name"]
    ops.append(dict(op="new", on="P", seq=someseq(), attrs=rng.choice([{}, {"x_taxid": 77, "x_error": 0.5, "x_name": "stale"}, {"species_taxid": 1, "taxonomic_path": "old"}])))
    for _ in range(rng.randrange(10, 18)):
        a, b = rng.choice(focus + [rng.choice(qids)]), rng.choice(focus + [rng.choice(qids)])
        k = rng.choice(["path", "path", "lca", "lca", "rank", "species", "genus", "family", "noderank", "wlca", "wlca", "w_lca", "w_lca", "w_species", "w_genus",
                        "w_family", "w_path", "w_atrank", "w_atranks", "w_sci", "w_trank", "valid", "valid", "index", "addtaxa", "nillca"])
        op = dict(op=k)
        if k in ("path", "noderank", "nillca", "species", "genus", "family"):
            op["a"] = a
        elif k == "lca":
            op["a"], op["b"] = a, b
        elif k == "rank":
            op["a"], op["rank"] = a, rng.choice(ranks)
        elif k == "index":
            op["name"] = rng.choice([r[1].strip() for r in case["names"]] + ["nobody"])
        elif k == "addtaxa":
            op["a"], op["b"], op["rank"] = rng.choice(ids), rng.choice(ids), rng.choice(pool)
        else:
            if rng.random() < 0.35:
                op["on"] = "P"
            else:
                op["seq"] = someseq(known=rng.random() < 0.85)
            if k in ("wlca", "w_lca"):
                op["thr"] = thr()
            if k == "w_lca":
                op["slot"] = rng.choice(slots)
            if k == "w_atrank":
                op["rank"] = rng.choice(ranks)
            if k == "w_atranks":
                op["ranks"] = [rng.choice(ranks) for _ in range(rng.randrange(1, 4))]
            if k == "valid":
                op["auto"] = rng.random() < 0.6
                op["b"] = rng.randrange(2)
        ops.append(op)
    return ops


# ------------------------------------------------------------------ generators
def all_parent_maps(n):
    """every rooted tree on nodes 0..n-1 with root 0, as parent tuples"""
    res = []
    for ps in itertools.product(range(n), repeat=n - 1):
        par = (0,) + ps
        ok = True
        for v in range(1, n):
            x, k = v, 0
            while x != 0 and k <= n:
                x = par[x]; k += 1
            if x != 0:
                ok = False; break
        if ok:
            res.append(par)
    return res


def shape(rng, n, kind):
    """parent index list of a rooted tree on 0..n-1 (root 0)"""
    if kind == "chain":
        return [0] + list(range(0, n - 1))
    if kind == "star":
        return [0] * n
    if kind == "deep":
        return [0] + [rng.randrange(max(0, v - 3), v) for v in range(1, n)]
    if kind == "caterpillar":
        spine = max(1, n // 2)
        return [0] + [v - 1 if v < spine else rng.randrange(0, spine) for v in range(1, n)]
    if kind == "binary":
        return [0] + [(v - 1) // 2 for v in range(1, n)]
    return [0] + [rng.randrange(0, v) for v in range(1, n)]      # random recursive tree


def mk_case(rng, par, kind, nq, exhaustive=False, ranks=None, with_seqs=True, plain=False):
    n = len(par)
    # taxids: distinct; the root is usually 1 (NCBI) but not always
    if exhaustive:
        ids = rng.sample(range(1, 4 * n + 4), n)
    else:
        ids = rng.sample(range(2, 12 * n + 20), n)
        if rng.random() < 0.7:
            ids[0] = 1
    pool = ranks or RANKS[:rng.randrange(2, len(RANKS) + 1)]
    if kind in ("chain", "deep") and rng.random() < 0.5:
        rk = [pool[min(len(pool) - 1, (n - 1 - v) * len(pool) // n)] for v in range(n)]
    else:
        rk = [rng.choice(pool) for _ in range(n)]
    rows = [[ids[v], ids[par[v]], rk[v]] for v in range(n)]
    rng.shuffle(rows)
    used = set(ids)
    fresh = []
    while len(fresh) < 12:
        x = rng.randrange(0, 12 * n + 40)
        if x not in used:
            used.add(x); fresh.append(x)
    unknown = fresh[:2]
    merged = []
    na = 0 if rng.random() < 0.15 else rng.randrange(1, 4)
    olds = fresh[2:2 + na]
    for o in olds:
        merged.append([o, rng.choice(ids)])
    if olds and rng.random() < 0.4:
        merged.append([fresh[5], olds[0]])                   # chained: merged into an id that is itself merged (listed before)
        olds = olds + [fresh[5]]
        if rng.random() < 0.6:                               # round 2: alias chains of length 3..5
            for j in range(6, 6 + rng.randrange(1, 4)):
                merged.append([fresh[j], olds[-1]])
                olds = olds + [fresh[j]]
    if rng.random() < 0.1:
        merged.append([fresh[10], fresh[9]])                 # chain listed in the wrong order: the first row is skipped (new id unknown at that moment)
        merged.append([fresh[9], rng.choice(ids)])
        olds = olds + [fresh[9]]
        unknown = unknown + [fresh[10]]
    if rng.random() < 0.2:
        merged.append([rng.choice(ids), rng.choice(ids)])    # an old id that is still a node: the node wins
    if rng.random() < 0.2:
        merged.append([unknown[1], unknown[0]])              # merged into an unknown id: ignored
    if olds and rng.random() < 0.2:
        merged.append([olds[0], rng.choice(ids)])            # the same old id twice: the later row wins
    names = [[t, "taxon%d" % t, "scientific name", rng.choice(["", "taxon%d <x>" % t])] for t in ids]
    for t in rng.sample(ids, min(n, 3)):
        for j in range(rng.randrange(1, 4)):
            names.append([t, "alt%d_%d" % (t, j), rng.choice(["synonym", "common name", "scientific name ", "Scientific name", "authority"]), "u%d" % j])
        if rng.random() < 0.3:
            names.append([t, "second sci %d" % t, "scientific name", ""])    # two scientific names: the last row wins
    for r in names:
        r.append(rng.choice([0, 0, 0, 1, 2]))               # layout of the line (tabs / nothing / blanks)
    nameless = None
    if not exhaustive and not plain and n >= 3 and rng.random() < 0.15:
        nameless = rng.choice(ids[1:])                       # a taxon without any "scientific name" row
        names = [r for r in names if not (r[0] == nameless and r[2] == "scientific name")]
    if not exhaustive and rng.random() < 0.3:
        # round 3: rows of names.dmp for taxids that are no node (unknown id, merged id): they name nobody
        for t in rng.sample(fresh[:6], 2):
            names.append([t, rng.choice(["ghost%d" % t, "taxon%d" % rng.choice(ids)]), rng.choice(["scientific name", "synonym"]), "", rng.choice([0, 1, 2])])
    rng.shuffle(names)
    garbage = []
    if not exhaustive and not plain and n >= 3 and rng.random() < 0.15:
        # rows that are not part of the tree: a dangling parent id (and possibly a child of that row)
        g1 = fresh[11]
        rows.append([g1, 10 ** 6 + rng.randrange(1000), rng.choice(pool)])
        garbage.append(g1)
        if rng.random() < 0.5:
            g2 = 10 ** 6 + 5000 + rng.randrange(1000)
            rows.append([g2, g1, rng.choice(pool)])
            garbage.append(g2)
        rng.shuffle(rows)
        names += [[g, "garbage%d" % g, "scientific name", "", 0] for g in garbage]
    qids = ids + olds + unknown
    case = dict(kind=kind, n=n, nodes=rows, names=names, merged=merged, onlysn=rng.random() < 0.25)
    if garbage:
        case["loads"] = 6
        case["garbage"] = garbage
    elif rng.random() < 0.1:
        case["loads"] = 2
    T = Tax(case)
    small = n <= 60
    if exhaustive:
        case["pairs"] = [[a, b] for a in qids for b in qids]
        case["paths"] = list(qids)
        case["ranks"] = [[a, r] for a in qids for r in pool + ["absent rank"]]
        case["resolve"] = list(qids)
    else:
        near = []                                            # pairs biased to ancestor/descendant and siblings
        for _ in range(nq // 3):
            a = rng.choice(ids)
            an = T.anc(a)
            near.append([a, rng.choice(an)])
            near.append([rng.choice(an), a])
        case["pairs"] = near + [[rng.choice(qids), rng.choice(qids)] for _ in range(nq)] + [[ids[0], ids[0]], [ids[0], rng.choice(ids)], [rng.choice(ids), ids[0]]]
        case["paths"] = [rng.choice(qids) for _ in range(max(3, nq // 8))] + [ids[0]]
        case["ranks"] = [[rng.choice(qids), rng.choice(pool + ["absent rank"])] for _ in range(nq)]
        case["resolve"] = [rng.choice(qids) for _ in range(nq // 2)] + olds + unknown
    if garbage:
        case["pairs"] += [[rng.choice(garbage), rng.choice(ids)], [rng.choice(ids), rng.choice(garbage)], [garbage[0], garbage[-1]], [garbage[-1], garbage[0]]]
        case["paths"] += garbage
        case["ranks"] += [[g, rng.choice(pool)] for g in garbage]
        case["resolve"] += garbage
    case["sets"] = [[rng.choice(qids), [rng.choice(qids + garbage) for _ in range(rng.randrange(0, 4))]] for _ in range(min(nq, 12))]
    case["namesq"] = [[r[0], r[1]] for r in names if r[2] != "scientific name"][:12] + [[names[0][0], "nobody"], [names[0][0], ""]] + \
                     [[rng.choice(ids), "taxon%d" % rng.choice(ids)] for _ in range(3)] + ([[nameless, "taxon%d" % nameless]] if nameless else [])
    pats = ["^taxon", "^alt", "_1$", "t.x", "[0-9]+_[0-9]", "zzz", "(second|alt)", "taxon%d$" % rng.choice(ids), "^$", "sci [0-9]", "n%d" % (rng.choice(ids) % 10)]
    case["namesm"] = [[rng.choice(qids), rng.choice(pats)] for _ in range(min(nq, 8))] + ([[nameless, "taxon"]] if nameless else [])
    x = rng.choice(qids)
    case["forms"] = [["int", x], ["str", str(x)], ["str", "TX:%d" % x], ["str", "taxon [TX:%d] TX:1" % x], ["str", "+%d" % x], ["str", "-%d" % x], ["str", "TX:%dx" % x],
                     ["str", "TTX:%d" % x], ["str", "TX:TX:%d" % x], ["str", "TX: %d" % x], ["str", "tx:%d" % x], ["str", " %d" % x], ["str", "%d " % x], ["str", ""],
                     ["str", "0%d" % x], ["str", "TX:00%d" % x], ["str", "%d_0" % x], ["str", "0x%d" % x], ["str", "TX:99999999999999999999"], ["str", "99999999999999999999"],
                     ["str", "9223372036854775807"], ["str", "-9223372036854775808"], ["str", "9223372036854775808"], ["str", "TXTX:%d" % x], ["str", "T%d TX:X TX:%d" % (x, x)],
                     ["f64", float(x)], ["i64", x], ["nil", None], ["bytes", str(x)], ["int", 0], ["int", -x - 1], ["str", "0"], ["str", "TX:0"]]
    if exhaustive or n > 60:
        case["forms"] = case["forms"][:3] + rng.sample(case["forms"][3:], 5)
    case["seqs"] = []
    if with_seqs:
        for _ in range(min(nq, 10)):
            s = dict(taxid=rng.choice(qids) if rng.random() < 0.9 else None, merged=None)
            if rng.random() < 0.8:
                s["restrict"] = [rng.choice(ids + olds) for _ in range(rng.randrange(1, 3))]
            if rng.random() < 0.6:
                s["ignore"] = [rng.choice(ids + olds) for _ in range(rng.randrange(1, 3))]
            if rng.random() < 0.25:
                # round 3: three clades, two of them nested (a taxon and one of its ancestors), the third anywhere
                a = rng.choice(ids)
                tri = [a, rng.choice(T.anc(a)), rng.choice(ids + olds)]
                rng.shuffle(tri)
                s[rng.choice(["ignore", "restrict"])] = tri
            if rng.random() < 0.1:
                (s.setdefault("restrict", [])).append(unknown[0])
            if rng.random() < 0.7:
                s["require"] = [rng.choice(pool) for _ in range(rng.randrange(1, 3))]
                if rng.random() < 0.1:
                    s["require"].append("absent rank")
            if rng.random() < 0.7:
                s["atrank"] = sorted({rng.choice(pool + ["absent rank"]) for _ in range(rng.randrange(1, 3))})
            r = rng.random()
            if r < 0.4:
                s["slot"] = rng.choice(qids)
            elif r < 0.6:
                x = rng.choice(qids)
                s["slotstr"] = rng.choice(["TX:%d", "taxon TX:%d [x]", "%d", "+%d", "TX:%d TX:1", "tx:%d", "TX%d", "NA", "", "TX:", "12x"]).replace("%d", str(x))
            if rng.random() < 0.04:
                s["taxid"] = None                              # neither taxid nor merged_taxid: {"na": 1}
                s.pop("restrict", None); s.pop("ignore", None); s.pop("require", None); s.pop("atrank", None); s.pop("slot", None); s.pop("slotstr", None)
                s["thr"], s["reps"] = [1.0], 1
            elif rng.random() < 0.75:
                k = rng.choice([1, 2, 2, 3, 4, 6])
                base = rng.choice(ids)          # taxa of one clade: the LCA is below the root
                cl = [t for t in rng.sample(ids, min(n, 40)) if base in T.anc(t)] if rng.random() < 0.6 else []
                src = cl if len(cl) >= 2 else ids
                keys = [rng.choice(src) for _ in range(k)]
                m = {str(t): rng.randrange(1, 6) for t in keys}
                r = rng.random()
                if olds and r < 0.15:
                    m[str(rng.choice(olds))] = rng.randrange(1, 4)        # an alias among the merged taxids
                elif r < 0.25:
                    m[str(rng.choice(ids))] = 0                            # a taxon of weight 0 does not count
                elif r < 0.30:
                    m[str(unknown[0])] = 1                                 # unknown taxid: panic
                elif r < 0.40 and garbage:
                    m[str(rng.choice(garbage))] = 1                        # round 3: a taxid whose lineage does not reach the root: panic
                r = rng.random()
                if olds and r < 0.25:
                    # round 2: several ids of ONE taxon (aliases and/or the taxon itself) in the same merged set: their weights add up
                    o = rng.choice(olds)
                    m[str(o)] = rng.choice([0, 1, 1, 2, 5])
                    m[str(T.resolve(o))] = rng.choice([0, 1, 1, 3])
                    for o2 in olds:
                        if o2 != o and T.resolve(o2) == T.resolve(o) and rng.random() < 0.7:
                            m[str(o2)] = rng.choice([0, 1, 2])
                elif r < 0.35:
                    # ties: two sister clades of equal weight
                    w = rng.randrange(1, 4)
                    for t in rng.sample(ids, min(n, 2)):
                        m[str(t)] = w
                s["merged"] = m
                if small:
                    s["thr"] = sorted({rng.choice([1.0, 1.0, 0.9, 0.75, 2 / 3, 0.6, 0.5, 0.5, 0.4, 1 / 3, 0.25, 0.1, 1.5, round(rng.random(), 3) or 0.5]) for _ in range(rng.randrange(1, 4))} | {1.0}, reverse=True)
                    s["reps"] = 12
                else:
                    s["thr"], s["reps"] = [1.0, rng.choice([0.5, 0.7])], 3
            case["seqs"].append(s)
        if n <= 60 and (not exhaustive or rng.random() < 0.15):
            case["hist"] = gen_hist(rng, case, T, ids, olds, unknown, pool, garbage)
        case["again"] = n <= 60
    return case


CORPUS = [
    # hand-written: NCBI-like mini taxonomy (root 1), alias 99 -> 7, unknown 1234
    dict(kind="corpus", n=8, onlysn=False,
         nodes=[[1, 1, "no rank"], [2, 1, "kingdom"], [3, 2, "family"], [4, 3, "genus"], [5, 4, "species"], [6, 4, "species"], [7, 3, "genus"], [8, 7, "species"]],
         names=[[t, "taxon%d" % t, "scientific name"] for t in range(1, 9)] + [[5, "first synonym", "synonym"], [5, "second synonym", "synonym"], [8, "only synonym", "synonym"]],
         merged=[[99, 7], [98, 99], [97, 1234], [5, 6]],
         pairs=[[a, b] for a in (1, 2, 3, 4, 5, 6, 7, 8, 99, 98, 97, 1234) for b in (1, 2, 3, 4, 5, 6, 7, 8, 99, 98, 97, 1234)],
         paths=[1, 5, 8, 99, 98, 97, 1234], ranks=[[a, r] for a in (1, 5, 8, 99, 1234) for r in ("species", "genus", "family", "kingdom", "no rank", "order")],
         sets=[[5, [7, 3]], [5, [7]], [5, []], [8, [99]], [1, [1]], [99, [4, 5]], [1234, [1]]], resolve=[1, 5, 99, 98, 97, 1234, 0],
         namesq=[[5, "first synonym"], [5, "second synonym"], [8, "only synonym"], [5, "taxon5"], [5, "taxon6"]],
         seqs=[dict(taxid=5, merged={"5": 2, "6": 1}, restrict=[3], ignore=[7], require=["genus"], atrank=["genus", "family"], slot=4),
               dict(taxid=8, merged={"5": 2, "8": 1, "99": 4}, restrict=[4, 99], ignore=[4], require=["species", "kingdom"], atrank=["species"], slot=99),
               dict(taxid=99, merged={"99": 1}, restrict=[7], ignore=[8], require=["genus"], atrank=["genus"]),
               dict(taxid=1234, merged={"5": 1}, restrict=[1], ignore=[1], require=["no rank"], atrank=["no rank"], slot=1),
               dict(taxid=None, merged={"5": 1, "6": 1, "4": 3}, restrict=[1], ignore=[2]),
               dict(taxid=5, merged=None, restrict=[1234]), dict(taxid=5, merged={"5": 1, "1234": 1}), dict(taxid=2, merged={"5": 0, "8": 3}),
               dict(taxid=5, merged={"5": 1, "1": 1}), dict(taxid=5, merged={"8": 5}, require=["order"], atrank=["order"])]),
    # a single node; duplicated rows (the later row replaces the earlier one)
    dict(kind="corpus", n=1, onlysn=True, nodes=[[7, 7, "no rank"]], names=[[7, "root", "scientific name"]], merged=[], pairs=[[7, 7], [7, 1], [1, 1]], paths=[7, 1],
         ranks=[[7, "no rank"], [7, "species"]], sets=[[7, [7]], [7, []]], resolve=[7, 1], namesq=[[7, "root"]], seqs=[dict(taxid=7, merged=None, restrict=[7], atrank=["no rank"]), dict(taxid=None, merged={"7": 3})]),
    dict(kind="corpus", n=4, onlysn=False, nodes=[[1, 1, "no rank"], [2, 1, "genus"], [3, 1, "genus"], [4, 2, "species"], [4, 3, "species"]],
         names=[[t, "taxon%d" % t, "scientific name"] for t in range(1, 5)], merged=[], pairs=[[4, 2], [4, 3], [4, 4]], paths=[4], ranks=[[4, "genus"]], sets=[], resolve=[4], namesq=[], seqs=[]),
]
# round 2: thresholds below 1.0 (ties, alias weights), Taxon(interface{}) forms, IsNameMatching, rows outside the tree, a taxon without scientific name
_R2NODES = [[1, 1, "no rank"], [2, 1, "kingdom"], [3, 2, "family"], [4, 3, "genus"], [5, 4, "species"], [6, 4, "species"], [7, 3, "genus"], [8, 7, "species"]]
CORPUS += [
    dict(kind="corpus", n=8, onlysn=False, nodes=_R2NODES,
         names=[[t, "taxon%d" % t, "scientific name", "uniq %d" % t] for t in range(1, 9)] + [[5, "first synonym", "synonym", ""], [5, "Homo sapiens", "scientific name", ""], [8, "only synonym", "common name", ""]],
         merged=[[99, 7], [98, 99], [96, 98], [95, 96], [94, 95]],
         resolve=[99, 98, 96, 95, 94], pairs=[[94, 5], [95, 8]], paths=[94],
         namesq=[[5, "taxon5"], [5, "Homo sapiens"], [5, "first synonym"], [5, ""]], namesm=[[5, "^Homo"], [5, "^taxon"], [5, "syn"], [8, "^only"], [8, "^taxon8$"], [2, "x.n2"]],
         forms=[["int", 5], ["str", "5"], ["str", "TX:5"], ["str", "x TX:98 y"], ["f64", 5.0], ["i64", 5], ["nil", None], ["bytes", "5"], ["str", "+5"], ["str", "-5"], ["str", " 5"],
                ["str", "TX:99999999999999999999999"], ["str", "5_0"], ["str", "0x5"], ["str", "TX:5TX:6"], ["str", "TXTX:6"], ["str", "TX:x TX:7"]],
         seqs=[dict(taxid=5, merged={"5": 1, "6": 1, "8": 2}, thr=[1.0, 0.75, 0.5, 0.4, 0.25], reps=40),        # tie 4 | 7 at 0.5, then 5 | 6 at 0.25
               dict(taxid=5, merged={"99": 4, "7": 1, "5": 2}, thr=[1.0, 0.6, 0.3], reps=40),                    # 99 is an alias of 7: node 7 weighs 5
               dict(taxid=5, merged={"99": 0, "7": 1, "5": 2}, thr=[1.0], reps=40),                              # (7 overwritten with 0 before the fix: LCA 5 or 3)
               dict(taxid=5, merged={"94": 1, "95": 1, "8": 1, "5": 1}, thr=[1.0, 0.7, 0.5], reps=20),
               dict(taxid=5, merged={"5": 3, "6": 2, "4": 1, "3": 1}, thr=[1.0, 0.9, 5 / 7, 0.7, 0.5, 0.3], reps=10),  # inner nodes among the merged taxa
               dict(taxid=None, merged=None, thr=[1.0], reps=1),
               dict(taxid=5, merged={"5": 0, "8": 0}, thr=[1.0, 0.5], reps=5),
               dict(taxid=5, merged={"5": 2, "8": 1}, thr=[1.5, 1.0, 2 / 3, 0.6666666666666667, 0.66666666666666674], reps=5)]),
    # rows outside the tree (dangling parent) + a taxon without scientific name (6) that is the genus of nobody but the species of itself
    dict(kind="corpus", n=8, onlysn=False, nodes=_R2NODES + [[50, 777, "species"], [51, 50, "species"]], loads=8, garbage=[50, 51],
         names=[[t, "taxon%d" % t, "scientific name"] for t in (1, 2, 3, 5, 7, 8, 50, 51)] + [[4, "just a synonym", "synonym"]], merged=[],
         pairs=[[5, 8], [8, 5], [5, 5], [6, 4], [50, 5], [5, 50], [51, 50], [50, 50]], paths=[5, 8, 50, 51], ranks=[[5, "genus"], [8, "family"], [50, "species"], [51, "genus"]],
         sets=[[5, [7, 50]], [8, [7]]], resolve=[5, 50, 51], namesq=[[4, "just a synonym"], [6, "x"]], namesm=[[4, "syn"], [5, "^t"]],
         seqs=[dict(taxid=5, merged={"5": 1, "6": 1}, restrict=[3], atrank=["genus", "species"], thr=[1.0], reps=3),
               dict(taxid=6, merged=None, atrank=["species", "family"])]),
]
# round 3: hand-written histories.  (a) the scenario of a lineage memoised and reversed in place: weighted LCAs, then the plain queries on the
# same taxa, then weighted LCAs again; one persistent sequence that already carries the annotations of a previous run.  (b) rows outside the tree:
# the workers that need the lineage stop, the others answer.
CORPUS[3]["again"] = True
CORPUS[3]["hist"] = [
    dict(op="path", a=5), dict(op="wlca", seq=dict(taxid=None, merged={"5": 1, "8": 1}), thr=1.0), dict(op="path", a=5), dict(op="path", a=8), dict(op="lca", a=5, b=8),
    dict(op="wlca", seq=dict(taxid=None, merged={"5": 1, "6": 1}), thr=1.0), dict(op="wlca", seq=dict(taxid=None, merged={"5": 1, "6": 1}), thr=1.0), dict(op="wlca", seq=dict(taxid=None, merged={"6": 2}), thr=1.0),
    dict(op="species", a=6), dict(op="genus", a=6), dict(op="family", a=6), dict(op="family", a=2), dict(op="rank", a=94, rank="genus"), dict(op="noderank", a=98), dict(op="noderank", a=1234),
    dict(op="new", on="P", seq=dict(taxid=98, merged=None), attrs={"lca_taxid": 1, "lca_name": "stale", "lca_error": 0.25, "species_taxid": 5, "genus_name": "old", "taxonomic_path": "1@x@y", "taxonomic_rank": "zz"}),
    dict(op="w_lca", on="P", slot="lca", thr=1.0), dict(op="valid", on="P", auto=False, b=1), dict(op="valid", on="P", auto=True), dict(op="valid", on="P", auto=True),
    dict(op="w_lca", on="P", slot="lca", thr=1.0), dict(op="w_species", on="P"), dict(op="w_genus", on="P"), dict(op="w_family", on="P"), dict(op="w_path", on="P"), dict(op="w_trank", on="P"), dict(op="w_sci", on="P"),
    dict(op="w_atranks", on="P", ranks=["kingdom", "genus", "order"]), dict(op="w_atrank", on="P", rank="order"), dict(op="w_atrank", on="P", rank="kingdom"),
    dict(op="w_lca", seq=dict(taxid=5, merged={"5": 1, "6": 1, "8": 2}), slot="taxid", thr=0.75), dict(op="w_lca", seq=dict(taxid=5, merged={"5": 3, "6": 1}), slot="taxidtaxid", thr=0.7),
    dict(op="w_lca", seq=dict(taxid=5, merged={"5": 1, "1234": 1}), slot="x", thr=1.0), dict(op="w_path", seq=dict(taxid=1234, merged=None)), dict(op="w_sci", seq=dict(taxid=1234, merged=None)),
    dict(op="w_trank", seq=dict(taxid=None, merged=None)), dict(op="w_species", seq=dict(taxid=1234, merged=None)), dict(op="valid", seq=dict(taxid=1234, merged=None), auto=True),
    dict(op="index", name="Homo sapiens"), dict(op="index", name="taxon8"), dict(op="index", name="only synonym"), dict(op="index", name="nobody"),
    dict(op="addtaxa", a=5, b=1, rank="species"), dict(op="nillca", a=5), dict(op="nillca", a=1234), dict(op="path", a=5), dict(op="lca", a=6, b=5), dict(op="path", a=94)]
CORPUS[4]["again"] = True
CORPUS[4]["hist"] = [
    dict(op="w_path", seq=dict(taxid=50, merged=None)), dict(op="w_path", seq=dict(taxid=51, merged=None)), dict(op="w_trank", seq=dict(taxid=51, merged=None)), dict(op="w_sci", seq=dict(taxid=50, merged=None)),
    dict(op="wlca", seq=dict(taxid=None, merged={"50": 1, "5": 1}), thr=1.0), dict(op="w_lca", seq=dict(taxid=None, merged={"5": 1, "51": 1}), slot="x", thr=1.0), dict(op="path", a=5),
    dict(op="w_path", seq=dict(taxid=6, merged=None)), dict(op="w_sci", seq=dict(taxid=6, merged=None)), dict(op="w_genus", seq=dict(taxid=6, merged=None)), dict(op="w_species", seq=dict(taxid=4, merged=None)),
    dict(op="index", name="just a synonym"), dict(op="index", name="taxon50"), dict(op="noderank", a=6), dict(op="lca", a=5, b=8)]
for c in CORPUS:
    for k in ("pairs", "paths", "ranks", "sets", "resolve", "namesq", "seqs"):
        c.setdefault(k, [])

# the taxonomy is not a tree: parent cycle 2 <-> 3 beside the root (outside the quantifier of the property; exhibited as termination finding)
CYCLE = dict(kind="cycle", n=3, onlysn=True, nodes=[[1, 1, "no rank"], [2, 3, "genus"], [3, 2, "species"]], names=[[t, "taxon%d" % t, "scientific name"] for t in (1, 2, 3)],
             merged=[], pairs=[], paths=[2], ranks=[], sets=[], resolve=[], namesq=[], seqs=[])


def gen_cases(ctx, quick):
    rng = ctx.rng
    cases = [json.loads(json.dumps(c)) for c in CORPUS]
    # exhaustive small scope: every rooted tree up to nmax nodes x all pairs (with aliases and unknown ids) x all ranks
    nmax = 5 if quick else 6         # round 2: every rooted tree with at most 5 nodes in the quick tier
    nex = 0
    for n in range(1, nmax + 1):
        for par in all_parent_maps(n):
            cases.append(mk_case(rng, list(par), "all%d" % n, 4, exhaustive=True, ranks=RANKS[:3], with_seqs=(n <= 5)))
            nex += 1
    sizes = ([(8, 40), (40, 25), (300, 6)] if quick else [(8, 1000), (40, 400), (300, 80), (1500, 12)])
    for n, k in sizes:
        for _ in range(k):
            m = rng.randrange(max(2, n // 3), n + 1)
            kind = rng.choice(["rrt", "rrt", "deep", "caterpillar", "binary", "chain", "star"])
            cases.append(mk_case(rng, shape(rng, m, kind), kind, 30))
    big = [("rrt", 2000), ("deep", 1500), ("chain", 600), ("star", 1500)] if quick else \
          [("rrt", 5000), ("rrt", 3000), ("deep", 5000), ("chain", 3000), ("star", 5000), ("caterpillar", 4000), ("binary", 4095)]
    for kind, n in big:
        cases.append(mk_case(rng, shape(rng, n, kind), kind, 40))
    return cases, nex


# ------------------------------------------------------------------ Gallina rendering
def zl(l):
    return "[" + "; ".join("(%d)" % x if x < 0 else str(x) for x in l) + "]%Z"


def nl(l):
    return "[" + "; ".join(str(x) for x in l) + "]"


STRTAB = {}


def bl(x):
    """byte string -> name of a Gallina constant defined once per generated file (keeps the case terms small)"""
    return STRTAB.setdefault(x, "b%d" % len(STRTAB))


FTAB = {}
SEQTAB = {}


def sq(term):
    """sequence term -> name of a constant defined once per generated file"""
    return SEQTAB.setdefault(term, "sq%d" % len(SEQTAB))


def strtab_defs():
    return strtab_defs0() + "".join("Definition %s : seq := %s.\n" % (k, x) for x, k in SEQTAB.items())


def strtab_defs0():
    return "".join("Definition %s : spec_float := %s.\n" % (k, x) for x, k in FTAB.items()) + \
        "".join("Definition %s : list N := [%s].\n" % (k, ";".join(str(c) for c in x.encode("utf8"))) for x, k in STRTAB.items())


def sf(bits):
    return FTAB.setdefault(sf_lit(bits), "f%d" % len(FTAB))


def sf_lit(bits):
    """IEEE binary64 bit pattern -> SpecFloat.spec_float literal"""
    sign = "true" if bits >> 63 else "false"
    e, f = (bits >> 52) & 0x7ff, bits & ((1 << 52) - 1)
    if e == 0x7ff:
        return "S754_nan" if f else "(S754_infinity %s)" % sign
    if e == 0 and f == 0:
        return "(S754_zero %s)" % sign
    if e == 0:
        return "(S754_finite %s %d (-1074))" % (sign, f)
    return "(S754_finite %s %d (%d))" % (sign, f | (1 << 52), e - 1075)


def name_line(r):
    """the line of names.dmp the harness writes for a row [taxid, name, class, unique name, layout]"""
    uniq = r[3] if len(r) > 3 else ""
    layout = r[4] if len(r) > 4 else 0
    if layout == 1:
        return "%d|%s|%s|%s|" % (r[0], r[1], uniq, r[2])
    if layout == 2:
        return " %d | %s  |%s |  %s | " % (r[0], r[1], uniq, r[2])
    return "%d\t|\t%s\t|\t%s\t|\t%s\t|" % (r[0], r[1], uniq, r[2])


def form_term(kind, v):
    if kind == "int":
        return "FInt (%d)%%Z" % v
    if kind == "str":
        return "FStr %s" % bl(v)
    return "FOther"


def case_term(case, obs):
    rc = {}

    def rcode(r):
        return rc.setdefault(r, len(rc))
    nodes = "[" + "; ".join("(%d,%d,%d)" % (t, p, rcode(r)) for t, p, r in case["nodes"]) + "]"
    merged = "[" + "; ".join("(%d,%d)" % (o, n) for o, n in case["merged"]) + "]"
    # round 3: the queries made in the middle of a history and the second pass are answered by the same pure functions
    xp = [((op["a"], op["b"]), o) for op, o in zip(case.get("hist") or [], obs.get("hist") or []) if op["op"] == "lca" and "lca" in o]
    xq = [(op["a"], o.get("p")) for op, o in zip(case.get("hist") or [], obs.get("hist") or []) if op["op"] == "path" and "p" in o]
    xr = [((op["a"], op.get("rank") if op["op"] == "rank" else op["op"]), o) for op, o in zip(case.get("hist") or [], obs.get("hist") or [])
          if op["op"] in ("rank", "species", "genus", "family") and "at" in o]
    again_p = list(zip(case["pairs"], obs.get("pairs2") or [])) if case.get("again") else []
    again_q = list(zip(case["paths"], obs.get("paths2") or [])) if case.get("again") else []
    pairs = "[" + "; ".join("(%d,%d,(%d)%%Z,(%d)%%Z)" % (a, b, o["lca"], o["sub"]) for (a, b), o in list(zip(case["pairs"], obs["pairs"] or [])) + xp + again_p) + "]"
    paths = "[" + "; ".join("(%d,%s)" % (a, zl([-1] if o is None else o)) for a, o in list(zip(case["paths"], obs["paths"] or [])) + xq + again_q) + "]"
    ranks = "[" + "; ".join("(%d,%d,(%d)%%Z,(%d)%%Z,(%d)%%Z)" % (a, rcode(r), o["at"], o["nil"], o["has"]) for (a, r), o in list(zip(case["ranks"], obs["ranks"] or [])) + xr) + "]"
    sets = "[" + "; ".join("(%d,%s,(%d)%%Z)" % (a, nl(ids), o) for (a, ids), o in zip(case["sets"], obs["sets"] or [])) + "]"
    res = "[" + "; ".join("(%d,(%d)%%Z)" % (a, o) for a, o in zip(case["resolve"], obs["resolve"] or [])) + "]"
    seqs = []
    for s, o in zip(case["seqs"], obs["seqs"] or []):
        tx = "None" if s.get("taxid") is None else "(Some %d)" % s["taxid"]
        mg = "None" if s.get("merged") is None else "(Some [" + "; ".join("(%d,(%d)%%Z)" % (int(k), w) for k, w in s["merged"].items()) + "])"
        sv = s["slotstr"] if s.get("slotstr") is not None else (str(s["slot"]) if s.get("slot") is not None else None)
        sl = "None" if sv is None else "(Some (FStr %s))" % bl(sv)      # the model parses the attribute value itself (taxon_of)
        at = "[" + "; ".join("(%d,(%d)%%Z)" % (rcode(k), (o.get("atrank") or {}).get(k, -99)) for k in (s.get("atrank") or [])) + "]"
        thr = []
        for t, ot in zip(s.get("thr") or [], o.get("thr") or []):
            outs = "; ".join("((%d)%%Z, %s, (%d)%%Z)" % (q["t"], sf(int(q["b"]) if q["b"] else 0), q["g"]) for q in ot if q["t"] != -100)
            thr.append("(%s, [%s])" % (sf(fbits(t)), outs))
        seqs.append("mkseq %s %s %s %s %s %s %s %s [%s] (%d)%%Z" % (tx, mg, nl(s.get("restrict") or []), nl(s.get("ignore") or []), nl([rcode(k) for k in (s.get("require") or [])]), at, sl,
                                                      zl([o["valid"], o["restrict"], o["ignore"], o["require"], o["slotsub"], o["wlca"], o["lcaattr"]]), "; ".join(thr), o.get("notax", -9)))
    TT = Tax(case)
    nrows = case["names"]
    if case["n"] > 60:      # large taxonomies: only the rows of the taxa whose names are queried (the model filters on the taxid anyway)
        asked = {TT.resolve(q[0]) for q in (case["namesq"] or []) + (case.get("namesm") or [])}
        nrows = [r for r in nrows if r[0] in asked]
    names = "[" + "; ".join("(%d,%s,%s)" % (r[0], bl(r[1].strip()), bl(r[2].strip())) for r in nrows) + "]"
    namesq = "[" + "; ".join("(%d,%s,(%d)%%Z)" % (a, bl(n), o) for (a, n), o in zip(case["namesq"], obs["namesq"] or [])) + "]"
    pc = {}
    namesm = "[" + "; ".join("(%d,%d,(%d)%%Z)" % (a, pc.setdefault(pat, len(pc)), o) for (a, pat), o in zip(case.get("namesm") or [], obs.get("namesm") or [])) + "]"
    need = sorted({(pat, r[1].strip()) for a, pat in case.get("namesm") or [] for r in case["names"] if r[0] == TT.resolve(a)})
    retab = "[" + "; ".join("(%d,%s,%s)" % (pc[pat], bl(n), "true" if re.search(pat, n) else "false") for pat, n in need) + "]"
    forms = "[" + "; ".join("(%s,(%d)%%Z)" % (form_term(k, v), o) for (k, v), o in zip(case.get("forms") or [], obs.get("forms") or [])) + "]"
    nparse = "[" + "; ".join("(%s,(%d)%%Z,%s,%s)" % (bl(name_line(r)), r[0], bl(r[1].strip()), bl(r[2].strip())) for r in nrows[:6]) + "]"
    return "mkcase %s %s (%d)%%Z (%d)%%Z %s %s %s %s %s [%s] %s %s %s %s %s %s %s %s" % (nodes, merged, obs["len"], obs["nalias"], pairs, paths, ranks, sets, res, "; ".join(seqs),
                                                                 "true" if case.get("onlysn") else "false", names, namesq,
                                                                 "true" if TT.wf() else "false", forms, namesm, retab, nparse)


# ------------------------------------------------------------------ round 3: Gallina rendering of the glue observations (Model3.mismatches3)
IMPORTS3 = "From Coq Require Import NArith ZArith List Floats.SpecFloat. Import ListNotations.\nFrom OBI.C14 Require Import Model Model3.\nOpen Scope N_scope."


def seq_term3(a):
    """mkseq for a sequence given by its attributes (taxid, merged_taxid, clade)"""
    tx = "None" if a.get("taxid") is None else "(Some %d)" % a["taxid"]
    m = a.get("merged_taxid")
    if isinstance(m, dict) and all(re.fullmatch(r"\d+", k) for k in m):
        mg = "(Some [" + "; ".join("(%d,(%d)%%Z)" % (int(k), w) for k, w in m.items()) + "])"
    elif isinstance(m, dict):
        return None
    else:
        mg = "None"
    sl = "None" if a.get("clade") is None else "(Some (FStr %s))" % bl(str(a["clade"]))
    return sq("(mkseq %s %s [] [] [] [] %s []%%Z [] (-9)%%Z)" % (tx, mg, sl))


def parse_path_attr(v, rcode):
    """taxonomic_path -> [(taxid, name, rank code)] and [(digits, name, rank label)]"""
    tri, fields = [], []
    if v == "":
        return tri, fields
    for e in v.split("|"):
        f = e.split("@")
        if len(f) != 3 or not re.fullmatch(r"\d+", f[0]):
            return None, None
        tri.append("((%s)%%Z,%s,%d)" % (f[0], bl(f[1]), rcode(f[2])))
        fields.append("(%s,%s,%s)" % (bl(f[0]), bl(f[1]), bl(f[2])))
    return tri, fields


XKINDS = {}


def xcase_term(case, obs, extra=None):
    """the round-3 observations of one case as a Model3.xcase (None: nothing to say)"""
    rc = {}

    def rcode(r):
        return rc.setdefault(r, len(rc))
    nodes = "[" + "; ".join("(%d,%d,%d)" % (t, p, rcode(r)) for t, p, r in case["nodes"]) + "]"
    merged = "[" + "; ".join("(%d,%d)" % (o, n) for o, n in case["merged"]) + "]"
    names = "[" + "; ".join("(%d,%s,%s)" % (r[0], bl(r[1].strip()), bl(r[2].strip())) for r in case["names"]) + "]"
    q = list(extra(rcode) if extra else [])
    befores = []
    if case.get("hist") and obs.get("hist"):
        hist_check(case, obs["hist"], befores)
    for op, o, before in zip(case.get("hist") or [], obs.get("hist") or [], befores):
        k = op["op"]
        if o.get("panic") or o.get("err"):
            continue
        a = o.get("attrs") if isinstance(o.get("attrs"), dict) else None
        st = seq_term3(before) if before is not None else None
        if before is not None and st is None:
            continue
        if k == "index" and all(x >= 0 for x in o.get("ids") or []):
            q.append("XIndex %s %s" % (bl(op["name"]), nl(o.get("ids") or [])))
        elif k == "valid" and a is not None and isinstance(a.get("taxid", 0), int) and a.get("taxid", 0) >= 0:
            q.append("XValid %s %s (%d)%%Z (%d)%%Z" % (st, "true" if op.get("auto") else "false", o["ok"], a.get("taxid", -9)))
        elif k == "wlca" and "t" in o:
            q.append("XThr %s (%s, [((%d)%%Z, %s, (%d)%%Z)])" % (st, sf(fbits(op["thr"])), o["t"], sf(int(o["b"]) if o.get("b") else 0), o.get("g", 0)))
        elif k == "w_lca":
            if o.get("fatal"):
                q.append("XLcaW %s %s (-3)%%Z" % (st, sf(fbits(op["thr"]))))
            elif a is not None:
                newk = [kk for kk in a if kk != "merged_taxid" and (kk not in before or a[kk] != before[kk])]
                if len(newk) == 3:
                    kn = [kk for kk in newk if isinstance(a[kk], str)]
                    ke = [kk for kk in newk if not isinstance(a[kk], str) and a[kk] < 1]
                    kt = [kk for kk in newk if isinstance(a[kk], int) and a[kk] >= 1]
                    if len(kn) == len(ke) == len(kt) == 1:
                        q.append("XKeys %s %s %s %s" % (bl(op["slot"]), bl(kt[0]), bl(kn[0]), bl(ke[0])))
                        q.append("XLcaW %s %s (%d)%%Z" % (st, sf(fbits(op["thr"])), a[kt[0]]))
        elif k in ("w_species", "w_genus", "w_family", "w_atrank", "w_atranks"):
            ranks = op.get("ranks") if k == "w_atranks" else [op.get("rank") if k == "w_atrank" else k[2:]]
            if any(rk + "_taxid" in before or rk + "_name" in before for rk in ranks) or len(set(ranks)) != len(ranks):
                continue
            rs = []
            for rk in ranks:
                if a is not None and rk + "_taxid" in a:
                    rs.append("(%d, Some ((%d)%%Z, %s))" % (rcode(rk), a[rk + "_taxid"], bl(str(a.get(rk + "_name", "?")))))
                else:
                    rs.append("(%d, None)" % rcode(rk))
            q.append("XRanks %s %s [%s] %s" % (st, "true" if k == "w_atrank" else "false", "; ".join(rs), "true" if o.get("fatal") else "false"))
        elif k == "w_path" and "taxonomic_path" not in before:
            if o.get("fatal"):
                q.append("XPath %s None" % st)
            elif a is not None and isinstance(a.get("taxonomic_path"), str):
                tri, fields = parse_path_attr(a["taxonomic_path"], rcode)
                if tri is not None:
                    q.append("XPath %s (Some [%s])" % (st, "; ".join(tri)))
                    q.append("XPathStr [%s] %s" % ("; ".join(fields), bl(a["taxonomic_path"])))
        elif k == "w_sci" and not any(kk in before for kk in SCI_KEYS):
            if o.get("fatal"):
                q.append("XSci %s None" % st)
            elif a is not None:
                v = [a[kk] for kk in SCI_KEYS if kk in a]
                if len(v) == 1 and isinstance(v[0], str):
                    q.append("XSci %s (Some %s)" % (st, bl(v[0])))
        elif k == "w_trank" and "taxonomic_rank" not in before:
            if o.get("fatal"):
                q.append("XTrank %s None" % st)
            elif a is not None and isinstance(a.get("taxonomic_rank"), str):
                q.append("XTrank %s (Some %d)" % (st, rcode(a["taxonomic_rank"])))
    if not q:
        return None
    for x in q:
        XKINDS[x.split()[0]] = XKINDS.get(x.split()[0], 0) + 1
    return "mkx %s %s %s %s [%s]" % (nodes, merged, "true" if case.get("onlysn") else "false", names, ";\n ".join(q))


def evaluate_ext(ctx, pairs, broken, label):
    """correspondence of the round-3 observations: pairs = [(case, observation, extra-queries function | None)]"""
    t0 = time.time()
    jobs = []
    todo = [(i, c, o, x) for i, (c, o, x) in enumerate(pairs) if o.get("kind") == "ok" and c["n"] <= 60 and (c.get("hist") or x)]
    shard = 20
    for k in range(0, len(todo), shard):
        chunk = todo[k:k + shard]
        STRTAB.clear()
        FTAB.clear()
        SEQTAB.clear()
        terms, idx = [], []
        for i, c, o, x in chunk:
            t = xcase_term(c, o, x)
            if t is not None:
                terms.append(t)
                idx.append(i)
        if terms:
            jobs.append((idx, "%s_x%d" % (label, k // shard), IMPORTS3 + "\n" + strtab_defs(), terms))

    def one(job):
        idx, nm, imports, terms = job
        for attempt in range(3):
            bad, err = ctx.correspond(nm, imports, terms, fn="mismatches3", shard=len(terms))
            if bad is not None or not any(w in (err or "") for w in ("Terminated", "Killed")):
                break
        return idx, bad, err
    from concurrent.futures import ThreadPoolExecutor
    with ThreadPoolExecutor(max_workers=8) as ex:
        results = list(ex.map(one, jobs))
    mism = []
    nq = 0
    for idx, bad, err in results:
        if bad is None:
            broken.append(dict(kind="correspondence", detail=err))
        else:
            mism += [idx[i] for i in bad]
    ctx.cov["coq_eval_ext_s"] = round(ctx.cov.get("coq_eval_ext_s", 0) + time.time() - t0, 1)
    ctx.cov["glue_model_queries"] = dict(XKINDS)
    return sorted(mism)


# ------------------------------------------------------------------ run
def nontrivial(case):
    """a case is non-trivial when the tree has >= 3 nodes and at least one queried pair is incomparable (LCA is neither of the two) or an alias is queried"""
    return case["n"] >= 3


def evaluate(ctx, cases, broken, label, coq=True):
    t0 = time.time()
    obs = ctx.vh_robust("c14", cases, timeout=600, one_timeout=30)
    ctx.cov["harness_s"] = round(ctx.cov.get("harness_s", 0) + time.time() - t0, 1)
    nviol = 0
    failing = []
    for i, (c, o) in enumerate(zip(cases, obs)):
        if o.get("kind") == "crash":
            bad = [("crash", 0, o, "ok")]
        else:
            bad = compare(c, o, expected(c))
        if bad:
            failing.append(i)
            nviol += 1
            if nviol <= 3:
                what, j, got, exp = bad[0]
                q = c[what.split(".")[0]][j] if what.split(".")[0] in c and j < len(c[what.split(".")[0]]) else None
                ctx.violation("%s_oracle_%d" % (label, i), dict(property="C14", kind="direct-oracle", what=what, query=q, implementation=got, expected=exp,
                                                              n_disagreements=len(bad), case=c))
    mism = []
    if coq:
        t0 = time.time()
        ok_idx = [i for i, o in enumerate(obs) if o.get("kind") == "ok"]
        small = [i for i in ok_idx if cases[i]["n"] <= 60]
        large = [i for i in ok_idx if cases[i]["n"] > 60]
        jobs = []
        for part, shard, nm in ((small, 25, label + "_s"), (large, 2, label + "_l")):
            for k in range(0, len(part), shard):      # one generated file per shard, each with its own table of string constants
                chunk = part[k:k + shard]
                STRTAB.clear()
                FTAB.clear()
                SEQTAB.clear()
                terms = [case_term(cases[i], obs[i]) for i in chunk]
                jobs.append((chunk, "%s%d" % (nm, k // shard), IMPORTS + "\n" + strtab_defs(), terms))

        def one(job):
            chunk, nm, imports, terms = job
            for attempt in range(3):     # a coqc killed from outside (other checks share the machine) is retried, a real failure is not
                bad, err = ctx.correspond(nm, imports, terms, shard=len(terms))
                if bad is not None or not any(w in (err or "") for w in ("Terminated", "Killed")):
                    break
            return chunk, bad, err
        from concurrent.futures import ThreadPoolExecutor
        with ThreadPoolExecutor(max_workers=14) as ex:
            results = list(ex.map(one, jobs))
        for chunk, bad, err in results:
            if bad is None:
                broken.append(dict(kind="correspondence", detail=err))
            else:
                mism += [chunk[i] for i in bad]
        ctx.cov["model_evaluations"] = len(small) + len(large)
        ctx.cov["coq_eval_s"] = round(ctx.cov.get("coq_eval_s", 0) + time.time() - t0, 1)
    return obs, sorted(mism), failing


def run_cycle(ctx):
    """parent cycle: the loader accepts it and Path never returns (termination finding; outside wf_tax)."""
    obs = ctx.vh_robust("c14", [CYCLE], timeout=4, one_timeout=4)
    o = obs[0]
    ctx.cov["cycle_observation"] = o.get("kind")
    # Outside the property's quantifier (a parent cycle is not a rooted tree): recorded in the evidence as an
    # observation (termination finding of the model: C14_path_cycle_out_of_fuel), never raised.
    ctx.cov["cycle_observation_note"] = "nodes.dmp with a parent cycle 2->3->2: Path never returns (harness timeout) — outside wf_tax, observation only"


def run_hang(ctx):
    """Taxonomy.LCA(seq, 0.0) (--lca-error 1): `for rmax >= threshold` never exits (observation; C14_wld_never_returns_when_every_score_passes)."""
    c = json.loads(json.dumps(CORPUS[0]))
    for k in ("pairs", "paths", "ranks", "sets", "resolve", "namesq"):
        c[k] = []
    c["seqs"] = [dict(taxid=5, merged={"5": 1, "8": 1}, thr=[0.0], reps=1)]
    obs = ctx.vh_robust("c14", [c], timeout=4, one_timeout=4)
    ctx.cov["threshold0_observation"] = obs[0].get("kind")
    ctx.cov["threshold0_observation_note"] = "Taxonomy.LCA(seq, 0.0): the loop never exits (harness timeout = kind 'crash') - outside the property, observation only"


# ------------------------------------------------------------------ round 3: the dump files as text (irregular but valid; malformed; missing)
def dump_text(case):
    n = "".join("%d\t|\t%d\t|\t%s\t|\t\t|\t0\t|\t1\t|\t1\t|\t0\t|\t0\t|\t0\t|\t0\t|\t0\t|\t\t|\n" % (t, p, r) for t, p, r in case["nodes"])
    m = "".join(name_line(r) + "\n" for r in case["names"])
    g = "".join("%d\t|\t%d\t|\n" % (o, w) for o, w in case["merged"])
    return n, m, g


def loader_cases(rng):
    """(label, case, expectation): 'same' = the irregular text describes the same taxonomy, every answer must be the usual one;
    'loud' = the dump cannot be read: the loader must fail (error, panic), never answer; 'same-or-loud' = text the NCBI layout
    allows (it has no quoting; names of any length) or a row cut short: either every row is taken into account or the load fails -
    never a taxonomy silently cut at that line"""
    base = json.loads(json.dumps(CORPUS[0]))
    base["seqs"] = base["seqs"][:3]
    n, m, g = dump_text(base)
    nl_ = n.splitlines(True)
    out = []

    def mk(label, nn, mm, gg, exp, **kw):
        c = json.loads(json.dumps(base))
        c["raw"] = [nn, mm, gg]
        c["kind"] = "loader:" + label
        c.update(kw)
        out.append((label, c, exp))
    mk("plain", n, m, g, "same")
    mk("comment lines", "# nodes\n" + n + "# end\n", m, "# merged\n" + g, "same")
    mk("crlf", n.replace("\n", "\r\n"), m.replace("\n", "\r\n"), g.replace("\n", "\r\n"), "same")
    mk("blank lines in nodes and merged", nl_[0] + "\n" + "".join(nl_[1:]) + "\n", m, "\n" + g + "\n\n", "same")
    mk("no final newline", n.rstrip("\n"), m.rstrip("\n"), g.rstrip("\n"), "same")
    mk("blanks for tabs", n.replace("\t", " "), m, g.replace("\t", "  "), "same")
    mk("no blank at all", n.replace("\t", ""), m, g.replace("\t", ""), "same")
    mk("rows in reverse order", "".join(reversed(nl_)), m, g, "same")
    mk("text in the other columns", n.replace("\t|\t\t|\t0", "\t|\tAB\t|\t9").replace("\t|\t\t|\n", "\t|\tcode compliant; specified\t|\n"), m, g, "same")
    mk("empty merged", n, m, "", "same", merged=[])
    for fn in ("nodes.dmp", "names.dmp", "merged.dmp"):
        mk("missing " + fn, n, m, g, "loud", missing=fn)
    row = "%s\t|\t%s\t|\tspecies\t|\t\t|\t0\t|\t1\t|\t1\t|\t0\t|\t0\t|\t0\t|\t0\t|\t0\t|\t\t|\n"
    mk("taxid not a number in nodes", n + row % ("x12", "1"), m, g, "loud")
    mk("parent not a number in nodes", row % ("12", "one") + n, m, g, "loud")
    mk("taxid out of range in nodes", n + row % ("99999999999999999999", "1"), m, g, "loud")
    mk("taxid not a number in names", n, m + "abc\t|\tname\t|\t\t|\tscientific name\t|\n", g, "loud")
    mk("three fields in names", n, "1\t|\troot\t|\tscientific name\n" + m, g, "loud")
    mk("blank line in names", n, m + "\n", g, "loud")
    mk("old taxid not a number in merged", n, m, g + "old\t|\t7\t|\n", "loud")
    mk("new taxid not a number in merged", n, m, "77\t|\tnew\t|\n" + g, "loud")
    # (before the round-3 fixes the csv reader of nodes / merged stopped silently at the first line it could not parse, and the names
    # were silently dropped from the first line longer than the 4096-byte read buffer on)
    mk("quote in a nodes column", nl_[0] + nl_[1].replace("\t|\t\t|\n", "\t|\tsay \"hi\"\t|\n") + "".join(nl_[2:]), m, g, "same-or-loud")
    mk("row with fewer columns in nodes", nl_[0] + "77\t|\t1\t|\tspecies\t|\n" + "".join(nl_[1:]), m, g, "same-or-loud", nodes=base["nodes"][:1] + [[77, 1, "species"]] + base["nodes"][1:], n=9)
    gl = g.splitlines(True)
    mk("quote in merged", n, m, gl[0] + "96\t|\t\"7\t|\n" + "".join(gl[1:]), "same-or-loud", merged=base["merged"][:1] + base["merged"][1:])
    mk("row with more columns in merged", n, m, gl[0] + "96\t|\t7\t|\tx\t|\n" + "".join(gl[1:]), "same-or-loud", merged=base["merged"][:1] + [[96, 7]] + base["merged"][1:])
    mk("names line longer than 4096 bytes", n, "1\t|\t" + "x" * 5000 + "\t|\t\t|\tsynonym\t|\n" + m, g, "same", names=[[1, "x" * 5000, "synonym"]] + base["names"])
    fixed = len("1\t|\t" + "\t|\t\t|\tsynonym\t|")
    for total in (4095, 4096, 4097, 8192, 8193, 12288 + rng.randrange(5000)):
        nm = "y" * (total - fixed)
        mk("names line of %d bytes" % total, n, m + "1\t|\t" + nm + "\t|\t\t|\tsynonym\t|\n" + "2\t|\tafter the long line\t|\t\t|\tsynonym\t|\n", g, "same",
           names=base["names"] + [[1, nm, "synonym"], [2, "after the long line", "synonym"]], namesq=base["namesq"] + [[1, nm], [2, "after the long line"], [1, nm[:-1]]])
    one = "1\t|\t" + "w" * (4096 - len("1\t|\t" + "\t|\t\t|\tscientific name\t|")) + "\t|\t\t|\tscientific name\t|"
    mk("names.dmp = one line of exactly 4096 bytes without newline", n, one, g, "same", names=[[1, "w" * (4096 - len("1\t|\t" + "\t|\t\t|\tscientific name\t|")), "scientific name"]],
       namesq=[[1, "w" * 10], [5, "taxon5"]], seqs=[])
    mk("long names line without final newline", n, m + "8\t|\t" + "z" * 9000 + "\t|\t\t|\tsynonym\t|", g, "same",
       names=base["names"] + [[8, "z" * 9000, "synonym"]], namesq=base["namesq"] + [[8, "z" * 9000]])
    return out


def run_loader(ctx, broken):
    lc = loader_cases(ctx.rng)
    cases = [c for _, c, _ in lc]
    obs = ctx.vh_robust("c14", cases, timeout=120, one_timeout=20)
    verdicts = {}
    same = []
    for (label, c, exp), o in zip(lc, obs):
        k = o.get("kind")
        if exp == "same":
            bad = [("load", 0, o.get("err") or k, "ok")] if k != "ok" else compare(c, o, expected(c))
            verdicts[label] = "same answers" if not bad else "DIFFERENT"
            if bad:
                what, j, got, want = bad[0]
                ctx.violation("loader_%s" % label.replace(" ", "_"), dict(property="C14", kind="direct-oracle", what="dump text: %s: %s" % (label, what), implementation=got, expected=want,
                                                                         n_disagreements=len(bad), case=c, expect=exp))
            else:
                same.append((c, o))
        elif exp == "loud":
            verdicts[label] = k
            if k == "ok":
                ctx.violation("loader_%s" % label.replace(" ", "_"), dict(property="C14", kind="direct-oracle", what="dump text: %s" % label,
                                                                         implementation=dict(kind=k, len=o.get("len"), nalias=o.get("nalias")), expected="an error (the dump cannot be read)", case=c, expect=exp))
        else:
            bad = compare(c, o, expected(c)) if k == "ok" else []
            verdicts[label] = k if k != "ok" else ("same answers" if not bad else "SILENTLY CUT (%s taxa, %s aliases loaded)" % (o.get("len"), o.get("nalias")))
            if bad:
                key = "loader-stops-silently:" + ("names" if "names" in label else "csv")
                if ctx.kf_match(key):
                    ctx.known(key, "dump text: %s: the loader stops reading at that line without any error" % label)
                else:
                    what, j, got, want = bad[0]
                    ctx.violation("loader_%s" % label.replace(" ", "_"), dict(property="C14", kind="direct-oracle", what="dump text: %s: the rows after that line are silently ignored (%s)" % (label, what),
                                                                             implementation=got, expected=want, loaded=dict(taxa=o.get("len"), aliases=o.get("nalias")), n_disagreements=len(bad), case=c, expect=exp))
            elif k == "ok":
                same.append((c, o))
    ctx.cov["loader_text_cases"] = verdicts
    # the irregular texts through the model as well (same rows => same term, the observations are the ones of the irregular files);
    # the very long names are judged by the oracle only (a 16 KB literal per case costs seconds of parsing for nothing)
    same = [(c, o) for c, o in same if all(len(r[1]) < 300 for r in c["names"])]
    if same:
        STRTAB.clear(); FTAB.clear(); SEQTAB.clear()
        terms = [case_term(c, o) for c, o in same]
        bad, err = ctx.correspond("loader", IMPORTS + "\n" + strtab_defs(), terms, shard=len(terms))
        if bad is None:
            broken.append(dict(kind="correspondence", detail=err))
        elif bad and not ctx.violations:
            broken.append(dict(kind="correspondence", name="corr:C14/loader-text", first_diverging_case=same[bad[0]][0], n_diverging=len(bad)))
    return len(cases)


def queries(c):
    return sum(len(c.get(k) or []) for k in ("pairs", "paths", "ranks", "sets", "resolve", "namesq", "namesm", "forms", "seqs")) + \
        sum(len(s.get("thr") or []) * (s.get("reps") or 1) for s in c["seqs"])


def run(ctx, broken):
    cases, nex = gen_cases(ctx, ctx.quick)
    obs, mism, failing = evaluate(ctx, cases, broken, "main")
    mism3 = evaluate_ext(ctx, [(c, o, None) for c, o in zip(cases, obs)], broken, "main")
    ctx.cov["glue_model_mismatches"] = len(mism3)
    if mism3 and not ctx.violations:
        broken.append(dict(kind="correspondence", name="corr:C14/glue", first_diverging_case=cases[mism3[0]], implementation=obs[mism3[0]], n_diverging=len(mism3)))
    run_cycle(ctx)
    run_hang(ctx)
    nload = run_loader(ctx, broken)
    run_cli(ctx, broken)
    ctx.cov["evaluations"] = sum(queries(c) for c in cases)
    ctx.cov["taxonomies"] = len(cases)
    ctx.cov["exhaustive"] = True
    ctx.cov["exhaustive_scope"] = "all %d rooted trees with at most %d nodes x all pairs of (nodes + aliases + unknown ids) x all ranks" % (nex, 5 if ctx.quick else 6)
    nt = set()
    for c in cases:
        T = Tax(c)
        for a, b in c["pairs"]:
            x, y = T.resolve(a), T.resolve(b)
            if x is not None and y is not None and x != y:
                nt.add((json.dumps(sorted(c["nodes"])), a, b))
    ctx.cov["distinct_nontrivial"] = len(nt)
    ctx.cov["rule"] = "non-trivial = a (taxonomy, pair) query whose two taxids resolve to two different taxa; distinct = distinct (node rows, pair)"
    dist = {}
    for c in cases:
        k = c["kind"] if c["kind"].startswith("all") or c["kind"] == "corpus" else "%s/n<=%d" % (c["kind"], 10 ** len(str(c["n"])))
        dist[k] = dist.get(k, 0) + 1
    hk = {}
    for c in cases:
        for op in c.get("hist") or []:
            k = "hist:" + op["op"] + (":persistent" if op.get("on") else "")
            hk[k] = hk.get(k, 0) + 1
    dist["histories"] = sum(1 for c in cases if c.get("hist"))
    dist["second_pass"] = sum(1 for c in cases if c.get("again"))
    dist["ignore_or_restrict_3_clades"] = sum(1 for c in cases for q in c["seqs"] if len(q.get("ignore") or []) >= 3 or len(q.get("restrict") or []) >= 3)
    dist["names_rows_for_non_nodes"] = sum(1 for c in cases if any(r[0] not in {x[0] for x in c["nodes"]} for r in c["names"]))
    dist["merged_taxid_outside_tree"] = sum(1 for c in cases for q in c["seqs"] if q.get("merged") and any(int(k) in (c.get("garbage") or []) for k in q["merged"]))
    dist["dump_text_cases"] = nload
    dist.update(hk)
    ctx.cov["distribution"] = dist
    ctx.cov["max_nodes"] = max(c["n"] for c in cases)
    ctx.samples = [dict(nodes=c["nodes"][:8], merged=c["merged"], pairs=list(zip(c["pairs"][:5], (o.get("pairs") or [])[:5]))) for c, o in list(zip(cases, obs))[:2] + list(zip(cases, obs))[-40:-38]]
    ctx.cov["model_vs_impl_mismatches"] = len(mism)
    if mism and not ctx.violations:
        more, _ = gen_cases(ctx, False)
        evaluate(ctx, more[: 3000], [], "search", coq=False)
        if not ctx.violations:
            i = mism[0]
            broken.append(dict(kind="correspondence", name="corr:C14/queries", first_diverging_case=cases[i], implementation=obs[i], n_diverging=len(mism)))
    elif mism:
        ctx.cov["note"] = "model and implementation diverge on %d taxonomies (violations reported by the direct oracle)" % len(mism)


# ------------------------------------------------------------------ CLI level (oracle; the records and option values are part of the replay)
def run_cli(ctx, broken):
    bind, err = ctx.build_cmds(["obigrep", "obiannotate"])
    if bind is None:
        broken.append(dict(kind="cmd-build", detail=err))
        return
    rng = ctx.rng
    ntax = 3 if ctx.quick else 40
    nrun = 0
    kinds = {}
    xcli = []
    for k in range(ntax):
        kind = rng.choice(["rrt", "deep", "caterpillar"])
        case = mk_case(rng, shape(rng, rng.randrange(6, 60), kind), kind, 10, with_seqs=False, plain=True)
        T = Tax(case)
        ids = [r[0] for r in case["nodes"]]
        olds = list(T.alias)
        recs = []
        for j in range(40):
            tx = rng.choice(ids + olds + [987654321]) if rng.random() < 0.95 else None
            keys = rng.sample(ids, min(len(ids), rng.randrange(1, 4)))
            r = dict(id="s%d" % j, taxid=tx, merged={str(t): rng.randrange(1, 5) for t in keys})
            q = rng.random()
            if q < 0.7:                                              # round 3: the attribute read by `-r <attribute name>`
                c = rng.choice(ids + olds + [987654321])
                r["clade"] = rng.choice(["%d", "TX:%d", "taxon [TX:%d]", "%d", "NA", "TX:"]).replace("%d", str(c))
            recs.append(r)
        # round 3: ignored clades that are nested (inner below outer) and disjoint (a taxon outside the outer clade)
        deep = max(ids, key=lambda t: len(T.anc(t)))
        an = T.anc(deep)
        outer = an[min(len(an) - 1, max(1, len(an) // 2))]
        outside = [t for t in ids if outer not in T.anc(t) and t not in an] or [deep]
        opts = dict(clade=rng.choice(ids + olds), clade2=rng.choice(ids), rank=rng.choice(sorted(T.ranklist)),
                    ignore3=[an[0], outer, rng.choice(outside)], ranks2=rng.sample(sorted(T.ranklist), min(2, len(T.ranklist))),
                    lcaerr=rng.choice([0.25, 0.4, 0.5]), lcaslot=rng.choice(["x", "taxid", "mytaxid", "lca"]), order=rng.randrange(1000))
        xg = []
        nrun += cli_check(ctx, bind, case, recs, opts, "cli_%d" % k, kinds, xg)
        xcli.append((dict(case, hist=None), dict(kind="ok"), grep_queries(recs, xg)))
    ctx.cov["cli_runs"] = nrun
    ctx.cov["cli_kinds"] = kinds
    # the selections the commands made, against the model of the composition (Model3.grep_sel)
    mism = evaluate_ext(ctx, xcli, broken, "cli")
    ctx.cov["cli_model_mismatches"] = len(mism)
    if mism and not ctx.violations:
        broken.append(dict(kind="correspondence", name="corr:C14/obigrep-selection", first_diverging_case=xcli[mism[0]][0], n_diverging=len(mism)))


def grep_queries(recs, xg):
    def f(rcode):
        sdefs = []
        for r in recs:
            a = {}
            if r["taxid"] is not None:
                a["taxid"] = r["taxid"]
            a["merged_taxid"] = r["merged"]
            if r.get("clade") is not None:
                a["clade"] = r["clade"]
            sdefs.append(seq_term3(a))
        res = []
        for (rq, rs, ig, inv), verdicts in xg:
            g = "(mkgopts %s [%s] %s %s)" % (nl([rcode(k) for k in rq]), "; ".join("RId %d" % int(x) if re.fullmatch(r"\d+", x) else "RSlot" for x in rs), nl(ig), "true" if inv else "false")
            res.append("XGrep %s [%s]" % (g, "; ".join("(%s,(%d)%%Z)" % (sd, v) for sd, v in zip(sdefs, verdicts))))
        return res
    return f


def fasta_of(recs):
    out = []
    for r in recs:
        ann = dict(merged_taxid=r["merged"])
        if r["taxid"] is not None:
            ann["taxid"] = r["taxid"]
        if r.get("clade") is not None:
            ann["clade"] = r["clade"]
        out.append(">%s %s\nacgtacgt\n" % (r["id"], json.dumps(ann)))
    return out


def parse_out(out):
    """records of a fasta output: [(id, annotations | None)]"""
    res = []
    for l in out.splitlines():
        if l.startswith(">"):
            sid = l[1:].split()[0]
            try:
                res.append((sid, json.loads(l[l.index("{"):]) if "{" in l else {}))
            except Exception:
                res.append((sid, None))
    return res


def gopts_of(args):
    """the taxonomy selection options of an obigrep command line: (require, restrict, ignore, invert)"""
    rq, rs, ig, inv = [], [], [], False
    i = 0
    while i < len(args):
        a = args[i]
        if a in ("-r", "--restrict-to-taxon"):
            rs.append(args[i + 1]); i += 2
        elif a in ("-i", "--ignore-taxon"):
            ig.append(int(args[i + 1])); i += 2
        elif a == "--require-rank":
            rq.append(args[i + 1]); i += 2
        elif a in ("-v", "--inverse-match"):
            inv = True; i += 1
        elif a in ("--max-cpu", "--batch-size", "--save-discarded", "-t"):
            i += 2
        else:
            i += 1
    return rq, rs, ig, inv


def cli_check(ctx, bind, case, recs, opts, name, kinds=None, xg=None):
    """obigrep -r/-i/--require-rank (several values, attribute form, -v, --save-discarded, stdin, several files, one cpu, --no-order,
    failures) and obiannotate --with-taxon-at-rank/--add-lca-in/--lca-error/--taxonomic-path/--taxonomic-rank/--scientific-name
    (alone and restricted by -r) on a synthetic dump, against the oracle"""
    T = Tax(case)
    kinds = kinds if kinds is not None else {}
    clade, clade2, rank = opts["clade"], opts["clade2"], opts["rank"]
    nrun = 0
    obigrep, obiannotate = os.path.join(bind, "obigrep"), os.path.join(bind, "obiannotate")
    with tempfile.TemporaryDirectory(prefix="c14cli") as d:
        write_dump(d, case)
        fa = os.path.join(d, "in.fasta")
        lines = fasta_of(recs)
        with open(fa, "w") as f:
            f.write("".join(lines))
        half = len(lines) // 2
        fa1, fa2 = os.path.join(d, "part1.fasta"), os.path.join(d, "part2.fasta")
        open(fa1, "w").write("".join(lines[:half]))
        open(fa2, "w").write("".join(lines[half:]))

        def known(r):
            return T.resolve(r["taxid"] if r["taxid"] is not None else 1)

        def inc(r, c):
            return known(r) is not None and T.resolve(c) in T.anc(known(r))

        def inslot(r):
            if r.get("clade") is None:
                return False
            c = slot_id(dict(slotstr=r["clade"]))
            return c is not None and T.resolve(c) is not None and inc(r, c)

        def hasrank(r, k):
            return known(r) is not None and T.at_rank(known(r), k) is not None

        def violation(tag, **kw):
            ctx.violation("%s_%s" % (name, tag), dict(property="C14", kind="cli-oracle", case=case, records=recs, opts=opts, **kw))
        ig3 = opts.get("ignore3") or [clade2, clade]
        rk2 = opts.get("ranks2") or [rank]
        discarded = os.path.join(d, "discarded.fasta")
        # (label, arguments before the input, input mode, predicate, unordered)
        runs = [("r", ["-r", str(clade)], "file", lambda r: inc(r, clade), False),
                ("r2", ["-r", str(clade), "-r", str(clade2)], "file", lambda r: inc(r, clade) or inc(r, clade2), False),
                ("i", ["-i", str(clade2)], "file", lambda r: not inc(r, clade2), False),
                ("i2", ["-i", str(clade2), "-i", str(clade)], "file", lambda r: not (inc(r, clade) or inc(r, clade2)), False),
                ("i3", sum((["-i", str(c)] for c in ig3), []), "file", lambda r: not any(inc(r, c) for c in ig3), False),
                ("i3rev", sum((["--ignore-taxon", str(c)] for c in reversed(ig3)), []), "stdin", lambda r: not any(inc(r, c) for c in ig3), False),
                ("rank", ["--require-rank", rank], "file", lambda r: hasrank(r, rank), False),
                ("rank2", sum((["--require-rank", k] for k in rk2), []), "two", lambda r: all(hasrank(r, k) for k in rk2), False),
                ("r+rank", ["-r", str(clade), "--require-rank", rank], "file", lambda r: inc(r, clade) and hasrank(r, rank), False),
                ("r+i+rank", ["-i", str(ig3[0]), "--restrict-to-taxon", str(ig3[1]), "--require-rank", rk2[-1]], "file",
                 lambda r: inc(r, ig3[1]) and not inc(r, ig3[0]) and hasrank(r, rk2[-1]), False),
                ("rslot", ["-r", "clade"], "file", inslot, False),
                ("rslot+r", ["-r", str(clade2), "-r", "clade"], "stdin", lambda r: inslot(r) or inc(r, clade2), False),
                ("v", ["-v", "-r", str(clade), "-i", str(clade2)], "file", lambda r: not (inc(r, clade) and not inc(r, clade2)), False),
                ("onecpu", ["--force-one-cpu", "-i", str(clade)], "two", lambda r: not inc(r, clade), False),
                ("maxcpu1", ["--max-cpu", "1", "--batch-size", "3", "-r", str(clade2)], "file", lambda r: inc(r, clade2), False),
                ("noorder", ["--no-order", "--batch-size", "2", "-r", str(clade2)], "two", lambda r: inc(r, clade2), True),
                ("discard", ["--save-discarded", discarded, "-r", str(clade)], "file", lambda r: inc(r, clade), False)]
        for label, args, mode, pred, unordered in runs:
            argv = [obigrep, "-t", d] + args
            if mode == "file":
                rc, out, err2, dt = sh_cmd(argv + [fa])
            elif mode == "two":
                rc, out, err2, dt = sh_cmd(argv + [fa1, fa2])
            else:
                rc, out, err2, dt = sh_cmd(argv, stdin=open(fa, "rb").read())
            got = [sid for sid, _ in parse_out(out)]
            exp = [r["id"] for r in recs if pred(r)]
            nrun += 1
            kinds["obigrep " + label] = kinds.get("obigrep " + label, 0) + 1
            if xg is not None:
                xg.append((gopts_of(args), [(-3 if rc != 0 else int(r["id"] in got)) for r in recs]))
            if rc != 0 or (sorted(got) != sorted(exp) if unordered else got != exp):
                violation("obigrep_%s" % label, cmd="obigrep -t DIR " + " ".join(args) + " (%s)" % mode, rc=rc, selected=got, expected=exp, stderr=err2[-500:])
            if label == "discard":
                gotd = [sid for sid, _ in parse_out(open(discarded).read())] if os.path.exists(discarded) else None
                expd = [r["id"] for r in recs if not pred(r)]
                if gotd is None or sorted(gotd) != sorted(expd):
                    violation("obigrep_discarded", cmd="obigrep -t DIR " + " ".join(args), discarded=gotd, expected=expd, stderr=err2[-500:])
        # failures must be loud: no taxonomy given, unreadable dump, unknown clade, unknown rank
        fails = [("notax", [obigrep, "-r", str(clade), fa]), ("baddir", [obigrep, "-t", os.path.join(d, "nowhere"), "-r", str(clade), fa]),
                 ("badclade", [obigrep, "-t", d, "-r", str(clade), "-r", "987654321", fa]), ("badignore", [obigrep, "-t", d, "-i", "987654321", fa]),
                 ("badrank", [obigrep, "-t", d, "--require-rank", rank, "--require-rank", "no such rank", fa]),
                 ("annot_badrank", [obiannotate, "-t", d, "--with-taxon-at-rank", "no such rank", fa])]
        for label, argv in fails[:(6 if opts.get("order", 0) % 2 == 0 else 3)]:
            rc, out, err2, dt = sh_cmd(argv)
            nrun += 1
            kinds["fail " + label] = kinds.get("fail " + label, 0) + 1
            if xg is not None and label in ("badclade", "badignore", "badrank"):
                got = [sid for sid, _ in parse_out(out)]
                xg.append((gopts_of(argv[1:-1]), [(-3 if rc != 0 else int(r["id"] in got)) for r in recs]))
            # (obiannotate --with-taxon-at-rank does not validate the rank: every record gets -1 / NA; accepted as is)
            if label == "annot_badrank":
                got = parse_out(out)
                if rc != 0 or any(a is None or a.get("no such rank_taxid", -1) != -1 for _, a in got):
                    violation("fail_" + label, cmd=" ".join(argv[1:]), rc=rc, what="a rank nobody carries must give -1 or no annotation", stderr=err2[-300:])
            elif rc == 0:
                violation("fail_" + label, cmd=" ".join(argv[1:]).replace(d, "DIR"), rc=rc, what="exit 0 although the selection cannot be evaluated", n_records_printed=len(parse_out(out)), stderr=err2[-300:])

        # obiannotate: taxon at rank and LCA of the merged taxids (zero error)
        def lca_of(r):
            l = None
            for t in r["merged"]:
                l = int(t) if l is None else T.lca(l, int(t))
            return l

        def check_annot(tag, args, expect, inputs=None, stdin=None):
            nonlocal nrun
            rc, out, err2, dt = sh_cmd([obiannotate, "-t", d] + args + (inputs if inputs is not None else [fa]), stdin=stdin)
            nrun += 1
            kinds["obiannotate " + tag] = kinds.get("obiannotate " + tag, 0) + 1
            got = parse_out(out)
            bad = None
            if rc != 0:
                bad = "exit %d" % rc
            elif [sid for sid, _ in got] != [r["id"] for r in recs]:
                bad = "records %s instead of all the records in input order" % [sid for sid, _ in got][:50]
            else:
                for r, (sid, a) in zip(recs, got):
                    if a is None:
                        bad = bad or "record %s: unreadable annotations" % sid
                        continue
                    e = expect(r, a)
                    if e:
                        bad = bad or "%s: %s" % (sid, e)
            if bad:
                violation("obiannotate_" + tag, cmd="obiannotate -t DIR " + " ".join(args), what=bad, stderr=err2[-500:])

        def base_ann(r):
            a = dict(merged_taxid=r["merged"])
            if r["taxid"] is not None:
                a["taxid"] = r["taxid"]
            if r.get("clade") is not None:
                a["clade"] = r["clade"]
            return a

        def exp_rank_lca(r, a):
            x = known(r)
            want = None if x is None else (T.at_rank(x, rank) if T.at_rank(x, rank) is not None else -1)
            if a.get(rank + "_taxid") != want:
                return "%s_taxid=%r expected %r" % (rank, a.get(rank + "_taxid"), want)
            l = lca_of(r)
            if a.get("x_taxid") != l or a.get("x_error") not in (0, 0.0):
                return "x_taxid=%r x_error=%r expected %r, 0" % (a.get("x_taxid"), a.get("x_error"), l)
        check_annot("rank+lca", ["--with-taxon-at-rank", rank, "--add-lca-in", "x"], exp_rank_lca)

        def exact(upd_of):
            """the output annotations are exactly the input ones + the expected new ones"""
            def f(r, a):
                want = base_ann(r)
                u = upd_of(r)
                if u is None:
                    return None
                want.update(u)
                a = dict(a)
                for kk in SCI_KEYS:                                   # either spelling of the scientific-name attribute
                    if kk in a and SCI_KEYS[0] in want and kk != SCI_KEYS[0]:
                        a[SCI_KEYS[0]] = a.pop(kk)
                if a != want:
                    diff = {kk: (a.get(kk), want.get(kk)) for kk in set(a) | set(want) if a.get(kk) != want.get(kk)}
                    return "annotations differ (got, expected): %r" % diff
            return f
        # several ranks at once, on two files
        check_annot("ranks2", sum((["--with-taxon-at-rank", k] for k in rk2), []), exact(lambda r: rank_updates(T, r["taxid"] if r["taxid"] is not None else 1, rk2)), inputs=[fa1, fa2])
        # annotation restricted to a clade: the other records pass through untouched
        check_annot("r+rank", ["-r", str(clade), "--with-taxon-at-rank", rank],
                    exact(lambda r: rank_updates(T, r["taxid"] if r["taxid"] is not None else 1, [rank]) if inc(r, clade) else {}))
        # path / rank / scientific name of the taxon: only records whose taxid is known may be given (an unknown one is fatal)
        kn = [r for r in recs if known(r) is not None]
        fak = os.path.join(d, "known.fasta")
        open(fak, "w").write("".join(fasta_of(kn)))
        allrecs = recs
        recs = kn

        def exp_names(r):
            x = known(r)
            return dict(taxonomic_path=path_string(T, x), taxonomic_rank=T.nodes[x][1], scientific_name=T.sci.get(x, ""))
        check_annot("path+rank+name", ["--taxonomic-path", "--taxonomic-rank", "--scientific-name"], exact(exp_names), inputs=[fak])
        check_annot("path.stdin.onecpu", ["--force-one-cpu", "--taxonomic-path"], exact(lambda r: dict(taxonomic_path=exp_names(r)["taxonomic_path"])), inputs=[],
                    stdin=open(fak, "rb").read())
        # weighted LCA with a tolerated error, in a slot whose name may contain "taxid"
        lcaerr, slot = opts.get("lcaerr", 0.4), opts.get("lcaslot", "x")
        thr = 1 - lcaerr                                               # CLILCAThreshold
        kt, kn_, ke = lca_keys(slot)

        def exp_wlca(r, a):
            dist = {}
            for t, w in r["merged"].items():
                dist[int(t)] = dist.get(int(t), 0) + w
            for t, b in descent(T, dist, thr):
                rans = struct.unpack(">d", struct.pack(">Q", b))[0]
                want = base_ann(r)
                want.update({kt: t, kn_: T.sci.get(t, ""), ke: math.floor((1 - rans) * 1000 + 0.5) / 1000})
                if {kk: v for kk, v in a.items() if kk != ke} == {kk: v for kk, v in want.items() if kk != ke} and \
                   isinstance(a.get(ke), (int, float)) and abs(a[ke] - want[ke]) < 1e-12:
                    return None
            return "annotations %r are none of the outcomes the tree allows at threshold %r: %r" % (a, thr, sorted(descent(T, dist, thr)))
        check_annot("wlca", ["--add-lca-in", slot, "--lca-error", repr(lcaerr)], exp_wlca, inputs=[fak])
        recs = allrecs
        if len(kn) < len(recs) and opts.get("order", 0) % 2 == 1:
            rc, out, err2, dt = sh_cmd([obiannotate, "-t", d, "--taxonomic-path", fa])
            nrun += 1
            kinds["fail annot_unknown_taxid"] = kinds.get("fail annot_unknown_taxid", 0) + 1
            if rc == 0:
                violation("fail_annot_unknown", cmd="obiannotate -t DIR --taxonomic-path", rc=rc, what="exit 0 although a record carries a taxid the taxonomy does not know", stderr=err2[-300:])
    return nrun


def sh_cmd(argv, timeout=60, stdin=None):
    t0 = time.time()
    try:
        p = subprocess.run(argv, capture_output=True, timeout=timeout, input=stdin) if stdin is not None else \
            subprocess.run(argv, capture_output=True, timeout=timeout, stdin=subprocess.DEVNULL)
        return p.returncode, p.stdout.decode("utf8", "replace"), p.stderr.decode("utf8", "replace"), time.time() - t0
    except subprocess.TimeoutExpired:
        return 124, "", "TIMEOUT", time.time() - t0


def write_dump(d, case):
    with open(os.path.join(d, "nodes.dmp"), "w") as f:
        for t, p, r in case["nodes"]:
            f.write("%d\t|\t%d\t|\t%s\t|\t\t|\t0\t|\t1\t|\t1\t|\t0\t|\t0\t|\t0\t|\t0\t|\t0\t|\t\t|\n" % (t, p, r))
    with open(os.path.join(d, "names.dmp"), "w") as f:
        for r in case["names"]:
            f.write("%d\t|\t%s\t|\t%s\t|\t%s\t|\n" % (r[0], r[1], r[3] if len(r) > 3 else "", r[2]))
    with open(os.path.join(d, "merged.dmp"), "w") as f:
        for o, n in case["merged"]:
            f.write("%d\t|\t%d\t|\n" % (o, n))


def replay(ctx, rp):
    c = rp.get("case")
    if rp.get("kind") == "termination":
        run_cycle(ctx)
        print("replay cycle:", ctx.cov.get("cycle_observation"))
        return
    if rp.get("kind") == "cli-oracle":
        bind, err = ctx.build_cmds(["obigrep", "obiannotate"])
        n0 = len(ctx.violations)
        cli_check(ctx, bind, c, rp["records"], rp["opts"], "replay_cli")
        print("replay CLI:", "still failing" if len(ctx.violations) > n0 else "passes now")
        return
    if rp.get("expect"):
        o = ctx.vh_robust("c14", [c], timeout=60, one_timeout=20)[0]
        k = o.get("kind")
        bad = compare(c, o, expected(c)) if k == "ok" else []
        if rp["expect"] == "loud":
            print("replay dump text:", "still failing (loaded without any error)" if k == "ok" else "passes now (%s)" % k)
        elif rp["expect"] == "same":
            print("replay dump text:", "passes now" if k == "ok" and not bad else "still failing (%s, %s)" % (k, bad[:2]))
        else:
            print("replay dump text:", "passes now (%s)" % k if not bad else "still failing: silently cut, %s taxa loaded, %s" % (o.get("len"), bad[:2]))
        return
    obs, mism, failing = evaluate(ctx, [c], [], "replay")
    bad = compare(c, obs[0], expected(c)) if obs[0].get("kind") != "crash" else [("crash",)]
    print("replay:", "oracle disagreements:", bad[:5], "model-mismatch" if mism else "model-agrees")
