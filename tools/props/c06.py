"""C06 — dereplication conserves counts and merges exactly the identical records (obichunk.IUniqueSequence, obiuniq, obidemerge)."""
import json, os, subprocess, tempfile, itertools

PROPS = ["C06/Props.v"]
META = dict(
    text="Rocq theorems (unbounded, structural induction, no axiom) over an executable model of obichunk.IUniqueSequence (partition by an "
         "ARBITRARY hash, grouping by sequence then by each category with the singleton short-cut, BioSequence.Merge as a left fold) and of "
         "obidemerge: the records merged together are exactly the records of one key; one output record per distinct key; count = sum; every "
         "merged_<k> map = per-value summed weight (already merged inputs contribute their map; totals add up to the count); total count "
         "conserved (--no-singleton drops exactly the whole classes of total 1); an annotation survives iff unanimous; the projected output set is "
         "invariant under every input permutation, hash function and chunk count; obiuniq -m k | obidemerge -d k | obiuniq -m k = obiuniq -m k. "
         "On every run the REAL IUniqueSequence is drained (memory and disk, 1/2/7/100 chunks, 1..8 workers, -c/-m/NA/--no-singleton, with and "
         "without qualities, already merged inputs in the three Go map types) on random multisets and 5-6 arrival orders of each, judged by a "
         "direct Python accounting oracle and compared with the model evaluated by vm_compute; the real demerge worker is compared with the "
         "model too; the built obiuniq / obidemerge binaries are checked against the oracle and for the demerge round trip.",
    note="Trusted: Coq kernel + vm_compute, harness, generators/renderers (strings are interned to N codes by the renderer). "
         "An attribute value is modelled by its printed form (fmt.Sprint): records mixing Go types for one printed value are not modelled "
         "(known finding mixed-type-category-dropped, oracle only). Weighted statistics (-m k:w), qualities and the on-disk round trip of "
         "chunks are exercised by harness + oracle only (the latter is C02's statement). The hash is a Section variable. Go channels / "
         "scheduler are not modelled: a schedule only changes the arrival order, over which the theorems quantify; sort.Sort's "
         "instability likewise. Record ids (that of the first member) are not part of the claim. C06_demerge_inverse is stated for -c-less "
         "dereplication on (sequence, merged map, count = total of the map), other annotations not claimed.")
TRUSTED = ["CRC32 is NOT trusted: the hash is a Section variable h : list N -> nat, theorems hold for every h and every chunk count",
           "classifier code tables + sort.Sort (unstable) + split are modelled as: classes in first-appearance order, members in arrival order; "
           "C06_order_hash_chunks_independent shows the projection does not depend on the order inside or between classes",
           "the range over the Go map statsOn is modelled as independent slots (a map over the list of requested keys)"]

IMPORTS = ("From Coq Require Import List NArith ZArith Bool. Import ListNotations.\n"
           "From OBI.C06 Require Import Model.\nOpen Scope N_scope.\n")

SEQ_POOL_LEN = [1, 2, 3, 4, 5, 8, 12]


# ----------------------------------------------------------------------------------------------- semantics (oracle)
def sprint(v):
    """fmt.Sprint of an attribute value (string / int / bool)"""
    if isinstance(v, bool):
        return "true" if v else "false"
    return str(v)


def render(v):
    """the harness' typed rendering (c06Render)"""
    if isinstance(v, bool):
        return "true" if v else "false"
    if isinstance(v, str):
        return json.dumps(v, ensure_ascii=False)
    return str(v)


def unrender(s):
    """printed form of a value rendered by the harness"""
    if s.startswith('"'):
        return json.loads(s)
    return s


def rcount(r):
    return r["count"] if r.get("count", 0) > 0 else 1


def val(r, k, na):
    a = r.get("attrs") or {}
    return sprint(a[k]) if k in a else na


def key_of(r, cats, na):
    return (r["seq"], tuple(val(r, c, na) for c in cats))


def contrib(r, desc, na):
    """what record r contributes to merged_<desc>: its own merged map if it has one, else {value: weight};
    desc = key or key:weight_attribute (weight = that integer attribute, 0 when absent; default weight = count)"""
    m = (r.get("merged") or {}).get(desc)
    if m is not None:
        return dict(m)
    k, _, wk = desc.partition(":")
    if wk:
        w = (r.get("attrs") or {}).get(wk, 0)
        w = w if isinstance(w, int) and not isinstance(w, bool) else 0
    else:
        w = rcount(r)
    return {val(r, k, na): w}


def expected(case):
    """Direct oracle: the accounting the property demands, as a sorted list of projections."""
    cats, stats, na = case["cats"], case["stats"], case["na"]
    classes = {}
    for r in case["recs"]:
        classes.setdefault(key_of(r, cats, na), []).append(r)
    out = []
    for key, members in classes.items():
        total = sum(rcount(r) for r in members)
        if case["nosingleton"] and total == 1:
            continue
        merged = {}
        for k in set(stats):
            m = {}
            for r in members:
                for v, w in contrib(r, k, na).items():
                    m[v] = m.get(v, 0) + w
            merged[k] = m
        first = members[0].get("attrs") or {}
        ann = {}
        for k, v in first.items():
            if k.startswith("merged_") or k == "count":
                continue
            if all(k in (r.get("attrs") or {}) and render((r.get("attrs") or {})[k]) == render(v) for r in members):
                ann[k] = render(v)
        out.append(proj(key[0], key[1], total, merged, ann))
    return sorted(out)


def mixed_type_cats(case):
    """category attributes that carry the same printed value under two different Go types in two records"""
    res = set()
    for c in case["cats"]:
        seen = {}
        for r in case["recs"]:
            a = r.get("attrs") or {}
            if c in a:
                seen.setdefault(sprint(a[c]), set()).add(type(a[c]).__name__)
        if any(len(t) > 1 for t in seen.values()):
            res.add(c)
    return res


def weighted(case):
    return any(":" in d for d in case["stats"])


def proj(seq, catvals, count, merged, ann):
    return (seq, tuple(catvals), count,
            tuple(sorted((k, tuple(sorted(m.items()))) for k, m in merged.items())),
            tuple(sorted(ann.items())))


def observed(case, o):
    """projection of the implementation's output records (sorted)"""
    cats, stats, na = case["cats"], case["stats"], case["na"]
    res = []
    for r in o["recs"]:
        ann = {k: v for k, v in (r.get("ann") or {}).items() if k != "definition" or v != '""'}
        cv = tuple(unrender(ann[c]) if c in ann else na for c in cats)
        merged = {k: (r.get("merged") or {}).get(k) for k in set(stats)}
        merged = {k: (m if m is not None else {"<absent>": -1}) for k, m in merged.items()}
        res.append(proj(r["seq"], cv, r["count"], merged, ann))
    return sorted(res)


# ----------------------------------------------------------------------------------------------- generators
KEYS = ["sample", "tag", "w", "x"]


def gen_multiset(rng, big=False):
    nseq = rng.choice([1, 1, 2, 3, 4, 6, 12] if not big else [8, 20, 40])
    seqs = set()
    while len(seqs) < nseq:
        L = rng.choice(SEQ_POOL_LEN)
        seqs.add("".join(rng.choice("acgt") for _ in range(L)))
    seqs = sorted(seqs)
    nrec = rng.choice([0, 1, 2, 3, 5, 8, 13, 21] if not big else [40, 80, 150])
    ktype = {k: rng.choice(["s", "s", "i", "b"]) for k in KEYS}
    pools = {}
    for k in KEYS:
        if ktype[k] == "s":
            pools[k] = rng.sample(["A", "B", "C", "NA", "a b", "x1", "é"], rng.choice([1, 2, 3]))
        elif ktype[k] == "i":
            pools[k] = rng.sample([0, 1, 2, 7, 100], rng.choice([1, 2, 3]))
        else:
            pools[k] = [True, False]
    pres = {k: rng.choice([0.0, 0.5, 0.8, 1.0]) for k in KEYS}
    mergedp = {k: rng.choice([0.0, 0.0, 0.3, 0.7]) for k in KEYS}
    recs = []
    qualp = rng.choice([0.0, 0.0, 0.0, 0.5, 1.0])
    wtp = rng.choice([0.0, 0.6, 1.0])
    for i in range(nrec):
        r = dict(id="r%d" % (i + 1), seq=rng.choice(seqs), attrs={}, merged={}, mk=rng.choice(["stats", "int", "iface"]))
        if rng.random() < qualp:
            r["qual"] = "".join(rng.choice("5?I") for _ in r["seq"])
        if rng.random() < wtp:
            r["attrs"]["wt"] = rng.choice([0, 1, 2, 9])
        c = rng.random()
        r["count"] = 0 if c < 0.35 else (1 if c < 0.55 else rng.choice([2, 3, 5, 10, 1000]))
        for k in KEYS:
            if rng.random() < pres[k]:
                r["attrs"][k] = rng.choice(pools[k])
            if rng.random() < mergedp[k]:
                # an already merged record: a map whose weights sum to the count (usually)
                n = rng.choice([1, 1, 2, 3])
                vs = rng.sample([sprint(v) for v in pools[k]] + ["NA", "Z"], min(n, len(pools[k]) + 2))
                tot = rcount(r)
                m = {}
                for j, v in enumerate(vs):
                    w = tot if j == len(vs) - 1 else rng.randrange(0, tot + 1)
                    if rng.random() < 0.1:
                        w += 1
                    tot = max(0, tot - w)
                    if w > 0:
                        m[v] = w
                if m:
                    r["merged"][k] = m
        recs.append(r)
    return recs


def gen_config(rng, disk=None):
    ncat = rng.choice([0, 0, 1, 1, 2, 3])
    cats = rng.sample(KEYS + ["nokey"], ncat)
    nst = rng.choice([0, 1, 1, 2])
    stats = rng.sample(KEYS + ["nokey"], nst)
    if stats and rng.random() < 0.12:
        stats[0] = stats[0] + ":wt"      # weighted statistics (oracle only, not modelled)
    return dict(cats=cats, stats=stats, na=rng.choice(["NA", "NA", "NA", "none", "A", ""]),
                nosingleton=rng.random() < 0.3)


def gen_sched(rng, disk=None):
    return dict(disk=(rng.random() < 0.35) if disk is None else disk, chunks=rng.choice([1, 2, 7, 100]),
                workers=rng.randrange(1, 9), batch=rng.choice([1, 2, 3, 5, 50]), dbatch=rng.choice([0, 0, 1, 2, 3]))


def R(id, seq, count=0, attrs=None, merged=None, mk="stats"):
    return dict(id=id, seq=seq, count=count, attrs=attrs or {}, merged=merged or {}, mk=mk)


def C(recs, cats=(), stats=(), na="NA", nosingleton=False, disk=False, chunks=2, workers=2, batch=2, dbatch=0, tag=None):
    return dict(recs=recs, cats=list(cats), stats=list(stats), na=na, nosingleton=nosingleton, disk=disk, chunks=chunks,
                workers=workers, batch=batch, dbatch=dbatch, tag=tag)


def corpus():
    cs = []
    a = [R("r1", "acgt", 0, dict(sample="A")), R("r2", "acgt", 3, dict(sample="B")), R("r3", "acgt", 1, dict(sample="A")),
         R("r4", "ttt", 0, dict(sample="A")), R("r5", "acgt", 2)]
    for disk in (False, True):
        cs.append(C(a, disk=disk, tag="plain"))
        cs.append(C(a, stats=["sample"], disk=disk, tag="merge"))
        cs.append(C(a, cats=["sample"], disk=disk, tag="cat"))
        cs.append(C(a, cats=["sample"], stats=["sample"], disk=disk, nosingleton=True, tag="cat+merge+nosingleton"))
        cs.append(C(a, cats=["sample"], na="A", disk=disk, tag="na-collides-with-a-value"))
    # already merged inputs, the three Go map types
    for mk in ("stats", "int", "iface"):
        b = [R("r1", "acgt", 5, dict(sample="A"), dict(sample={"A": 2, "B": 3}), mk), R("r2", "acgt", 0, dict(sample="B")),
             R("r3", "acgt", 4, {}, dict(sample={"B": 4}), mk), R("r4", "gg", 2, {}, dict(sample={"C": 2}), mk)]
        cs.append(C(b, stats=["sample"], tag="already-merged-" + mk))
        cs.append(C(list(reversed(b)), stats=["sample"], tag="already-merged-rev-" + mk))
        cs.append(C(b, stats=["sample"], disk=True, tag="already-merged-disk-" + mk))
    # singletons at every level
    s = [R("r1", "a", 1), R("r2", "c", 0), R("r3", "g", 2), R("r4", "t", 0), R("r5", "t", 0),
         R("r6", "aa", 1, dict(tag="x")), R("r7", "aa", 1, dict(tag="y"))]
    for ch in (1, 2, 7, 100):
        cs.append(C(s, nosingleton=True, chunks=ch, tag="nosingleton"))
        cs.append(C(s, cats=["tag"], nosingleton=True, chunks=ch, tag="nosingleton-cat"))
    mx = [R("r1", "acgt", 0, dict(sample=1)), R("r2", "acgt", 0, dict(sample="1")), R("r3", "acgt", 0, {})]
    cs.append(C(mx, cats=["sample"], tag="known:mixed-type-category-dropped"))
    cs.append(C(mx, stats=["sample"], tag="mixed-type-merge"))
    wt = [R("r1", "acgt", 2, dict(sample="A", wt=5)), R("r2", "acgt", 3, dict(sample="B", wt=7)), R("r3", "acgt", 1, dict(sample="A"))]
    cs.append(C(wt, stats=["sample:wt"], tag="weighted-merge"))
    cs.append(C(wt, stats=["sample:wt", "sample"], disk=True, tag="weighted-merge-disk"))
    ql = [dict(R("r1", "acgt", 0, dict(sample="A")), qual="IIII"), R("r2", "acgt", 0, dict(sample="A")), dict(R("r3", "ttt", 2), qual="I5I")]
    cs.append(C(ql, chunks=1, tag="qualities"))
    cs.append(C(ql, chunks=1, disk=True, tag="qualities-disk"))
    cs.append(C([], tag="empty"))
    cs.append(C([R("r1", "acgt")], tag="one"))
    cs.append(C([R("r1", "acgt")], nosingleton=True, tag="one-dropped"))
    return cs


def gen_cases(ctx, nms, nperm, big=0):
    rng = ctx.rng
    cases = corpus()
    groups = []    # indices of cases that must give the same projection
    for i in range(nms + big):
        recs = gen_multiset(rng, big=(i >= nms))
        cfg = gen_config(rng)
        g = []
        for p in range(nperm):
            rr = list(recs)
            if p == 1:
                rr.reverse()
            elif p > 1:
                rng.shuffle(rr)
            c = dict(cfg, recs=rr, **gen_sched(rng, disk=(True if p == nperm - 1 and rng.random() < 0.5 else None)))
            g.append(len(cases))
            cases.append(c)
        groups.append(g)
    return cases, groups


# ----------------------------------------------------------------------------------------------- Coq rendering
class Intern:
    def __init__(self):
        self.t = {}

    def __call__(self, s):
        if s not in self.t:
            self.t[s] = len(self.t) + 1
        return self.t[s]


def nlist(l):
    return "[" + "; ".join(str(x) for x in l) + "]"


def seq_term(s):
    return nlist(list(s.encode()))


def stat_term(I, m):
    return "[" + "; ".join("(%d, %d%%Z)" % (I(v), w) for v, w in sorted(m.items())) + "]"


def rec_term(I, r, stats_keys):
    # a value is modelled by its printed form (what the classifiers and StatsPlusOne see)
    ann = "[" + "; ".join("(%d, %d)" % (I("k:" + k), I("s:" + sprint(v))) for k, v in sorted((r.get("attrs") or {}).items())) + "]"
    mg = "[" + "; ".join("(%d, %s)" % (I("k:" + k), stat_term(lambda v: I("s:" + v), m)) for k, m in sorted((r.get("merged") or {}).items())) + "]"
    return "mkrec %s %d%%Z %s %s" % (seq_term(r["seq"]), rcount(r), ann, mg)


def out_term(I, p, cats, stats):
    seq, cv, count, merged, ann = p
    mg = "[" + "; ".join("(%d, %s)" % (I("k:" + k), "[" + "; ".join("(%d, %d%%Z)" % (I("s:" + v), w) for v, w in m) + "]") for k, m in merged) + "]"
    an = "[" + "; ".join("(%d, %d)" % (I("k:" + k), I("s:" + unrender(v))) for k, v in ann) + "]"
    return "mkout %s %s %d%%Z %s %s" % (seq_term(seq), nlist([I("s:" + v) for v in cv]), count, mg, an)


def case_term(case, obs_proj):
    I = Intern()
    cats = nlist([I("k:" + c) for c in case["cats"]])
    stats = nlist([I("k:" + c) for c in sorted(set(case["stats"]))])
    na = I("s:" + case["na"])
    recs = "[" + ";\n   ".join(rec_term(I, r, case["stats"]) for r in case["recs"]) + "]"
    outs = "[" + ";\n   ".join(out_term(I, p, case["cats"], case["stats"]) for p in obs_proj) + "]"
    return "mkcase 0 %d %s %s %d %s\n  %s\n  %s" % (max(case["chunks"], 1), cats, stats, na, "true" if case["nosingleton"] else "false", recs, outs)


# ----------------------------------------------------------------------------------------------- obidemerge (worker level)
def demerge_keys(case):
    """the slot first, then every other merged_* key carried by an input record"""
    ks = sorted({k for r in case["recs"] for k in (r.get("merged") or {})} - {case["dkey"]})
    return [case["dkey"]] + ks


def expected_demerge(case):
    """one record per value of merged_<k> with count = weight (SetCount: at least 1), attribute k = value, slot removed"""
    k, keys, out = case["dkey"], demerge_keys(case), []
    for r in case["recs"]:
        attrs = {a: render(v) for a, v in (r.get("attrs") or {}).items()}
        mg = {kk: (r.get("merged") or {}).get(kk, {}) for kk in keys}
        if k in (r.get("merged") or {}):
            for v, w in r["merged"][k].items():
                out.append(proj(r["seq"], (), max(w, 1), dict(mg, **{k: {}}), dict(attrs, **{k: render(v)})))
        else:
            out.append(proj(r["seq"], (), rcount(r), mg, attrs))
    return sorted(out)


def observed_demerge(case, o):
    keys = demerge_keys(case)
    res = []
    for r in o["recs"]:
        ann = {a: v for a, v in (r.get("ann") or {}).items() if a != "definition" or v != '""'}
        res.append(proj(r["seq"], (), r["count"], {kk: (r.get("merged") or {}).get(kk) or {} for kk in keys}, ann))
    return sorted(res)


def demerge_term(case, obs_proj):
    I = Intern()
    keys = demerge_keys(case)
    stats = nlist([I("k:" + c) for c in keys])
    recs = "[" + ";\n   ".join(rec_term(I, r, keys) for r in case["recs"]) + "]"
    order = {k: i for i, k in enumerate(keys)}
    outs = "[" + ";\n   ".join(out_term(I, p, [], keys) for p in obs_proj) + "]"
    return "mkcase 1 1 [] %s %d false\n  %s\n  %s" % (stats, I("s:NA"), recs, outs)


def demerge_check(ctx, broken, n):
    rng = ctx.rng
    cases = []
    for i in range(n):
        recs = gen_multiset(rng)
        for r in recs:
            r.pop("qual", None)
        cases.append(dict(op="demerge", dkey=rng.choice(KEYS), recs=recs))
    obs = ctx.vh_robust("c06", cases, timeout=300, one_timeout=20)
    terms, nviol = [], 0
    for i, (c, o) in enumerate(zip(cases, obs)):
        if o.get("kind") != "ok":
            ctx.violation("demerge_%s_%d" % (o.get("kind"), i), dict(property="C06", kind="demerge-" + str(o.get("kind")), case=c, implementation=o))
            continue
        got, exp = observed_demerge(c, o), expected_demerge(c)
        if got != exp:
            nviol += 1
            if nviol <= 2:
                ctx.violation("demerge_oracle_%d" % i, dict(property="C06", kind="demerge-direct-oracle", case=c, implementation=got, expected=exp))
        terms.append((i, demerge_term(c, got)))
    bad, err = ctx.correspond("demerge", IMPORTS, [t for _, t in terms], shard=120)
    if bad is None:
        broken.append(dict(kind="correspondence", detail=err))
    elif bad and not ctx.violations:
        i = terms[bad[0]][0]
        broken.append(dict(kind="correspondence", name="corr:C06/demerge", first_diverging_case=cases[i], implementation=obs[i], n_diverging=len(bad)))
    ctx.cov["demerge_worker_cases"] = len(cases)
    ctx.cov["demerge_model_vs_impl_mismatches"] = len(bad or [])
    return len(cases)


# ----------------------------------------------------------------------------------------------- evaluation
def to_vh(c):
    return {k: c[k] for k in ("recs", "disk", "chunks", "workers", "cats", "stats", "na", "nosingleton", "batch", "dbatch")}


def evaluate(ctx, cases, broken, label, corr=True):
    obs = ctx.vh_robust("c06", [to_vh(c) for c in cases], timeout=900, one_timeout=40)
    for i, o in enumerate(obs):
        if o.get("kind") in ("timeout", "crash"):
            # a loaded machine must not raise an alarm: the case is run again alone with a one minute deadline
            obs[i] = ctx.vh_robust("c06", [dict(to_vh(cases[i]), dl=60000)], timeout=90, one_timeout=90)[0]
    nviol = 0
    projs = []
    for i, (c, o) in enumerate(zip(cases, obs)):
        if o.get("kind") != "ok":
            projs.append(None)
            nviol += 1
            if nviol <= 3:
                ctx.violation("%s_%s_%d" % (label, o.get("kind"), i), dict(property="C06", kind="implementation-" + str(o.get("kind")), case=c, implementation=o))
            continue
        got, exp = observed(c, o), expected(c)
        projs.append(got)
        mixed = mixed_type_cats(c)
        if got != exp and mixed:
            # known finding: the category attribute itself is dropped from the merged record (typed comparison in
            # BioSequence.Merge), everything else must still be as the property demands
            strip = lambda ps: sorted((p[0], p[2], p[3], tuple(kv for kv in p[4] if kv[0] not in mixed)) for p in ps)
            if strip(got) == strip(exp) and ctx.kf_match("mixed-type-category-dropped"):
                ctx.known("mixed-type-category-dropped", "obiuniq -c k drops attribute k from a merged class whose members print the same value of k "
                          "under different Go types (k=1 integer vs k=\"1\" string): the output no longer shows the key of that class")
                projs[-1] = None
                continue
        if got != exp:
            nviol += 1
            if nviol <= 3:
                ctx.violation("%s_oracle_%d" % (label, i), dict(property="C06", kind="direct-oracle", case=c, implementation=got, expected=exp,
                                                              total_in=sum(rcount(r) for r in c["recs"]), total_out=sum(p[2] for p in got)))
    mism = []
    if corr:
        idx = [i for i, p in enumerate(projs) if p is not None and not weighted(cases[i]) and not mixed_type_cats(cases[i])]
        bad, err = ctx.correspond(label, IMPORTS, [case_term(cases[i], projs[i]) for i in idx], shard=120)
        if bad is None:
            broken.append(dict(kind="correspondence", detail=err))
        else:
            mism = [idx[i] for i in bad]
    return obs, projs, mism


# ----------------------------------------------------------------------------------------------- on-disk mode under processor contention
def stress_cases(rng, n):
    cs = []
    for i in range(n):
        recs = gen_multiset(rng, big=True)
        cfg = gen_config(rng)
        cs.append(dict(cfg, recs=recs, disk=True, chunks=rng.choice([1, 1, 2, 7]), workers=rng.randrange(1, 9), batch=rng.choice([5, 50]),
                       dbatch=rng.choice([1, 2, 0]), procs=rng.choice([0, 2, 4])))
    return cs


def disk_stress(ctx, nproc, ncase, cases=None, report=True):
    """The on-disk mode writes every chunk to a file and reads the files back in the same process. Many harness processes run
    large on-disk cases at the same time, so that the operating system preempts the writer goroutines: a chunk file read
    before it is complete shows as lost records (or a crash on an empty file)."""
    from concurrent.futures import ThreadPoolExecutor
    cases = cases or stress_cases(ctx.rng, ncase)

    def job(j):
        obs = ctx.vh_robust("c06", [dict(to_vh(c), procs=c.get("procs", 0), dl=60000) for c in cases], timeout=900, one_timeout=90)
        for i, o in enumerate(obs):
            if o.get("kind") == "timeout":      # slowness is not the defect looked for: run again alone
                obs[i] = ctx.vh_robust("c06", [dict(to_vh(cases[i]), dl=120000)], timeout=150, one_timeout=150)[0]
        return obs
    with ThreadPoolExecutor(nproc) as ex:
        res = list(ex.map(job, range(nproc)))
    nbad = 0
    for j, obs in enumerate(res):
        for i, (c, o) in enumerate(zip(cases, obs)):
            ok = o.get("kind") == "ok" and observed(c, o) == expected(c)
            if not ok:
                nbad += 1
                if nbad <= 2 and report:
                    got = observed(c, o) if o.get("kind") == "ok" else o
                    ctx.violation("disk_stress_%d_%d" % (j, i), dict(
                        property="C06", kind="on-disk-mode-loses-records-under-contention", stress=dict(processes=nproc),
                        note="schedule dependent: replay runs the case in %d concurrent processes" % nproc,
                        case=c, implementation=got, expected=expected(c), total_in=sum(rcount(r) for r in c["recs"]),
                        total_out=sum(p[2] for p in got) if isinstance(got, list) else None))
    return nproc * len(cases), nbad


# ----------------------------------------------------------------------------------------------- CLI: obiuniq | obidemerge | obiuniq
def fasta_of(recs):
    lines = []
    for r in recs:
        ann = dict(r.get("attrs") or {})
        if r.get("count", 0) > 0:
            ann["count"] = r["count"]
        for k, m in (r.get("merged") or {}).items():
            ann["merged_" + k] = m
        lines.append(">%s %s\n%s\n" % (r["id"], json.dumps(ann, ensure_ascii=False), r["seq"]))
    return "".join(lines)


def parse_fasta(txt):
    recs = []
    for block in txt.split(">")[1:]:
        head, _, body = block.partition("\n")
        rid, _, rest = head.partition(" ")
        ann = {}
        rest = rest.strip()
        if rest.startswith("{"):
            dec = json.JSONDecoder()
            ann, _ = dec.raw_decode(rest)
        recs.append(dict(id=rid, seq="".join(body.split()), ann=ann))
    return recs


def cli_proj(recs, cats, stats, na):
    res = []
    for r in recs:
        ann = dict(r["ann"])
        count = ann.pop("count", 1)
        merged = {k: ann.pop("merged_" + k, {"<absent>": -1}) for k in set(stats)}
        ann = {k: render(v) for k, v in ann.items() if not k.startswith("merged_") and k != "definition"}
        cv = tuple(unrender(ann[c]) if c in ann else na for c in cats)
        res.append(proj(r["seq"], cv, count, merged, ann))
    return sorted(res)


def run_cli(bindir, args, inp, timeout=60):
    p = subprocess.run([os.path.join(bindir, args[0])] + args[1:], input=inp.encode(), capture_output=True, timeout=timeout)
    return p.returncode, p.stdout.decode("utf8", "replace"), p.stderr.decode("utf8", "replace")


def cli_one(ctx, bindir, case, name, report=True):
    """one CLI case: obiuniq with the case's options agrees with the oracle; when the case has exactly one merge attribute
    and no category, obiuniq -m k | obidemerge -d k | obiuniq -m k gives the same sequences, counts and merged maps."""
    args = ["obiuniq", "--chunk-count", str(case["chunks"]), "--max-cpu", str(case["workers"]), "--na-value", case["na"]]
    for k in case["stats"]:
        args += ["-m", k]
    for k in case["cats"]:
        args += ["-c", k]
    if case["nosingleton"]:
        args.append("--no-singleton")
    if not case["disk"]:
        args.append("--in-memory")
    src = fasta_of(case["recs"])
    # (weighted descriptors k:w are outside the statement: obidemerge -d k:w names the attribute "k:w" and the second pass
    #  would weigh by w instead of the count)
    demerge = len(case["stats"]) == 1 and ":" not in case["stats"][0] and not case["cats"] and not case["nosingleton"]
    k = case["stats"][0] if demerge else None
    rc2 = rc3 = 0
    o2 = o3 = e2 = e3 = ""
    try:
        rc1, o1, e1 = run_cli(bindir, args, src)
        if demerge and rc1 == 0:
            rc2, o2, e2 = run_cli(bindir, ["obidemerge", "-d", k], o1)
            if rc2 == 0:
                rc3, o3, e3 = run_cli(bindir, args, o2)
    except subprocess.TimeoutExpired:
        rc1, o1, e1 = 124, "", "timeout"
    rp = dict(case, args=args)
    if rc1 or rc2 or rc3:
        if report:
            ctx.violation(name + "_exit", dict(property="C06", kind="cli-exit", case=rp, rc=[rc1, rc2, rc3], stderr=(e1 + e2 + e3)[-1500:]))
        return "exit %s" % [rc1, rc2, rc3]
    p1 = cli_proj(parse_fasta(o1), case["cats"], case["stats"], case["na"])
    exp = expected(case)
    if p1 != exp:
        if report:
            ctx.violation(name + "_oracle", dict(property="C06", kind="cli-direct-oracle", case=rp, implementation=p1, expected=exp))
        return "obiuniq differs from the accounting: %s vs %s" % (p1, exp)
    if demerge:
        p3 = cli_proj(parse_fasta(o3), [], [k], case["na"])
        strip = lambda ps: sorted((p[0], p[2], p[3]) for p in ps)
        # counts after the round trip are the totals of the maps: identical when every input map sums to its record's count
        consistent = all(sum(m.values()) == rcount(r) for r in case["recs"] for kk, m in (r.get("merged") or {}).items() if kk == k)
        a, b = strip(p3), strip(p1)
        if not consistent:
            a, b = [(x[0], x[2]) for x in a], [(x[0], x[2]) for x in b]
        if a != b:
            if report:
                ctx.violation(name + "_demerge", dict(property="C06", kind="demerge-inverse", case=rp, uniq=p1, uniq_demerge_uniq=p3, demerged=o2[-2000:]))
            return "uniq|demerge|uniq differs: %s vs %s" % (p3, p1)
    return None


def cli_check(ctx, bindir, nms):
    rng = ctx.rng
    n = nbad = ndem = 0
    for i in range(nms):
        recs = gen_multiset(rng)
        for r in recs:
            r.pop("qual", None)
        if i % 2 == 0:
            cfg = dict(cats=[], stats=[rng.choice(KEYS)], na="NA", nosingleton=False)
            ndem += 1
        else:
            cfg = gen_config(rng)
            cfg["na"] = cfg["na"] or "NA"
            cfg["stats"] = [d for d in cfg["stats"]]
        case = dict(cfg, recs=recs, disk=rng.random() < 0.5, chunks=rng.choice([1, 2, 7, 100]), workers=rng.randrange(1, 5))
        bad = cli_one(ctx, bindir, case, "cli_%d" % i, report=(nbad < 2))
        nbad += bad is not None
        n += 1
    return n, ndem


# ----------------------------------------------------------------------------------------------- entry points
def nontrivial(c):
    ks = [key_of(r, c["cats"], c["na"]) for r in c["recs"]]
    return len(ks) > len(set(ks))


def run(ctx, broken):
    nms, nperm, big = (110, 5, 3) if ctx.quick else (2500, 6, 60)
    cases, groups = gen_cases(ctx, nms, nperm, big)
    obs, projs, mism = evaluate(ctx, cases, broken, "main")
    # order / chunk / mode / worker independence inside each group (implied by the oracle; reported separately for clarity)
    ngroups_equal = 0
    for g in groups:
        ps = [projs[i] for i in g if projs[i] is not None]
        if all(p == ps[0] for p in ps):
            ngroups_equal += 1
        elif not ctx.violations:
            ctx.violation("order_%d" % g[0], dict(property="C06", kind="order-dependence", cases=[cases[i] for i in g], implementation=[projs[i] for i in g]))
    ncli = ndem = 0
    bindir, err = ctx.build_cmds(["obiuniq", "obidemerge"])
    if bindir is None:
        broken.append(dict(kind="cmd-build", detail=err))
    else:
        ncli, ndem = cli_check(ctx, bindir, 24 if ctx.quick else 400)
        ctx.cov["cli_cases"] = dict(obiuniq_vs_oracle=ncli, uniq_demerge_uniq=ndem)
    ndw = demerge_check(ctx, broken, 60 if ctx.quick else 2000)
    nstress, nbad = disk_stress(ctx, 24 if ctx.quick else 48, 25 if ctx.quick else 120)
    ctx.cov["disk_stress"] = dict(runs=nstress, failures=nbad, what="large on-disk cases run in many concurrent harness processes (writer goroutines preempted)")
    ctx.cov["evaluations"] = len(cases) + ncli + ndw + nstress
    ctx.cov["distinct_nontrivial"] = len({json.dumps(to_vh(c), sort_keys=True) for c in cases if nontrivial(c)})
    ctx.cov["rule"] = ("multisets of 0..21 (big: 40..150) records over 1..12 (big: 8..40) distinct sequences, counts absent/1/2..1000, 4 attributes "
                       "(string/int/bool, present with p in {0,.5,.8,1}), already merged maps in 3 Go map types; each multiset in %d arrival orders "
                       "x random (mode, chunks, workers, batch sizes); non-trivial = at least two records share a key; distinct = distinct harness input" % nperm)
    def tally(f):
        d = {}
        for c in cases:
            d[str(f(c))] = d.get(str(f(c)), 0) + 1
        return d
    ctx.cov["distribution"] = dict(mode=tally(lambda c: "disk" if c["disk"] else "memory"), chunks=tally(lambda c: c["chunks"]),
                                   workers=tally(lambda c: c["workers"]), categories=tally(lambda c: len(c["cats"])),
                                   merge_attributes=tally(lambda c: len(c["stats"])), nosingleton=tally(lambda c: c["nosingleton"]),
                                   records=tally(lambda c: min(len(c["recs"]) // 10 * 10, 100)),
                                   weighted_statistics=sum(1 for c in cases if weighted(c)),
                                   with_qualities=sum(1 for c in cases if any(r.get("qual") for r in c["recs"])),
                                   permutation_groups=len(groups), permutation_groups_with_equal_output=ngroups_equal,
                                   already_merged_inputs=sum(1 for c in cases if any(r.get("merged") for r in c["recs"])),
                                   cli_uniq_demerge_uniq=ncli)
    ctx.samples = [dict(case=to_vh(cases[i]), implementation=projs[i]) for i in (0, 1, len(cases) // 2, len(cases) - 1)]
    ctx.cov["model_vs_impl_mismatches"] = len(mism)
    if mism and not ctx.violations:
        more, _ = gen_cases(ctx, 400, 3)
        evaluate(ctx, more, [], "search", corr=False)
        if not ctx.violations:
            i = mism[0]
            broken.append(dict(kind="correspondence", name="corr:C06/projection", first_diverging_case=cases[i], implementation=projs[i], n_diverging=len(mism)))
    elif mism:
        ctx.cov["note"] = "model and implementation diverge on %d cases (violations reported by the direct oracle)" % len(mism)


def replay(ctx, rp):
    if "case" not in rp:
        print("replay: nothing to replay in", list(rp))
        return
    c = rp["case"]
    if "stress" in rp:
        n, nbad = disk_stress(ctx, rp["stress"]["processes"], 0, cases=[dict(C([]), **c)] * 20, report=False)
        print("replay (on-disk mode, %d concurrent processes x 20 runs of the case): %d of %d runs lose records or crash" % (rp["stress"]["processes"], nbad, n))
        return
    if c.get("op") == "demerge":
        o = ctx.vh_robust("c06", [c])[0]
        print("replay (demerge worker):", json.dumps(c)[:1500])
        print(" implementation:", observed_demerge(c, o) if o.get("kind") == "ok" else o)
        print(" expected      :", expected_demerge(c))
        return
    if "args" in c:
        bindir, err = ctx.build_cmds(["obiuniq", "obidemerge"])
        print("replay (CLI case):", " ".join(c["args"]), "<<EOF\n" + fasta_of(c["recs"]) + "EOF")
        print(" result:", cli_one(ctx, bindir, c, "replay", report=False) or "agrees with the oracle")
        return
    c = dict(C([]), **c)
    obs, projs, mism = evaluate(ctx, [c], [], "replay")
    print("replay:", json.dumps(to_vh(c))[:2000])
    print(" implementation:", projs[0])
    print(" expected      :", expected(c))
    print(" model-mismatch" if mism else " model-agrees")
