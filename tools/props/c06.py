"""C06 — dereplication conserves counts and merges exactly the identical records (obichunk.IUniqueSequence, obiuniq, obidemerge)."""
import json, os, subprocess, tempfile, itertools

PROPS = ["C06/Props.v"]
META = dict(
    text="Rocq theorems (unbounded, structural induction, no axiom) over an executable model of obichunk.IUniqueSequence (partition by an "
         "ARBITRARY hash, grouping by sequence then by each category with the singleton short-cut, BioSequence.Merge as a left fold over TYPED "
         "attribute values, statistics descriptors key / key:weight) and of obidemerge: the records merged together are exactly the records of "
         "one key; every output record is the merge of one whole class (count = sum of the counts; every merged_<k> map = per-value summed "
         "contribution: the WEIGHT of a raw record, the own map of an already merged one); total count conserved (--no-singleton drops exactly "
         "the whole classes of total 1); total weight of every slot conserved, per class and over the data set (these for counts >= 1, "
         "hypothesis pos_counts; every output count is >= 1 unconditionally); on a data set where the "
         "printed form of a category value determines its typed value (hypothesis `typed`, stated in each theorem that needs it): one output "
         "record per distinct key, output keys = input keys, an annotation survives iff unanimous as a typed value, the projected output set "
         "is invariant under every input permutation, hash function and chunk count; without that hypothesis the key statements are REFUTED "
         "in the model (C06_one_per_key_refuted, C06_keys_exact_refuted = known finding mixed-type-category-dropped); the on-disk mode yields "
         "the same multiset of records as the in-memory mode GIVEN the write/read round trip of the chunk files on the modelled fields "
         "(C06_disk_equals_memory); obiuniq -m k | obidemerge -d k | obiuniq -m k = obiuniq -m k. "
         "On every run the REAL IUniqueSequence is drained (memory and disk, 1/2/7/100/1000 chunks, 1..8 workers, several -c with several "
         "-m key and key:weight, NA values colliding with values, --no-singleton, qualities, already merged inputs in the three Go map types, "
         "string / integer / float / boolean / list / map / null values, mixed types, upper-case sequences, records without nucleotides, "
         "counts 0 and negative) on random multisets and 5-6 arrival orders of each, judged by a direct Python accounting oracle and compared "
         "with the model evaluated by vm_compute (weighted, mixed-type and refused-value cases included; on-disk cases through the model's "
         "on-disk path); for every on-disk case each chunk file, as re-read by the implementation (verif tap), is compared with what was sent "
         "to it on the modelled projection (= the hypothesis of C06_disk_equals_memory, checked per case); the real demerge worker is compared "
         "with the model too; the built obiuniq / obidemerge binaries are checked against the oracle and for the demerge round trip; the "
         "on-disk mode is stressed in 24 concurrent processes and, deterministically, with every chunk file completed 5-20 ms late. "
         "Round 3: the pieces below IUniqueSequence are driven alone, each judged by a direct oracle AND compared with the model: classifier "
         "objects (AnnotationClassifier, SequenceClassifier; HashClassifier and DualAnnotationClassifier by the oracle only) through histories "
         "of Code / Value / Reset / Clone calls — theorems: Value(Code v) = v, codes stay decodable until Reset, two records share a code iff "
         "they share the value, the table is the list of values in first-appearance order, a coded value is decoded by Value at any later step "
         "until the next Reset whatever happened before (C06_classifier_value_after_code), a code never issued is refused; "
         "IBioSequence.Distribute with and without a batch size (one output per class, Value(code) names it); ISequenceSubChunk with 0 (default), 1, 2, 3 workers "
         "— theorem C06_subchunk_any_sort: for ANY rearrangement sorted by code the batches pushed are the classes of the model's `groups` up "
         "to the order inside a class; obiiter.MergePipe / IMergeSequenceBatch with and without a batch size; BioSequence.Merge in place and on "
         "a copy (receiver untouched, qualities dropped), merged_<slot> attributes of the wrong shape (not a map: the record counts as raw; map "
         "with a non-numeric weight: refused); the option setters as call histories (contradicted options, one call per key) and every "
         "accessor. Through the commands: input as one file / several files / gzip / FASTQ, --batch-size 1/3/1000 (obiuniq sets 10), "
         "--no-order, --force-one-cpu, --max-cpu 1, --out with and without --compress, -m k with -m k:w, --no-singleton with -c, data sets of "
         "several input batches, a TMPDIR that does not exist (on disk: error and no record; in memory: unaffected), obidemerge without -d "
         "(identity), obiuniq -m k:w | obidemerge -d k:w | obiuniq -m k (merged_k = merged_k:w; theorem C06_demerge_weighted for the worker).",
    note="Trusted: Coq kernel + vm_compute, harness, generators/renderers (strings are interned to N codes by the renderer; the typed view of a "
         "value — Go type tag, fmt.Sprint form, canonical JSON, StatsPlusOne key, InterfaceToInt — is computed by the harness in Go next to "
         "the code, the Python oracle computes its own). Go int (OBI-format headers, harness default) and float64 (what the JSON header reader leaves every number; harness "
         "flag nf; every number after a chunk file) are distinct tags: data sets mixing both for one number are modelled and driven in memory "
         "(the attribute is dropped: same known finding; through the commands: corpus witness cli_mixed_headers, where the on-disk mode keeps "
         "it); on disk the model is fed the records as re-read, and the round trip hypothesis is checked literally when every number is "
         "already a float64, up to the int -> float64 retagging otherwise. Counts < 1 are outside the property (quantifier `counts >= 1`): "
         "the model carries SetCount (every intermediate total < 1 becomes 1), the accounting theorems state pos_counts, "
         "C06_count_is_sum_nonpositive_refuted shows the order dependence; such cases are driven and compared with the model, the direct "
         "oracle judges only their classes. Not modelled: the rewriting "
         "of a weight attribute by GetIntAttribute (float64 -> int), so the survival of an attribute used as a weight is not claimed and an attribute used both as a weight and as a category "
         "(or as the key of another -m) is not driven (a float 3.25 would be rewritten as 3 and shown as the key); "
         "qualities (dropped by Merge); records without nucleotides on disk (refused by the chunk reader by design: expected to stop). "
         "C06_disk_equals_memory assumes the round trip (C02's statement) and is re-checked per on-disk case; integers >= 1e6 are not "
         "generated in attributes (fmt.Sprint of the re-read float64 differs: 1e+06). The hash is a Section variable. Go channels / scheduler "
         "are not modelled: a schedule only changes the arrival order, over which the theorems quantify; sort.Sort's instability likewise. "
         "Record ids (that of the first member) are not part of the claim. C06_demerge_inverse is stated for -c-less, weight-less "
         "dereplication on (sequence, merged map, count = total of the map). disk_stress detection of 'chunk files read before they are "
         "complete', measured in round 2 on the tree with the wait removed (25 large cases, machine load > 100): 0/25 in one process without "
         "delay, 11/600 in 24 concurrent processes, 22/25 with chunk files completed 5 ms late and 24/25 with 20 ms (one process; replay of "
         "one such case: 20/20); 0 on the unchanged tree in all four settings. "
         "Round 3, not exercised (anchored code outside the property): PredicateClassifier and RotateClassifier (classifiers of obidistribute / "
         "obisplit, not used by the dereplication; DualAnnotationClassifier is driven for its code table only), the branches of "
         "obiformats.WriterDispatcher for DualAnnotationClassifier keys, compressed names and directories (obidistribute), because "
         "they belong to other commands (the explicit batch size argument of IBioSequence.Distribute, which no caller in the dereplication "
         "passes, is driven all the same); the input / output "
         "failure branches (a chunk file that cannot be created, written, flushed, closed or read back, a WalkDir error: writeChunkFile, find, "
         "ISequenceChunkOnDisk) because they need a failing file system — the failure to create the temporary directory IS exercised; the "
         "log.Fatalf branches on a flux that was announced but is unknown (ISequenceChunk, WriterDispatcher, IDistribute.Outputs) because they "
         "cannot be reached. Options.BatchSize is stored and never read by IUniqueSequence (--batch-size acts through obioptions: exercised by "
         "the CLI variants). Outside the property: a weight < 1 in a merged map demerges to a record of count 1 (SetCount; the quantifier has "
         "counts >= 1, C06_weights_positive); a map of non-integral numbers in merged_<k> is truncated by InterfaceToInt when merged, written "
         "as it came for a singleton; Value() of a code issued before the last Reset is not judged.")
TRUSTED = ["CRC32 is NOT trusted: the hash is a Section variable h : list N -> nat, theorems hold for every h and every chunk count",
           "classifier code tables + sort + split of ISequenceSubChunk: modelled (code1 / coded / runs, compared with the real classifier objects "
           "and the real ISequenceSubChunk on every run) and PROVED to give the classes of `groups` — first-appearance order, members in any order "
           "(C06_subchunk_any_sort) — for any rearrangement sorted by code; what stays trusted is that sort.Sort returns such a rearrangement; "
           "C06_order_hash_chunks_independent shows the projection does not depend on the order inside or between classes",
           "the range over the Go map statsOn is modelled as independent slots (a map over the list of requested slots)",
           "Section hypothesis C02_fasta_fastq_roundtrip_projected of C06_disk_equals_memory: writing a record to a chunk file (FASTA or FASTQ "
           "with JSON header) and reading it back returns the same (sequence, Count(), typed annotations, merged maps) — C02_fasta_roundtrip / "
           "C02_fastq_roundtrip projected on the modelled fields; re-checked on every on-disk case of every run through obichunk.VerifChunkRead",
           "Section hypothesis directory_order_is_a_rearrangement: the chunk files are processed in some order (filepath.WalkDir), each once",
           "typed view of a value (c06Typed in the harness): fmt.Sprint, encoding/json, and a transcription of the type switches of "
           "StatsPlusOne and obiutils.InterfaceToInt; a divergence from the code shows as a disagreement with the independent Python oracle"]

IMPORTS = ("From Coq Require Import List NArith ZArith Bool. Import ListNotations.\n"
           "From OBI.C06 Require Import Model.\nOpen Scope N_scope.\n")

SEQ_POOL_LEN = [1, 2, 3, 4, 5, 8, 12]


# ----------------------------------------------------------------------------------------------- semantics (oracle)
def sprint(v):
    """fmt.Sprint of an attribute value as the Go code holds it (string / int / bool / float64 / []interface{} /
    map[string]interface{} / nil); generated floats are short non-integral decimals, printed alike by Go and Python"""
    if isinstance(v, bool):
        return "true" if v else "false"
    if v is None:
        return "<nil>"
    if isinstance(v, list):
        return "[" + " ".join(sprint(x) for x in v) + "]"
    if isinstance(v, dict):
        return "map[" + " ".join("%s:%s" % (k, sprint(v[k])) for k in sorted(v)) + "]"
    return str(v)


def render(v):
    """the harness' rendering of an output annotation (c06Render)"""
    if isinstance(v, str):
        return json.dumps(v, ensure_ascii=False)
    return sprint(v)


def tid(v, nf=False):
    """typed identity of a value: what BioSequence.Merge compares (dynamic type + value). A number is a Go int when it is
    integral and the record was built the OBI-header way, a float64 when it was built the JSON-header way (nf) or went
    through a chunk file"""
    if isinstance(v, bool):
        tag = 3
    elif isinstance(v, int):
        tag = 2 if nf else 1
    elif isinstance(v, float):
        tag = 2
    else:
        tag = 0 if isinstance(v, str) else 5 if v is None else 4
    return (tag, json.dumps(v, sort_keys=True))


def rtid(case, r, v):
    """typed identity of the value v of record r as the dereplication of this case sees it"""
    return tid(v, nf=bool(case.get("disk") or r.get("nf")))


def statkey(v):
    """the key StatsPlusOne files a value under; None = it refuses the value (log.Fatalf)"""
    if isinstance(v, (str, bool, int)):
        return sprint(v)
    if isinstance(v, float) and v == int(v):
        return str(int(v))
    return None


def intval(v):
    """obiutils.InterfaceToInt"""
    if isinstance(v, bool) or not isinstance(v, (int, float)):
        return None
    return int(v)


def unrender(s):
    """printed form of a value rendered by the harness"""
    if s.startswith('"'):
        return json.loads(s)
    return s


def rcount(r):
    """Count(): the count attribute (ccount: explicit, possibly 0 or negative), 1 when absent"""
    if r.get("ccount") is not None:
        return r["ccount"]
    return r["count"] if r.get("count", 0) > 0 else 1


def val(r, k, na):
    a = r.get("attrs") or {}
    return sprint(a[k]) if k in a else na


def sval(r, k, na):
    a = r.get("attrs") or {}
    return statkey(a[k]) if k in a else na


def key_of(r, cats, na):
    return (r["seq"].lower(), tuple(val(r, c, na) for c in cats))


def numeric_map(v):
    return isinstance(v, dict) and all(isinstance(x, (int, float)) and not isinstance(x, bool) for x in v.values())


def eff_merged(r):
    """the merged_<k> maps a record carries as far as StatsOn is concerned: a map of integers; a map of numbers is read
    through InterfaceToInt (truncated); an attribute merged_<k> of any other shape (badmerged: string, list, number, null)
    is replaced by a fresh map holding the record itself = the record counts as a raw one"""
    m = dict(r.get("merged") or {})
    for k, v in (r.get("badmerged") or {}).items():
        if numeric_map(v):
            m[k] = {a: int(b) for a, b in v.items()}
    return m


def contrib(r, desc, na):
    """what record r contributes to merged_<desc>: its own merged map if it has one, else {value: weight};
    desc = key or key:weight_attribute (weight = that integer attribute, 0 when absent; default weight = count)"""
    m = eff_merged(r).get(desc)
    if m is not None:
        return dict(m)
    k, _, wk = desc.partition(":")
    if wk:
        w = intval((r.get("attrs") or {}).get(wk))
        w = 0 if w is None else w
    else:
        w = rcount(r)
    return {sval(r, k, na): w}


def mixed_numbers(case):
    """one integral number stored as a Go int in one record and as a float64 in another (same attribute)"""
    seen = {}
    for r in case["recs"]:
        for k, v in (r.get("attrs") or {}).items():
            if isinstance(v, int) and not isinstance(v, bool):
                seen.setdefault((k, v), set()).add(bool(r.get("nf")))
    return any(len(x) > 1 for x in seen.values())


def weight_attrs(case):
    return {d.partition(":")[2] for d in case["stats"] if ":" in d}


def nonpositive(case):
    """some record has an explicit count < 1: outside the quantifier of the property (counts >= 1)"""
    return any(rcount(r) < 1 for r in case["recs"])


def classes_of(case):
    classes = {}
    for r in case["recs"]:
        classes.setdefault(key_of(r, case["cats"], case["na"]), []).append(r)
    return classes


def unreadable_chunk(case):
    """on disk, a record without nucleotides is written to its chunk file and refused by the FASTA/FASTQ reader
    (log.Fatalf "sequence is empty", by design: such a record cannot come from a file either): the round trip
    hypothesis of C06_disk_equals_memory does not hold for it"""
    return case.get("disk") and any(r["seq"] == "" for r in case["recs"])


def fatal_expected(case):
    """StatsPlusOne refuses (log.Fatalf) a float / composite / null value: it sees every record of a kept class that does
    not carry the slot already"""
    if unreadable_chunk(case):
        return True
    for key, members in classes_of(case).items():
        if case["nosingleton"] and len(members) == 1 and rcount(members[0]) == 1:
            continue
        for r in members:
            for d in case["stats"]:
                k = d.partition(":")[0]
                a = r.get("attrs") or {}
                if d not in eff_merged(r) and k in a and statkey(a[k]) is None:
                    return True
    return False


def expected(case):
    """Direct oracle: the accounting the property demands, as a sorted list of projections."""
    cats, stats, na = case["cats"], case["stats"], case["na"]
    classes = {}
    for r in case["recs"]:
        classes.setdefault(key_of(r, cats, na), []).append(r)
    out = []
    for key, members in classes.items():
        total = sum(rcount(r) for r in members)
        if case["nosingleton"] and total == 1:
            continue
        merged = {}
        for k in set(stats):
            m = {}
            for r in members:
                for v, w in contrib(r, k, na).items():
                    m[v] = m.get(v, 0) + w
            merged[k] = m
        first = members[0].get("attrs") or {}
        ann = {}
        for k, v in first.items():
            if k.startswith("merged_") or k == "count" or k in weight_attrs(case):
                continue
            if all(k in (r.get("attrs") or {}) and rtid(case, r, (r.get("attrs") or {})[k]) == rtid(case, members[0], v) for r in members):
                ann[k] = render(v)
        out.append(proj(key[0], key[1], total, merged, ann))
    return sorted(out)


def mixed_type_cats(case):
    """category attributes that carry the same printed value under two different typed values in two records"""
    res = set()
    for c in case["cats"]:
        seen = {}
        for r in case["recs"]:
            a = r.get("attrs") or {}
            if c in a:
                seen.setdefault(sprint(a[c]), set()).add(rtid(case, r, a[c]))
        if any(len(t) > 1 for t in seen.values()):
            res.add(c)
    return res


def weighted(case):
    return any(":" in d for d in case["stats"])


def proj(seq, catvals, count, merged, ann):
    return (seq, tuple(catvals), count,
            tuple(sorted((k, tuple(sorted(m.items()))) for k, m in merged.items())),
            tuple(sorted(ann.items())))


def observed(case, o):
    """projection of the implementation's output records (sorted)"""
    cats, stats, na = case["cats"], case["stats"], case["na"]
    res = []
    for r in o["recs"]:
        ann = {k: v for k, v in (r.get("ann") or {}).items() if k != "definition" or v != '""'}
        cv = tuple(unrender(ann[c]) if c in ann else na for c in cats)
        # (an attribute used as a weight is rewritten by GetIntAttribute: its survival is not part of the claim)
        ann = {k: v for k, v in ann.items() if k not in weight_attrs(case)}
        merged = {k: (r.get("merged") or {}).get(k) for k in set(stats)}
        merged = {k: (m if m is not None else {"<absent>": -1}) for k, m in merged.items()}
        res.append(proj(r["seq"], cv, r["count"], merged, ann))
    return sorted(res)


# ----------------------------------------------------------------------------------------------- generators
KEYS = ["sample", "tag", "w", "x"]


def gen_multiset(rng, big=False, wide=False):
    nseq = rng.choice([1, 1, 2, 3, 4, 6, 12] if not big else [8, 20, 40])
    seqs = set()
    # wide: also sequences longer than one line of a chunk file (60 letters per FASTA line) and IUPAC ambiguity codes
    lens = SEQ_POOL_LEN + ([59, 60, 61, 120, 121, 200] if wide else [])
    alpha = rng.choice(["acgt", "acgt", "acgtnryswkm"]) if wide else "acgt"
    while len(seqs) < nseq:
        L = rng.choice(lens)
        seqs.add("".join(rng.choice(alpha) for _ in range(L)))
    seqs = sorted(seqs)
    if wide and rng.random() < 0.3:
        # the same nucleotides in another case are the same sequence
        seqs += [x.upper() for x in seqs[:2]] + [seqs[0].capitalize()]
    nrec = rng.choice([0, 1, 2, 3, 5, 8, 13, 21] if not big else [40, 80, 150])
    # value kinds: string, integer, boolean; wide: also float64, list, map, null, and one attribute mixing
    # strings and numbers that print alike
    ktype = {k: rng.choice(["s", "s", "i", "b"] + (["f", "c", "c", "m"] if wide else [])) for k in KEYS}
    pools = {}
    for k in KEYS:
        if ktype[k] == "s":
            pools[k] = rng.sample(["A", "B", "C", "NA", "a b", "x1", "é", ""] + (['q"uote', "back\\slash", "tab\there", "{brace}", "a;b=c"] if wide else []),
                                  rng.choice([1, 2, 3]))
        elif ktype[k] == "i":
            pools[k] = rng.sample([0, 1, 2, 7, 100, -3], rng.choice([1, 2, 3]))
        elif ktype[k] == "f":
            pools[k] = rng.sample([0.5, 2.5, 3.25, 7], rng.choice([1, 2, 3]))
        elif ktype[k] == "c":
            pools[k] = rng.sample([["a", "b"], ["a"], [], [1, "x"], {"p": 1}, {"p": 2, "q": "z"}, None, "[a]"], rng.choice([1, 2, 3]))
        elif ktype[k] == "m":
            pools[k] = rng.sample([1, "1", 2, "2", True, "true"], rng.choice([2, 3, 4]))
        else:
            pools[k] = [True, False]
    pres = {k: rng.choice([0.0, 0.5, 0.8, 1.0]) for k in KEYS}
    mergedp = {k: rng.choice([0.0, 0.0, 0.3, 0.7]) for k in KEYS}
    recs = []
    qualp = rng.choice([0.0, 0.0, 0.0, 0.5, 1.0])
    wtp = rng.choice([0.0, 0.6, 1.0])
    wpool = rng.choice([[0, 1, 2, 9], [0, 1, 2, 9], [1, 2, 2.5, "3", -2, True]] if wide else [[0, 1, 2, 9]])
    nonpos = wide and rng.random() < 0.12
    wdesc = rng.random() < 0.5
    # how numbers are stored: Go int (OBI-format headers, the default), float64 (JSON headers), or both in one data set
    nfmode = rng.choice(["int", "int", "float", "float", "mixed"]) if wide else "int"
    for i in range(nrec):
        r = dict(id="r%d" % (i + 1), seq=rng.choice(seqs), attrs={}, merged={}, mk=rng.choice(["stats", "int", "iface"]))
        if nfmode == "float" or (nfmode == "mixed" and rng.random() < 0.5):
            r["nf"] = True
        if rng.random() < qualp:
            r["qual"] = "".join(rng.choice("5?I") for _ in r["seq"])
        if rng.random() < wtp:
            r["attrs"]["wt"] = rng.choice(wpool)
        c = rng.random()
        r["count"] = 0 if c < 0.35 else (1 if c < 0.55 else rng.choice([2, 3, 5, 10, 1000]))
        if nonpos and rng.random() < 0.4:
            r["ccount"] = rng.choice([0, 0, -1, -5, 1, 3])
        for k in KEYS:
            if rng.random() < pres[k]:
                r["attrs"][k] = rng.choice(pools[k])
            if rng.random() < mergedp[k]:
                # an already merged record: a map whose weights sum to the count (usually)
                n = rng.choice([1, 1, 2, 3])
                vs = rng.sample(sorted({sprint(v) for v in pools[k]} | {"NA", "Z"}), min(n, len({sprint(v) for v in pools[k]} | {"NA", "Z"})))
                tot = max(rcount(r), 0)
                m = {}
                for j, v in enumerate(vs):
                    w = tot if j == len(vs) - 1 else rng.randrange(0, tot + 1)
                    if rng.random() < 0.1:
                        w += 1
                    tot = max(0, tot - w)
                    if w > 0:
                        m[v] = w
                if wide and rng.random() < 0.1:
                    m = {} if rng.random() < 0.5 else {vs[0]: rcount(r)}     # empty map / single value
                if m or wide:
                    r["merged"][k + ":wt" if wdesc and k == "sample" else k] = m
        recs.append(r)
    return recs


def gen_config(rng, disk=None):
    ncat = rng.choice([0, 0, 1, 1, 2, 3])
    cats = rng.sample(KEYS + ["nokey"], ncat)
    nst = rng.choice([0, 1, 1, 2])
    stats = rng.sample(KEYS + ["nokey"], nst)
    for i in range(len(stats)):
        if rng.random() < 0.3:
            stats[i] = stats[i] + rng.choice([":wt", ":wt", ":nokey", ":tag"])      # weighted statistics
    if stats and rng.random() < 0.1:
        stats.append(stats[0].partition(":")[0] + ("" if ":" in stats[0] else ":wt"))   # the same key with and without weight
    # (an attribute used as a weight is rewritten by GetIntAttribute — 3.25 becomes 3 —: using the same attribute as a
    #  category at the same time is not driven)
    stats = [d if d.partition(":")[2] not in cats else d.partition(":")[0] + ":wt" for d in stats]
    # (likewise an attribute used as a weight and as the key of another -m: which of the two reads it first depends on the
    #  range over a Go map)
    skeys = {d.partition(":")[0] for d in stats}
    stats = [d if d.partition(":")[2] not in skeys else d.partition(":")[0] + ":wt" for d in stats]
    if cats and rng.random() < 0.1:
        cats.insert(rng.randrange(len(cats) + 1), rng.choice(cats))       # the same category given twice
    if stats and rng.random() < 0.1:
        stats.append(rng.choice(stats))                                    # the same -m twice
    return dict(cats=cats, stats=stats, na=rng.choice(["NA", "NA", "NA", "none", "A", "", "1", "true"]),
                nosingleton=rng.random() < 0.3)


def gen_sched(rng, disk=None):
    return dict(disk=(rng.random() < 0.35) if disk is None else disk, chunks=rng.choice([1, 2, 7, 100, 1000]),
                workers=rng.randrange(1, 9), batch=rng.choice([1, 2, 3, 5, 50]), dbatch=rng.choice([0, 0, 1, 2, 3]),
                opthist=rng.choice([0, 0, 1]))


def R(id, seq, count=0, attrs=None, merged=None, mk="stats"):
    return dict(id=id, seq=seq, count=count, attrs=attrs or {}, merged=merged or {}, mk=mk)


def C(recs, cats=(), stats=(), na="NA", nosingleton=False, disk=False, chunks=2, workers=2, batch=2, dbatch=0, tag=None):
    return dict(recs=recs, cats=list(cats), stats=list(stats), na=na, nosingleton=nosingleton, disk=disk, chunks=chunks,
                workers=workers, batch=batch, dbatch=dbatch, tag=tag)


HASH_COLLISIONS = [
    ("aggtgaaggaaccaacgttgacatgcgtgg", "gcccaaaatggttcaggtggccgccagtag"), ("cccgccagcggcgcgccgaagtgctgcttt", "tggtcgattaccctgttgcgcgctcgttga"),   # crc32 (IEEE)
    ("tgacggatgagagtctgacgggggaagggt", "tttgtagcataacgggaggccgctcgtctc"), ("ttattaggtcctattccacttgataatcag", "gcatgatacacagctccatgaccaggagcc"),   # crc32c
    ("aatgtacaatcg", "cccctattgcaa"), ("tctgcgtcgcac", "ctttccgccgga"),                                                                         # adler32
    ("cgaaagggcgacgcctagaaaattgctcaa", "tcatgcgctgtactctatacgctatttaat"), ("caatccaagtaagatgttgatccaggagac", "aaatcgtgcttcagccacattggactgcct"),   # fnv32
    ("ccaccctggcagattagcatgtatttgaca", "gagaaactaaagttgtgcgcacgccgtgtc"), ("gtgagggccttctaaaaacagataattaaa", "tcagtagatctagcgatactcctgtggtgg"),   # fnv32a
]


def corpus():
    cs = []
    a = [R("r1", "acgt", 0, dict(sample="A")), R("r2", "acgt", 3, dict(sample="B")), R("r3", "acgt", 1, dict(sample="A")),
         R("r4", "ttt", 0, dict(sample="A")), R("r5", "acgt", 2)]
    for disk in (False, True):
        cs.append(C(a, disk=disk, tag="plain"))
        cs.append(C(a, stats=["sample"], disk=disk, tag="merge"))
        cs.append(C(a, cats=["sample"], disk=disk, tag="cat"))
        cs.append(C(a, cats=["sample"], stats=["sample"], disk=disk, nosingleton=True, tag="cat+merge+nosingleton"))
        cs.append(C(a, cats=["sample"], na="A", disk=disk, tag="na-collides-with-a-value"))
    # already merged inputs, the three Go map types
    for mk in ("stats", "int", "iface"):
        b = [R("r1", "acgt", 5, dict(sample="A"), dict(sample={"A": 2, "B": 3}), mk), R("r2", "acgt", 0, dict(sample="B")),
             R("r3", "acgt", 4, {}, dict(sample={"B": 4}), mk), R("r4", "gg", 2, {}, dict(sample={"C": 2}), mk)]
        cs.append(C(b, stats=["sample"], tag="already-merged-" + mk))
        cs.append(C(list(reversed(b)), stats=["sample"], tag="already-merged-rev-" + mk))
        cs.append(C(b, stats=["sample"], disk=True, tag="already-merged-disk-" + mk))
    # singletons at every level
    s = [R("r1", "a", 1), R("r2", "c", 0), R("r3", "g", 2), R("r4", "t", 0), R("r5", "t", 0),
         R("r6", "aa", 1, dict(tag="x")), R("r7", "aa", 1, dict(tag="y"))]
    for ch in (1, 2, 7, 100):
        cs.append(C(s, nosingleton=True, chunks=ch, tag="nosingleton"))
        cs.append(C(s, cats=["tag"], nosingleton=True, chunks=ch, tag="nosingleton-cat"))
    mx = [R("r1", "acgt", 0, dict(sample=1)), R("r2", "acgt", 0, dict(sample="1")), R("r3", "acgt", 0, {})]
    cs.append(C(mx, cats=["sample"], tag="known:mixed-type-category-dropped"))
    cs.append(C(mx, stats=["sample"], tag="mixed-type-merge"))
    wt = [R("r1", "acgt", 2, dict(sample="A", wt=5)), R("r2", "acgt", 3, dict(sample="B", wt=7)), R("r3", "acgt", 1, dict(sample="A"))]
    cs.append(C(wt, stats=["sample:wt"], tag="weighted-merge"))
    cs.append(C(wt, stats=["sample:wt", "sample"], disk=True, tag="weighted-merge-disk"))
    ql = [dict(R("r1", "acgt", 0, dict(sample="A")), qual="IIII"), R("r2", "acgt", 0, dict(sample="A")), dict(R("r3", "ttt", 2), qual="I5I")]
    cs.append(C(ql, chunks=1, tag="qualities"))
    cs.append(C(ql, chunks=1, disk=True, tag="qualities-disk"))
    # ---- round 2
    wt2 = [R("r1", "acgt", 2, dict(sample="A", wt=5)), R("r2", "acgt", 3, dict(sample="B", wt=7)), R("r3", "acgt", 1, dict(sample="A")),
           R("r4", "acgt", 1, dict(sample="A", wt=2.5)), R("r5", "acgt", 1, dict(sample="B", wt="7")), R("r6", "acgt", 4, dict(wt=-1)),
           R("r7", "acgt", 6, dict(sample="C", wt=1), {"sample:wt": {"C": 4, "Z": 0}}), R("r8", "ttt", 1, dict(sample="A", wt=3))]
    for disk in (False, True):
        cs.append(C(wt2, stats=["sample:wt"], disk=disk, tag="weighted: float / string / negative / absent weight, already merged"))
        cs.append(C(list(reversed(wt2)), stats=["sample:wt", "sample", "sample:nokey"], cats=["sample"], disk=disk, tag="weighted + cat"))
    ty = [R("r1", "acgt", 0, dict(x=["a", "b"], y=0.5, z=None, t={"p": 1})), R("r2", "acgt", 0, dict(x=["a", "b"], y=0.5, z=None, t={"p": 1})),
          R("r3", "acgt", 0, dict(x=["a"], y=2.5, t={"p": 2})), R("r4", "ACGT", 2, dict(x=["a", "b"], y=0.5, z=None, t={"p": 1})),
          R("r5", "Acgt", 2, dict(x="[a b]", y="0.5"))]
    for disk in (False, True):
        cs.append(C(ty, disk=disk, tag="typed values, case-insensitive sequence"))
        cs.append(C(ty[:4], cats=["x", "y", "z", "t"], stats=["nokey"], disk=disk, chunks=1000, tag="list / float / null / map categories, chunk-count > records"))
    cs.append(C(ty, cats=["x"], tag="known:mixed-type-category-dropped (list vs string)"))
    cs.append(C(ty[:4], stats=["y"], tag="fatal: statistics on a float"))
    cs.append(C(ty[:4], stats=["x"], tag="fatal: statistics on a list"))
    cs.append(C(ty[:2] + [R("r9", "g", 1, dict(y=0.5))], stats=["y"], nosingleton=True, cats=["z"], tag="fatal although no-singleton drops another float"))
    cs.append(C([R("r9", "g", 1, dict(y=0.5))], stats=["y"], nosingleton=True, tag="no fatal: the only float is in a dropped singleton"))
    np_ = [dict(R("r1", "acgt"), ccount=0), dict(R("r2", "acgt"), ccount=0), dict(R("r3", "acgt"), ccount=-4), R("r4", "acgt", 5), dict(R("r5", "tt"), ccount=0)]
    cs.append(C(np_, stats=["sample"], tag="counts 0 / negative"))
    cs.append(C(np_, stats=["sample"], disk=True, tag="counts 0 / negative, disk"))
    es = [R("r1", "", 0, dict(sample="A")), R("r2", "", 2, dict(sample="B")), R("r3", "a", 0, dict(sample="A")), R("r4", "", 0, {})]
    cs.append(C(es, stats=["sample"], chunks=7, tag="records without nucleotides"))
    cs.append(C(es, cats=["sample"], nosingleton=True, chunks=7, tag="records without nucleotides, categories"))
    cs.append(C(es, stats=["sample"], chunks=7, disk=True, tag="records without nucleotides on disk: refused by the chunk reader"))
    # distinct sequences with equal 32-bit checksums (crc32 IEEE, crc32c, adler32, fnv32, fnv32a; found by a birthday
    # search): a classifier keyed by a hash of the sequence instead of the sequence merges them
    hc = []
    for k, (x, y) in enumerate(HASH_COLLISIONS):
        hc += [R("hx%d" % k, x, 2, dict(sample="A")), R("hy%d" % k, y, 1, dict(sample="B")), R("hz%d" % k, x, 1, dict(sample="B"))]
    for disk in (False, True):
        cs.append(C(hc, stats=["sample"], disk=disk, chunks=1, tag="hash-colliding sequences"))
        cs.append(C(hc, cats=["sample"], disk=disk, chunks=7, workers=4, tag="hash-colliding sequences, categories"))
    cs.append(C([], tag="empty"))
    cs.append(C([R("r1", "acgt")], tag="one"))
    cs.append(C([R("r1", "acgt")], nosingleton=True, tag="one-dropped"))
    return cs


BAD_MERGED = ["garbage", ["A", 2], 7, None, {"A": 2.5, "B": 1.0}, {"Z": 3}, {}]


def bad_merged(rng, recs, stats):
    """input class: a merged_<slot> attribute of a requested slot that is not a map of integers (string, list, number,
    null: the record counts as a raw one; map of floats: truncated) on a few records that carry no map for the slot"""
    if not stats or not recs:
        return
    d = rng.choice(stats)
    for r in rng.sample(recs, min(len(recs), rng.choice([1, 2, 3]))):
        if d not in (r.get("merged") or {}):
            r["badmerged"] = {d: rng.choice(BAD_MERGED)}


def gen_cases(ctx, nms, nperm, big=0):
    rng = ctx.rng
    cases = corpus()
    groups = []    # indices of cases that must give the same projection
    for i in range(nms + big):
        recs = gen_multiset(rng, big=(i >= nms), wide=(i % 2 == 1))
        cfg = gen_config(rng)
        if fatal_expected(dict(cfg, recs=recs)) and rng.random() < 0.8:
            cfg["stats"] = []           # keep most of the wide multisets for the accounting
        if i % 2 == 1 and rng.random() < 0.25:
            bad_merged(rng, recs, cfg["stats"])
        g = []
        for p in range(nperm):
            rr = list(recs)
            if p == 1:
                rr.reverse()
            elif p > 1:
                rng.shuffle(rr)
            c = dict(cfg, recs=rr, **gen_sched(rng, disk=(True if p == nperm - 1 and rng.random() < 0.5 else None)))
            if fatal_expected(c):
                c["disk"] = False       # (a stopped on-disk run leaves its temporary directory behind)
            if mixed_numbers(c):
                c["disk"] = False       # (through the chunk files every number becomes a float64: see the CLI witness mixed-headers)
            g.append(len(cases))
            cases.append(c)
        groups.append(g)
    return cases, groups


# ----------------------------------------------------------------------------------------------- Coq rendering
class Intern:
    def __init__(self):
        self.t = {}

    def __call__(self, s):
        if s not in self.t:
            self.t[s] = len(self.t) + 1
        return self.t[s]


class TermPool:
    """Typed values and records are defined once per generated Coq file (V<n>, R<n>) and referred to by name: the
    arrival orders of one multiset share their records, and elaborating the literals dominates the evaluation time."""
    def __init__(self):
        self.I = Intern()
        self.names = {}
        self.defs = []

    def name(self, prefix, term):
        if term not in self.names:
            self.names[term] = "%s%d" % (prefix, len(self.names) + 1)
            self.defs.append("Definition %s := %s." % (self.names[term], term))
        return self.names[term]

    def preamble(self):
        return IMPORTS + "\n".join(self.defs) + "\n"


def correspond_sharded(ctx, label, items, build, shard, fn="mismatches"):
    """ctx.correspond on shards that each carry their own table of shared value / record definitions"""
    from concurrent.futures import ThreadPoolExecutor

    def job(k):
        pool = TermPool()
        terms = [build(c, o, pool) for c, o in items[k:k + shard]]
        bad, err = ctx.correspond("%s_%d" % (label, k // shard), pool.preamble(), terms, shard=len(terms) + 1, fn=fn)
        return k, bad, err
    with ThreadPoolExecutor(14) as ex:
        res = list(ex.map(job, range(0, len(items), shard)))
    errs = [err for _, bad, err in res if bad is None]
    if errs:
        return None, errs[0]
    return sorted(k + i for k, bad, _ in res for i in bad), None


def nlist(l):
    return "[" + "; ".join(str(x) for x in l) + "]"


def seq_term(s):
    return nlist(list(s.encode()))


def stat_term(I, m):
    return "[" + "; ".join("(%d, (%d)%%Z)" % (I(v), w) for v, w in sorted(m.items())) + "]"


def val_term(I, t, pool=None):
    """typed value as the Go code sees it (c06Typed): mkval tag print exact stat int"""
    term = "(mkval %d %d %d %s %s)" % (t["tag"], I("s:" + t["print"]), I("s:" + t["exact"]),
                                       "0" if t["stat"] is None else str(I("s:" + t["stat"])),
                                       "None" if t["int"] is None else "(Some (%d)%%Z)" % t["int"])
    return pool.name("V", term) if pool else term


def rec_term(I, t, pool=None, drop=()):
    """model record from the typed view of a record (input echo `tin`, or a re-read chunk record); drop: requested slots
    (an attribute merged_<slot> that is not a map of numbers is overwritten by StatsOn: the record is a raw one)"""
    ann = "[" + "; ".join("(%d, %s)" % (I("k:" + k), val_term(I, v, pool)) for k, v in sorted((t.get("attrs") or {}).items())
                          if not (k.startswith("merged_") and k[7:] in drop)) + "]"
    mg = "[" + "; ".join("(%d, %s)" % (I("k:" + k), stat_term(lambda v: I("s:" + v), m)) for k, m in sorted((t.get("merged") or {}).items())) + "]"
    term = "mkrec %s (%d)%%Z %s %s" % (seq_term(t["seq"]), t["count"], ann, mg)
    return pool.name("R", "(" + term + ")") if pool else term


def out_term(I, case, r, cats, stats, ign=()):
    """projection of an output record of the implementation: sequence, printed category values, count, requested
    merged maps, every other annotation as (type tag, exact value)"""
    full = r.get("tann") or {}
    tann = {k: v for k, v in full.items() if not (k == "definition" and v["print"] == "") and k not in ign}
    cv = [I("s:" + (full[c]["print"] if c in full else case["na"])) for c in cats]
    mg = "[" + "; ".join("(%d, %s)" % (I("k:" + k), stat_term(lambda v: I("s:" + v), (r.get("merged") or {}).get(k) or {})) for k in stats) + "]"
    an = "[" + "; ".join("(%d, (%d, %d))" % (I("k:" + k), v["tag"], I("s:" + v["exact"])) for k, v in sorted(tann.items())) + "]"
    return "mkout %s %s (%d)%%Z %s %s" % (seq_term(r["seq"]), nlist(cv), r["count"], mg, an)


def ds_term(I, stats):
    items = []
    for d in sorted(set(stats)):
        k, _, w = d.partition(":")
        items.append("(%d, (%d, %s))" % (I("k:" + d), I("k:" + k), "Some %d" % I("k:" + w) if ":" in d else "None"))
    return "[" + "; ".join(items) + "]"


def case_term(case, o, pool):
    I = pool.I
    cats = nlist([I("k:" + c) for c in case["cats"]])
    sk = sorted(set(case["stats"]))
    stats = nlist([I("k:" + c) for c in sk])
    ds = ds_term(I, case["stats"])
    na = I("s:" + case["na"])
    ign = sorted(weight_attrs(case))
    # on disk the dereplication works on the records as re-read from the chunk files (the model's rt is the identity on
    # them); that they are the records sent to the chunks is roundtrip_check's business
    src = o.get("reread") if case["disk"] and o.get("kind") == "ok" else o.get("tin")
    recs = "[" + "; ".join(rec_term(I, t, pool, drop=sk) for t in src or []) + "]"
    crash = o.get("kind") == "fatal"
    outs = "[" + ";\n   ".join(out_term(I, case, r, case["cats"], sk, ign) for r in (o.get("recs") or [])) + "]"
    return "mkcase %d %d %s %s %s %d %s\n  %s\n  %s %s\n  %s" % (
        2 if case["disk"] else 0, max(case["chunks"], 1), cats, ds, stats, na, "true" if case["nosingleton"] else "false", recs,
        nlist([I("k:" + k) for k in ign]), "true" if crash else "false", outs)


def roundtrip_check(case, o):
    """The hypothesis of C06_disk_equals_memory on this case: every chunk file, as re-read by the implementation, holds
    exactly the records sent to that chunk, on the projection the model works on (sequence, Count(), typed annotations,
    merged maps). Chunk membership is recomputed here (CRC32 of the nucleotides modulo the chunk count)."""
    import zlib, copy
    n = max(case["chunks"], 1)
    want, got = {}, {}
    I = Intern()

    def norm(t):
        # a number written from a Go int is re-read as a float64 (today's JSON header reader) — or the other way round
        # should the reader store integral numbers as int: the hypothesis is checked up to this representation, and
        # literally when nothing had to be retagged
        t = copy.deepcopy(t)
        for v in t["attrs"].values():
            if v["tag"] == 1:
                v["tag"] = 2
        return rec_term(I, t)
    lit_w, lit_g = [], []
    for t in o.get("tin") or []:
        want.setdefault("chunk_%d" % (zlib.crc32(t["seq"].encode()) % n), []).append(norm(t))
        lit_w.append(rec_term(I, t))
    for t in o.get("reread") or []:
        got.setdefault(t["chunk"], []).append(norm(t))
        lit_g.append(rec_term(I, t))
    bad = [c for c in sorted(set(want) | set(got)) if sorted(want.get(c, [])) != sorted(got.get(c, []))]
    return len(want), bad, want, got, 0 if sorted(lit_w) == sorted(lit_g) else 1


# ----------------------------------------------------------------------------------------------- obidemerge (worker level)
def demerge_keys(case):
    """the slot first, then every other merged_* key carried by an input record"""
    ks = sorted({k for r in case["recs"] for k in (r.get("merged") or {})} - {case["dkey"]})
    return [case["dkey"]] + ks


def expected_demerge(case):
    """one record per value of merged_<k> with count = weight (SetCount: at least 1), attribute = value (the attribute the
    slot is about: `key` for a slot key:weight), slot removed"""
    k, keys, out = case["dkey"], demerge_keys(case), []
    attr = k.partition(":")[0]      # the slot merged_<key:weight> holds values of the attribute <key>
    for r in case["recs"]:
        attrs = {a: render(v) for a, v in (r.get("attrs") or {}).items()}
        mg = {kk: (r.get("merged") or {}).get(kk, {}) for kk in keys}
        if k in (r.get("merged") or {}):
            for v, w in r["merged"][k].items():
                out.append(proj(r["seq"].lower(), (), max(w, 1), dict(mg, **{k: {}}), dict(attrs, **{attr: render(v)})))
        else:
            out.append(proj(r["seq"].lower(), (), rcount(r), mg, attrs))
    return sorted(out)


def observed_demerge(case, o):
    keys = demerge_keys(case)
    res = []
    for r in o["recs"]:
        ann = {a: v for a, v in (r.get("ann") or {}).items() if a != "definition" or v != '""'}
        res.append(proj(r["seq"], (), r["count"], {kk: (r.get("merged") or {}).get(kk) or {} for kk in keys}, ann))
    return sorted(res)


def demerge_term(case, o, pool):
    I = pool.I
    keys = demerge_keys(case)
    stats = nlist([I("k:" + c) for c in keys])
    recs = "[" + "; ".join(rec_term(I, t, pool) for t in o.get("tin") or []) + "]"
    outs = "[" + ";\n   ".join(out_term(I, dict(na="NA"), r, [], keys) for r in o["recs"]) + "]"
    return "mkcase 1 1 [] %s %s %d false\n  %s\n  [] false\n  %s" % (ds_term(I, [case["dkey"]]), stats, I("s:NA"), recs, outs)


def demerge_check(ctx, broken, n):
    rng = ctx.rng
    cases = []
    for i in range(n):
        recs = gen_multiset(rng, wide=(i % 2 == 1))
        for r in recs:
            r.pop("qual", None)
        cases.append(dict(op="demerge", dkey=rng.choice(KEYS + ["sample:wt"]), recs=recs, echo=True))
    obs = ctx.vh_robust("c06", cases, timeout=300, one_timeout=20)
    terms, nviol = [], 0
    for i, (c, o) in enumerate(zip(cases, obs)):
        if o.get("kind") != "ok":
            ctx.violation("demerge_%s_%d" % (o.get("kind"), i), dict(property="C06", kind="demerge-" + str(o.get("kind")), case=c, implementation=o))
            continue
        got, exp = observed_demerge(c, o), expected_demerge(c)
        if got != exp:
            nviol += 1
            if nviol <= 2:
                ctx.violation("demerge_oracle_%d" % i, dict(property="C06", kind="demerge-direct-oracle", case=c, implementation=got, expected=exp))
        terms.append((i, (c, o)))
    bad, err = correspond_sharded(ctx, "demerge", [t for _, t in terms], demerge_term, 60)
    if bad is None:
        broken.append(dict(kind="correspondence", detail=err))
    elif bad and not ctx.violations:
        i = terms[bad[0]][0]
        broken.append(dict(kind="correspondence", name="corr:C06/demerge", first_diverging_case=cases[i], implementation=obs[i], n_diverging=len(bad)))
    ctx.cov["demerge_worker_cases"] = len(cases)
    ctx.cov["demerge_model_vs_impl_mismatches"] = len(bad or [])
    return len(cases)


# ----------------------------------------------------------------------------------------------- evaluation
def to_vh(c, echo=True):
    return dict({k: c[k] for k in ("recs", "disk", "chunks", "workers", "cats", "stats", "na", "nosingleton", "batch", "dbatch")}, echo=echo,
                opthist=c.get("opthist", 0))


def weak_projection(ps):
    """what is still claimed when some count is < 1 (SetCount turns every intermediate total < 1 into 1, so that the
    count and the weights depend on the merge order): the classes"""
    return sorted((p[0], p[1]) for p in ps)


def evaluate(ctx, cases, broken, label, corr=True, slice_size=1200, echo=True):
    """evaluate_slice on slices of the cases (bounded memory: the typed echo of inputs and chunk files is dropped after use)"""
    obs_all, projs_all, mism_all = [], [], []
    for k in range(0, len(cases), slice_size):
        obs, projs, mism = evaluate_slice(ctx, cases[k:k + slice_size], broken, label, corr, base=k, echo=echo)
        for o in obs:
            o.pop("tin", None)
            o.pop("reread", None)
            for r in o.get("recs") or []:
                r.pop("tann", None)
        obs_all += obs
        projs_all += projs
        mism_all += [k + i for i in mism]
    return obs_all, projs_all, mism_all


def evaluate_slice(ctx, cases, broken, label, corr=True, base=0, echo=True):
    import time
    t0 = time.time()
    sec = ctx.cov.setdefault("seconds", {})
    obs = ctx.vh_robust("c06", [to_vh(c, echo=echo) for c in cases], timeout=900, one_timeout=40)
    sec[label + "_harness"] = round(sec.get(label + "_harness", 0) + time.time() - t0, 1)
    for i, o in enumerate(obs):
        if o.get("kind") in ("timeout", "crash"):
            # a loaded machine must not raise an alarm: the case is run again alone with a one minute deadline
            obs[i] = ctx.vh_robust("c06", [dict(to_vh(cases[i]), dl=60000)], timeout=90, one_timeout=90)[0]
    nviol = 0
    projs = []
    st = ctx.cov.setdefault("on_disk_roundtrip_hypothesis", dict(cases_checked=0, chunk_files_checked=0, chunk_files_differing=0))
    for i, (c, o) in enumerate(zip(cases, obs)):
        if fatal_expected(c):
            # StatsPlusOne refuses the value: the program stops (log.Fatalf), in the model uniq_run = None
            projs.append(None)
            if o.get("kind") != "fatal":
                nviol += 1
                if nviol <= 3:
                    ctx.violation("%s_nofatal_%d" % (label, base + i), dict(property="C06", kind="statistics-on-a-non-categorical-value-accepted", case=c, implementation=o))
            continue
        if o.get("kind") != "ok":
            projs.append(None)
            nviol += 1
            if nviol <= 3:
                ctx.violation("%s_%s_%d" % (label, o.get("kind"), base + i), dict(property="C06", kind="implementation-" + str(o.get("kind")), case=c, implementation=o))
            continue
        if c["disk"] and o.get("tin") is not None:
            nfiles, badc, want, got_, retagged = roundtrip_check(c, o)
            st["cases_checked"] += 1
            st["cases_literal"] = st.get("cases_literal", 0) + (retagged == 0)
            st["cases_up_to_int_to_float64"] = st.get("cases_up_to_int_to_float64", 0) + (retagged > 0)
            st["chunk_files_checked"] += nfiles
            st["chunk_files_differing"] += len(badc)
            if badc or o.get("nfiles", 0) != nfiles:
                nviol += 1
                if nviol <= 3:
                    ctx.violation("%s_roundtrip_%d" % (label, base + i), dict(
                        property="C06", kind="chunk-file-roundtrip", note="hypothesis of C06_disk_equals_memory (C02 round trip on the projected fields) fails on this case",
                        case=c, chunks=badc, written={k: want.get(k) for k in badc}, reread={k: got_.get(k) for k in badc},
                        files_read=o.get("nfiles"), files_expected=nfiles))
        got, exp = observed(c, o), expected(c)
        projs.append(got)
        if nonpositive(c):
            projs[-1] = None
            # the classes, and C06_output_counts_positive: SetCount leaves no count below 1 in the output
            if (not c["nosingleton"] and not mixed_type_cats(c) and weak_projection(got) != weak_projection(exp)) or any(p[2] < 1 for p in got):
                nviol += 1
                if nviol <= 3:
                    ctx.violation("%s_classes_%d" % (label, base + i), dict(property="C06", kind="direct-oracle-classes", case=c, implementation=got, expected=exp))
            continue
        mixed = mixed_type_cats(c)
        if got != exp and mixed:
            # known finding: the category attribute itself is dropped from the merged record (typed comparison in
            # BioSequence.Merge), everything else must still be as the property demands
            strip = lambda ps: sorted((p[0], p[2], p[3], tuple(kv for kv in p[4] if kv[0] not in mixed)) for p in ps)
            if strip(got) == strip(exp) and ctx.kf_match("mixed-type-category-dropped"):
                ctx.known("mixed-type-category-dropped", KNOWN_MIXED)
                projs[-1] = None
                continue
        if got != exp:
            nviol += 1
            if nviol <= 3:
                ctx.violation("%s_oracle_%d" % (label, base + i), dict(property="C06", kind="direct-oracle", case=c, implementation=got, expected=exp,
                                                              total_in=sum(rcount(r) for r in c["recs"]), total_out=sum(p[2] for p in got)))
    mism = []
    if corr:
        # the model covers weighted statistics, mixed types, refused values and counts < 1 (SetCount)
        # (with a count < 1 the result depends on the merge order inside a class: the model merges in arrival order, which
        #  the implementation does as long as a batch has at most 12 records — sort.Sort is an insertion sort up to there)
        idx = [i for i, o in enumerate(obs) if o.get("kind") in ("ok", "fatal") and o.get("tin") is not None and not unreadable_chunk(cases[i])
               and not (nonpositive(cases[i]) and len(cases[i]["recs"]) > 12)]
        t0 = time.time()
        bad, err = correspond_sharded(ctx, label, [(cases[i], obs[i]) for i in idx], case_term, 40)
        sec[label + "_coq"] = round(sec.get(label + "_coq", 0) + time.time() - t0, 1)
        mc = ctx.cov.setdefault("model_cases_" + label, {})
        for key, val in dict(evaluated=len(idx), refused_values=sum(1 for i in idx if obs[i].get("kind") == "fatal"),
                             mixed_types=sum(1 for i in idx if mixed_type_cats(cases[i])),
                             weighted=sum(1 for i in idx if weighted(cases[i])), on_disk=sum(1 for i in idx if cases[i]["disk"]),
                             counts_below_1=sum(1 for i in idx if nonpositive(cases[i])),
                             int_and_float64_mixed=sum(1 for i in idx if mixed_numbers(cases[i]))).items():
            mc[key] = mc.get(key, 0) + val
        if bad is None:
            broken.append(dict(kind="correspondence", detail=err))
        else:
            mism = [idx[i] for i in bad]
    return obs, projs, mism


# ----------------------------------------------------------------------------------------------- in-memory workers
def race_cases(rng, n):
    """Many records, few category values, 8 in-memory workers over many hash chunks: state shared by mistake between
    the workers (classifier tables) shows as classes cut in two. Judged by the direct oracle only."""
    cs = []
    for i in range(n):
        seqs = ["".join(rng.choice("acgt") for _ in range(12)) for _ in range(rng.choice([100, 300]))]
        vals = ["A", "B", "C", "D", "E", "F"][:rng.choice([3, 6])]
        recs = []
        for j in range(rng.choice([2000, 4000])):
            r = R("r%d" % j, rng.choice(seqs), rng.choice([0, 0, 2]), dict(sample=rng.choice(vals)))
            if rng.random() < 0.5:
                r["attrs"]["tag"] = rng.choice(["x", "y"])
            recs.append(r)
        cs.append(C(recs, cats=rng.choice([["sample"], ["sample", "tag"]]), stats=["sample"], disk=False, chunks=rng.choice([7, 100]),
                    workers=8, batch=50, dbatch=rng.choice([0, 10])))
    return cs


# ----------------------------------------------------------------------------------------------- on-disk mode under processor contention
def stress_cases(rng, n):
    cs = []
    for i in range(n):
        recs = gen_multiset(rng, big=True)
        cfg = gen_config(rng)
        cs.append(dict(cfg, recs=recs, disk=True, chunks=rng.choice([1, 1, 2, 7]), workers=rng.randrange(1, 9), batch=rng.choice([5, 50]),
                       dbatch=rng.choice([1, 2, 0]), procs=rng.choice([0, 2, 4])))
    return cs


def disk_stress(ctx, nproc, ncase, cases=None, report=True, name="disk_stress"):
    """The on-disk mode writes every chunk to a file and reads the files back in the same process. Many harness processes run
    large on-disk cases at the same time, so that the operating system preempts the writer goroutines: a chunk file read
    before it is complete shows as lost records (or a crash on an empty file)."""
    from concurrent.futures import ThreadPoolExecutor
    cases = cases or stress_cases(ctx.rng, ncase)

    def job(j):
        obs = ctx.vh_robust("c06", [dict(to_vh(c, echo=False), procs=c.get("procs", 0), wdelay=c.get("wdelay", 0), dl=60000) for c in cases], timeout=900, one_timeout=90)
        for i, o in enumerate(obs):
            if o.get("kind") == "timeout":      # slowness is not the defect looked for: run again alone
                obs[i] = ctx.vh_robust("c06", [dict(to_vh(cases[i], echo=False), wdelay=cases[i].get("wdelay", 0), dl=120000)], timeout=150, one_timeout=150)[0]
        # only the failing observations are kept (memory)
        return [(i, o) for i, o in enumerate(obs) if not (o.get("kind") == "ok" and observed(cases[i], o) == exp[i])]
    exp = [expected(c) for c in cases]
    with ThreadPoolExecutor(nproc) as ex:
        res = list(ex.map(job, range(nproc)))
    nbad = 0
    for j, failing in enumerate(res):
        for i, o in failing:
            c = cases[i]
            if True:
                nbad += 1
                if nbad <= 2 and report:
                    got = observed(c, o) if o.get("kind") == "ok" else o
                    ctx.violation("%s_%d_%d" % (name, j, i), dict(
                        property="C06", kind="on-disk-mode-loses-records-under-contention", stress=dict(processes=nproc),
                        note="schedule dependent: replay runs the case in %d concurrent processes" % nproc,
                        case=c, implementation=got, expected=expected(c), total_in=sum(rcount(r) for r in c["recs"]),
                        total_out=sum(p[2] for p in got) if isinstance(got, list) else None))
    return nproc * len(cases), nbad


# ----------------------------------------------------------------------------------------------- CLI: obiuniq | obidemerge | obiuniq
def fasta_of(recs):
    lines = []
    for r in recs:
        ann = dict(r.get("attrs") or {})
        if r.get("count", 0) > 0:
            ann["count"] = r["count"]
        for k, m in (r.get("merged") or {}).items():
            ann["merged_" + k] = m
        for k, v in (r.get("badmerged") or {}).items():
            ann["merged_" + k] = v
        lines.append(">%s %s\n%s\n" % (r["id"], json.dumps(ann, ensure_ascii=False), r["seq"]))
    return "".join(lines)


def parse_fasta(txt):
    recs = []
    for block in ("\n" + txt).split("\n>")[1:]:
        head, _, body = block.partition("\n")
        rid, _, rest = head.partition(" ")
        ann = {}
        rest = rest.strip()
        if rest.startswith("{"):
            dec = json.JSONDecoder()
            ann, _ = dec.raw_decode(rest)
        recs.append(dict(id=rid, seq="".join(body.split()), ann=ann))
    return recs


def cli_proj(recs, cats, stats, na, ign=()):
    res = []
    for r in recs:
        ann = dict(r["ann"])
        count = ann.pop("count", 1)
        merged = {k: ann.pop("merged_" + k, {"<absent>": -1}) for k in set(stats)}
        # (a singleton is written with the map it came with: a map of non-integral numbers — outside the quantifier —
        #  is read as StatsOn reads it, through InterfaceToInt)
        merged = {k: ({a: int(b) for a, b in m.items()} if numeric_map(m) else m) for k, m in merged.items()}
        ann = {k: render(v) for k, v in ann.items() if not k.startswith("merged_") and k != "definition"}
        cv = tuple(unrender(ann[c]) if c in ann else na for c in cats)
        ann = {k: v for k, v in ann.items() if k not in ign}
        res.append(proj(r["seq"], cv, count, merged, ann))
    return sorted(res)


def run_cli(bindir, args, inp, timeout=60):
    p = subprocess.run([os.path.join(bindir, args[0])] + args[1:], input=inp.encode(), capture_output=True, timeout=timeout)
    return p.returncode, p.stdout.decode("utf8", "replace"), p.stderr.decode("utf8", "replace")


def cli_one(ctx, bindir, case, name, report=True):
    """one CLI case: obiuniq with the case's options agrees with the oracle; when the case has exactly one merge attribute
    and no category, obiuniq -m k | obidemerge -d k | obiuniq -m k gives the same sequences, counts and merged maps."""
    args = ["obiuniq", "--chunk-count", str(case["chunks"]), "--max-cpu", str(case["workers"]), "--na-value", case["na"]]
    for k in case["stats"]:
        args += ["-m", k]
    for k in case["cats"]:
        args += ["-c", k]
    if case["nosingleton"]:
        args.append("--no-singleton")
    if not case["disk"]:
        args.append("--in-memory")
    src = fasta_of(case["recs"])
    # (weighted descriptors k:w are outside the statement: obidemerge -d k:w names the attribute "k:w" and the second pass
    #  would weigh by w instead of the count)
    demerge = len(case["stats"]) == 1 and ":" not in case["stats"][0] and not case["cats"] and not case["nosingleton"]
    k = case["stats"][0] if demerge else None
    base = case["stats"][0].partition(":")[0] if case["stats"] else None
    wdemerge = (len(case["stats"]) == 1 and ":" in case["stats"][0] and not case["cats"] and not case["nosingleton"]
                and not any(base in eff_merged(r) or base in (r.get("badmerged") or {}) for r in case["recs"]))
    rc2 = rc3 = 0
    o2 = o3 = e2 = e3 = ""
    try:
        rc1, o1, e1 = run_cli(bindir, args, src)
        if demerge and rc1 == 0:
            rc2, o2, e2 = run_cli(bindir, ["obidemerge", "-d", k], o1)
            if rc2 == 0:
                rc3, o3, e3 = run_cli(bindir, args, o2)
    except subprocess.TimeoutExpired:
        rc1, o1, e1 = 124, "", "timeout"
    rp = dict(case, args=args)
    if rc1 or rc2 or rc3:
        if report:
            ctx.violation(name + "_exit", dict(property="C06", kind="cli-exit", case=rp, rc=[rc1, rc2, rc3], stderr=(e1 + e2 + e3)[-1500:]))
        return "exit %s" % [rc1, rc2, rc3]
    p1 = cli_proj(parse_fasta(o1), case["cats"], case["stats"], case["na"], weight_attrs(case))
    exp = expected(case)
    if p1 != exp:
        if report:
            ctx.violation(name + "_oracle", dict(property="C06", kind="cli-direct-oracle", case=rp, implementation=p1, expected=exp))
        return "obiuniq differs from the accounting: %s vs %s" % (p1, exp)
    if wdemerge:
        # obiuniq -m key:w | obidemerge -d key:w | obiuniq -m key : merged_key of the third pass = merged_key:w of the first
        # (a weight < 1 comes back as 1: SetCount, outside the property); the count is the total of the map
        try:
            rc2, o2, e2 = run_cli(bindir, ["obidemerge", "-d", case["stats"][0]], o1)
            a3 = [base if x == case["stats"][0] else x for x in args]
            rc3, o3, e3 = run_cli(bindir, a3, o2) if rc2 == 0 else (0, "", "")
        except subprocess.TimeoutExpired:
            rc2, o2, e2, rc3, o3, e3 = 124, "", "timeout", 0, "", ""
        if rc2 or rc3:
            if report:
                ctx.violation(name + "_exit", dict(property="C06", kind="cli-exit", case=rp, rc=[rc1, rc2, rc3], stderr=(e2 + e3)[-1500:]))
            return "exit %s" % [rc1, rc2, rc3]
        p3 = cli_proj(parse_fasta(o3), [], [base], case["na"])
        want = sorted((x[0], sum(max(w, 1) for _, w in x[3][0][1]), ((base, tuple(sorted((v, max(w, 1)) for v, w in x[3][0][1]))),)) for x in p1 if x[3][0][1])
        got3 = sorted((x[0], x[2], x[3]) for x in p3)
        if got3 != want:
            if report:
                ctx.violation(name + "_wdemerge", dict(property="C06", kind="weighted-demerge-inverse", case=rp, uniq=p1, uniq_demerge_uniq=p3, expected=want, demerged=o2[-2000:]))
            return "uniq -m k:w | demerge -d k:w | uniq -m k differs: %s vs %s" % (got3, want)
    if demerge:
        p3 = cli_proj(parse_fasta(o3), [], [k], case["na"])
        strip = lambda ps: sorted((p[0], p[2], p[3]) for p in ps)
        # counts after the round trip are the totals of the maps: identical when every input map sums to its record's count
        consistent = all(sum(m.values()) == rcount(r) for r in case["recs"] for kk, m in (r.get("merged") or {}).items() if kk == k)
        # (a class whose map is empty — inputs carrying an empty merged_<k> map, inconsistent with their count — demerges to
        #  no record at all: C06_demerge_inverse_onto has the hypothesis m1 <> [])
        a, b = strip(p3), [x for x in strip(p1) if x[2][0][1]]
        if not consistent:
            a, b = [(x[0], x[2]) for x in a], [(x[0], x[2]) for x in b]
        if a != b:
            if report:
                ctx.violation(name + "_demerge", dict(property="C06", kind="demerge-inverse", case=rp, uniq=p1, uniq_demerge_uniq=p3, demerged=o2[-2000:]))
            return "uniq|demerge|uniq differs: %s vs %s" % (p3, p1)
    return None


KNOWN_MIXED = ("obiuniq -c k drops attribute k from a merged class whose members print the same value of k "
               "under different Go types (k=1 integer vs k=\"1\" string): the output no longer shows the key of that class")


def cli_mixed_headers(ctx, bindir):
    """The known finding through the commands, and its consequence for 'independent of in-memory or on-disk mode': an
    OBI-format header gives sample=1 as a Go int, a JSON header as a float64. In memory the merged record loses the
    attribute; on disk every record goes through a chunk file (all float64) and keeps it."""
    src = '>r1 sample=1; count=2;\nacgt\n>r2 {"sample":1}\nacgt\n>r3 {"sample":1,"count":3}\nacgt\n'
    outs = {}
    for mode in ("memory", "disk"):
        try:
            rc, o, e = run_cli(bindir, ["obiuniq", "-c", "sample"] + (["--in-memory"] if mode == "memory" else []), src)
        except subprocess.TimeoutExpired:
            rc, o, e = 124, "", "timeout"
        outs[mode] = cli_proj(parse_fasta(o), ["sample"], [], "NA") if rc == 0 else [("exit", rc, e[-300:])]
    exp = [proj("acgt", ("1",), 6, {}, {"sample": "1"})]
    if outs["memory"] == exp and outs["disk"] == exp:
        return "holds"
    if outs["disk"] == exp and outs["memory"] == [proj("acgt", ("NA",), 6, {}, {})] and ctx.kf_match("mixed-type-category-dropped"):
        ctx.known("mixed-type-category-dropped", KNOWN_MIXED)
        return "known"
    ctx.violation("cli_mixed_headers", dict(property="C06", kind="cli-memory-vs-disk", input=src, args="obiuniq -c sample [--in-memory]",
                                            implementation=outs, expected=exp, case=dict(mixed_headers=True)))
    return "violation"


def cli_check(ctx, bindir, nms):
    rng = ctx.rng
    n = nbad = ndem = 0
    for i in range(nms):
        recs = gen_multiset(rng, wide=(i % 4 == 3))
        for r in recs:
            r.pop("qual", None)
            r.pop("ccount", None)
            r["nf"] = True              # through the commands every number comes from the JSON header reader
        if i % 2 == 0:
            cfg = dict(cats=[], stats=[rng.choice(KEYS) + (":wt" if i % 6 == 4 else "")], na="NA", nosingleton=False)
            ndem += 1
        else:
            cfg = gen_config(rng)
            cfg["na"] = cfg["na"] or "NA"
            cfg["stats"] = [d for d in cfg["stats"]]
        if fatal_expected(dict(cfg, recs=recs)) or mixed_type_cats(dict(cfg, recs=recs)):
            cfg["stats"], cfg["cats"] = [], [c for c in cfg["cats"] if c not in mixed_type_cats(dict(cfg, recs=recs))]
        case = dict(cfg, recs=recs, disk=rng.random() < 0.5, chunks=rng.choice([1, 2, 7, 100]), workers=rng.randrange(1, 5))
        bad = cli_one(ctx, bindir, case, "cli_%d" % i, report=(nbad < 2))
        nbad += bad is not None
        n += 1
    return n, ndem


# ----------------------------------------------------------------------------------------------- CLI glue (round 3)
def uniq_args(case):
    args = ["obiuniq", "--chunk-count", str(case["chunks"]), "--max-cpu", str(case["workers"]), "--na-value", case["na"]]
    for k in case["stats"]:
        args += ["-m", k]
    for k in case["cats"]:
        args += ["-c", k]
    if case["nosingleton"]:
        args.append("--no-singleton")
    if not case["disk"]:
        args.append("--in-memory")
    return args


def fastq_of(recs):
    out = []
    for r in recs:
        head, seq = fasta_of([r]).rstrip("\n").rsplit("\n", 1)
        out.append("@" + head[1:] + "\n" + seq + "\n+\n" + "I" * len(seq) + "\n")
    return "".join(out)


VARIANTS = ["file", "files", "gz", "files-gz", "batch-size-1", "batch-size-3", "batch-size-1000", "no-order", "force-one-cpu", "max-cpu-1",
            "out", "out-compress", "fastq", "fastq-files", "fasta-output", "chunk-count-0"]


def cli_variant_one(bindir, case, variant, tmp, cut=None):
    """obiuniq with the options of the case, the data reaching it / leaving it the way `variant` says (input as one file, as
    several files, gzip-compressed, FASTQ; --batch-size, --no-order, --force-one-cpu, --max-cpu 1; output to a file, compressed):
    the records it writes must be the accounting of the oracle whatever the way.  Returns None or what differs."""
    import gzip
    args = uniq_args(case)
    recs = case["recs"]
    text = fastq_of if variant.startswith("fastq") else fasta_of
    ext = ".fastq" if variant.startswith("fastq") else ".fasta"
    files, stdin = [], ""
    if variant in ("files", "files-gz", "fastq-files") and len(recs) >= 2:
        cut = cut or sorted({1 + (len(recs) - 1) * k // 3 for k in range(3)})
        parts = [recs[a:b] for a, b in zip([0] + cut, cut + [len(recs)]) if recs[a:b]]
    else:
        parts = [recs]
    if variant in ("file", "files", "gz", "files-gz", "fastq-files"):
        for j, part in enumerate(parts):
            fn = os.path.join(tmp, "in%d%s" % (j, ext))
            data = text(part).encode()
            if variant.endswith("gz"):
                fn += ".gz"
                data = gzip.compress(data)
            open(fn, "wb").write(data)
            files.append(fn)
    else:
        stdin = text(recs)
    if variant.startswith("batch-size-"):
        args += ["--batch-size", variant.rsplit("-", 1)[1]]
    if variant == "no-order":
        args.append("--no-order")
    if variant == "force-one-cpu":
        args.append("--force-one-cpu")
    if variant == "max-cpu-1":
        args[args.index("--max-cpu") + 1] = "1"
    if variant == "fasta-output":
        args.append("--fasta-output")
    if variant.startswith("chunk-count-"):
        args[args.index("--chunk-count") + 1] = "0"      # read as 1
    outfn = None
    if variant in ("out", "out-compress"):
        outfn = os.path.join(tmp, "out.fasta" + (".gz" if variant == "out-compress" else ""))
        if os.path.exists(outfn):
            os.remove(outfn)
        args += ["--out", outfn] + (["--compress"] if variant == "out-compress" else [])
    try:
        rc, out, err = run_cli(bindir, args + files, stdin)
    except subprocess.TimeoutExpired:
        rc, out, err = 124, "", "timeout"
    if rc:
        return "exit %d: %s" % (rc, err[-600:]), args
    if outfn:
        try:
            raw = open(outfn, "rb").read()
            out = (gzip.decompress(raw) if variant == "out-compress" else raw).decode("utf8", "replace")
        except Exception as e:
            return "output file: %r" % e, args
    got = cli_proj(parse_fasta(out), case["cats"], case["stats"], case["na"], weight_attrs(case))
    exp = expected(case)
    if got != exp:
        return dict(implementation=got, expected=exp), args
    return None, args


def cli_case(rng, i, big=False):
    recs = gen_multiset(rng, big=big, wide=(i % 4 == 3))
    for r in recs:
        r.pop("qual", None)
        r.pop("ccount", None)
        r["nf"] = True              # through the commands every number comes from the JSON header reader
    cfg = gen_config(rng)
    cfg["na"] = cfg["na"] or "NA"
    if fatal_expected(dict(cfg, recs=recs)) or mixed_type_cats(dict(cfg, recs=recs)):
        cfg["stats"], cfg["cats"] = [], [c for c in cfg["cats"] if c not in mixed_type_cats(dict(cfg, recs=recs))]
    if i % 3 == 1:
        bad_merged(rng, recs, cfg["stats"])
    return dict(cfg, recs=recs, disk=rng.random() < 0.5, chunks=rng.choice([1, 2, 7, 100]), workers=rng.randrange(1, 5))


def cli_corpus():
    a = [R("r%d" % i, "acgt" if i % 3 else "ttga", [0, 2, 1][i % 3], dict(sample="AB"[i % 2], wt=i % 4)) for i in range(1, 26)]
    b = [R("s1", "a", 1, dict(tag="x")), R("s2", "c"), R("s3", "g", 2), R("s4", "t"), R("s5", "t"), R("s6", "aa", 1, dict(tag="x")),
         R("s7", "aa", 1, dict(tag="y")), R("s8", "cc", 0, dict(tag="x", sample="A")), R("s9", "cc", 0, dict(tag="x", sample="B")), R("s10", "cc", 0, dict(tag="y"))]
    for r in a + b:
        r["nf"] = True
    return [
        # more than one batch of 10 (cmd/obitools/obiuniq sets the batch size to 10)
        dict(C(a, stats=["sample"], chunks=3, workers=2), tag="25 records = 3 input batches"),
        # -m k and -m k:w together (descriptors keyed by their full name)
        dict(C(a, stats=["sample", "sample:wt"], cats=["sample"], chunks=7, workers=3), tag="-m k -m k:w"),
        dict(C(a, stats=["sample:wt", "sample"], disk=True, chunks=1, workers=1), tag="-m k:w -m k, disk"),
        # --no-singleton with -c: records alone in their batch before the last classification level
        dict(C(b, cats=["tag"], nosingleton=True, chunks=1, workers=1), tag="--no-singleton -c"),
        dict(C(b, cats=["tag", "sample"], stats=["tag"], nosingleton=True, disk=True, chunks=100, workers=4), tag="--no-singleton -c -c, disk"),
    ]


def cli_variants(ctx, bindir, n):
    rng = ctx.rng
    tally, nbad, nrun = {}, 0, 0
    with tempfile.TemporaryDirectory(prefix="c06cli_") as tmp:
        cases = [(c, VARIANTS if not ctx.quick else rng.sample(VARIANTS, 5)) for c in cli_corpus()]
        cases += [(cli_case(rng, i, big=(i % 3 == 0)), rng.sample(VARIANTS, 3)) for i in range(n)]
        for i, (case, vs) in enumerate(cases):
            for v in vs:
                bad, args = cli_variant_one(bindir, case, v, tmp)
                nrun += 1
                tally[v] = tally.get(v, 0) + 1
                if bad:
                    nbad += 1
                    if nbad <= 2:
                        ctx.violation("cli_variant_%d_%s" % (i, v), dict(property="C06", kind="cli-variant", variant=v, what=bad,
                                                                         case=dict(case, args=args, variant=v)))
    ctx.cov["cli_variants"] = dict(runs=nrun, failures=nbad, by_variant=tally,
                                   records=tally_of([c for c, _ in cases], lambda c: min(len(c["recs"]) // 10 * 10, 100)))
    return nrun


def cli_glue(ctx, bindir):
    """what the commands do around the dereplication: (1) the on-disk mode cannot create its temporary directory: obiuniq must
    stop with an error and write no record (the in-memory mode does not need the directory and must work); (2) obidemerge
    without -d hands every record over unchanged."""
    res = {}
    src = fasta_of([dict(R("r1", "acgt", 2, dict(sample="A")), nf=True), dict(R("r2", "acgt", 0, dict(sample="B")), nf=True), dict(R("r3", "tt"), nf=True)])
    env = dict(os.environ, TMPDIR="/nonexistent/c06")
    outs = {}
    for mode in ("disk", "memory"):
        try:
            p = subprocess.run([os.path.join(bindir, "obiuniq"), "-m", "sample"] + (["--in-memory"] if mode == "memory" else []),
                               input=src.encode(), capture_output=True, timeout=60, env=env)
            outs[mode] = (p.returncode, p.stdout.decode("utf8", "replace"))
        except subprocess.TimeoutExpired:
            outs[mode] = (124, "")
    exp = [proj("acgt", (), 3, {"sample": {"A": 2, "B": 1}}, {}), proj("tt", (), 1, {"sample": {"NA": 1}}, {})]
    ok_disk = outs["disk"][0] not in (0, 124) and not parse_fasta(outs["disk"][1])
    ok_mem = outs["memory"][0] == 0 and cli_proj(parse_fasta(outs["memory"][1]), [], ["sample"], "NA") == exp
    res["no_temporary_directory"] = "refused on disk, works in memory" if ok_disk and ok_mem else "violation"
    if not (ok_disk and ok_mem):
        ctx.violation("cli_tmpdir", dict(property="C06", kind="cli-no-temporary-directory", input=src, env="TMPDIR=/nonexistent/c06",
                                         implementation=dict(disk=outs["disk"], memory=outs["memory"]), expected="disk: exit != 0 and no record; memory: " + repr(exp),
                                         case=dict(glue="tmpdir")))
    recs = [plain(r) for r in gen_multiset(ctx.rng, wide=False)] + [R("z1", "acgt", 3, dict(sample="A"), dict(sample={"A": 2, "B": 1}))]
    for r in recs:
        r["nf"] = True
    src = fasta_of(recs)
    try:
        rc, out, err = run_cli(bindir, ["obidemerge"], src)
    except subprocess.TimeoutExpired:
        rc, out, err = 124, "", "timeout"
    norm = lambda txt: sorted((r["id"], r["seq"].lower(), json.dumps({k: v for k, v in r["ann"].items() if k != "definition" or v}, sort_keys=True)) for r in parse_fasta(txt))
    same = rc == 0 and norm(out) == norm(src)
    res["demerge_without_slot"] = "identity" if same else "violation"
    if not same:
        ctx.violation("cli_demerge_noslot", dict(property="C06", kind="cli-demerge-without-slot", input=src, rc=rc, implementation=norm(out), expected=norm(src),
                                                 case=dict(glue="demerge-noslot")))
    ctx.cov["cli_glue"] = res
    return 3


# ----------------------------------------------------------------------------------------------- round 3: the pieces one by one
def plain(r):
    r = dict(r)
    r.pop("qual", None)
    r.pop("ccount", None)
    return r


def class_value(kind, key, na, r):
    """what the classifier reads from a record: fmt.Sprint of the attribute (NA when absent) / the nucleotides"""
    if kind == "annotation":
        a = r.get("attrs") or {}
        return sprint(a[key]) if key in a else na
    if kind == "dual":
        # the JSON text of the pair (value of key, value of key2 or "" without a second key); a record without any
        # annotation gets (NA, "") whatever key2 — the classifier of obidistribute, driven for its table only
        a = r.get("attrs") or {}
        k1, k2 = key
        has = bool(a) or r.get("count", 0) > 0 or bool(r.get("merged")) or bool(r.get("badmerged"))
        v1 = sprint(a[k1]) if k1 in a else na
        v2 = "" if not k2 or not has else (sprint(a[k2]) if k2 in a else na)
        return json.dumps([v1, v2], separators=(",", ":"), ensure_ascii=False)
    return r["seq"].lower()


def ckey_of(c):
    return (c["ckey"], c.get("ckey2", "")) if c["ckind"] == "dual" else c["ckey"]


CLASSIFIER_TYPE = dict(annotation="AnnotationClassifier", sequence="SequenceClassifier", hash="HashClassifier", dual="DualAnnotationClassifier")


def gen_classifier_case(rng, wide):
    recs = [plain(r) for r in gen_multiset(rng, wide=wide)] or [R("r1", "acgt")]
    c = dict(op="classifier", ckind=rng.choice(["annotation", "annotation", "sequence", "hash", "dual"]), ckey=rng.choice(KEYS + ["nokey"]),
             ckey2=rng.choice(KEYS + ["nokey", ""]), csize=rng.choice([1, 2, 7, 100]), na=rng.choice(["NA", "A", "", "1"]), recs=recs)
    hist, live = [], []
    for _ in range(rng.choice([3, 8, 20, 40])):
        x = rng.random()
        if x < 0.6:
            hist.append(dict(op="code", i=rng.randrange(len(recs))))
            live.append(len(hist) - 1)
        elif x < 0.82:
            if live:
                hist.append(dict(op="value", of=rng.choice(live)))
        elif x < 0.85:
            hist.append(dict(op="badvalue", of=len(hist)))      # Value() of a code that was never issued
        elif x < 0.95:
            hist.append(dict(op="reset"))
            live = []
        else:
            hist.append(dict(op="clone"))
            live = []
    c["hist"] = hist
    return c


def classifier_corpus():
    recs = [R("r1", "acgt", 0, dict(sample="A")), R("r2", "acgt", 0, dict(sample="B")), R("r3", "ttt"), R("r4", "TTT", 0, dict(sample=1))]
    H = lambda *ops: [dict(op=o) if isinstance(o, str) else dict(op="code", i=o) if o >= 0 else dict(op="value", of=-o - 1) for o in ops]
    cs = []
    for kind in ("annotation", "sequence", "hash", "dual"):
        base = dict(op="classifier", ckind=kind, ckey="sample", ckey2="tag", csize=7, na="NA", recs=recs)
        # a value decoded after a Reset (codes must restart / stay decodable), after a Clone, twice the same record
        cs.append(dict(base, hist=H(0, 1, 0, -2, "reset", 2, -6, 3, -8, "clone", 3, -11)))
        cs.append(dict(base, hist=H(0, "reset", 0, -3, "reset", "reset", 1, 0, -8, -7)))
        cs.append(dict(base, hist=H(0, 1, 2, 3, -1, -2, -3, -4) + [dict(op="badvalue", of=8), dict(op="value", of=0)]))
    return cs


def classifier_judge(c, o):
    """the contract of a classifier object: since its last Reset (or Clone) two records get the same code iff they have
    the same class value, and Value(code) is that value.  Returns (what is wrong or None, per-step observation with the
    codes replaced by their rank of first appearance since the last Reset / Clone, per-step expectation)."""
    kind, steps = c["ckind"], o.get("steps") or []
    exp, canon, table, rank, vals = [], [], [], {}, []
    wrong = None
    if o.get("kind") != "ok" or len(steps) != len(c["hist"]):
        return "the harness reports %s" % o.get("kind"), [], []
    if o.get("err") != CLASSIFIER_TYPE[kind]:
        wrong = "Type is %r" % o.get("err")
    fn = {}
    for n, (st, so) in enumerate(zip(c["hist"], steps)):
        if st["op"] == "badvalue":
            # a code that was never issued is refused (log.Fatalf) by the table classifiers; HashClassifier prints any number
            e = ("value", str(1000000 + st["of"])) if kind == "hash" else ("refused", None)
            g = ("refused", None) if so.get("kind") in ("fatal", "panic") else ("value", so.get("value"))
            exp.append(e)
            canon.append(g)
            vals.append(None)
            if e != g:
                wrong = wrong or "step %d: Value of a code never issued gives %r (%s)" % (n, so.get("value"), so.get("kind"))
            continue
        if so.get("kind") != "ok":
            wrong = wrong or "step %d (%s) ends in %s: %s" % (n, st["op"], so.get("kind"), so.get("err", ""))
        if st["op"] == "code":
            v = class_value(kind, ckey_of(c), c["na"], c["recs"][st["i"]])
            if v not in table:
                table.append(v)
            exp.append(("code", table.index(v)))
            vals.append(v)
            k = so.get("code")
            if k not in rank:
                rank[k] = len(rank)
            canon.append(("code", rank[k] if k is not None else None))
            if kind == "hash":
                # any function of the nucleotides into 0..size-1; the value of a code is its decimal form
                if k is None or not (0 <= k < c["csize"]) or fn.setdefault(v, k) != k:
                    wrong = wrong or "step %d: code %r for %r (size %d, earlier code %r)" % (n, k, v, c["csize"], fn.get(v))
                vals[-1] = str(k)
            elif canon[-1] != exp[-1]:
                wrong = wrong or "step %d: the codes since the last reset do not separate the values as they should (rank %r, expected %r)" % (n, canon[-1][1], exp[-1][1])
        elif st["op"] == "value":
            exp.append(("value", vals[st["of"]]))
            vals.append(None)
            canon.append(("value", so.get("value")))
            if canon[-1] != exp[-1]:
                wrong = wrong or "step %d: Value(code of step %d) = %r, expected %r" % (n, st["of"], so.get("value"), exp[-1][1])
        else:
            table, rank = [], {}
            exp.append(None)
            vals.append(None)
            canon.append(None)
    return wrong, canon, exp


def classifier_term(c, canon, pool):
    I = pool.I
    steps, obs = [], []
    for st, co in zip(c["hist"], canon):
        if st["op"] == "code":
            steps.append("SCode [%d]" % I("s:" + class_value(c["ckind"], ckey_of(c), c["na"], c["recs"][st["i"]])))
            obs.append("OCode %d" % (co[1] if co and co[1] is not None else 999))
        elif st["op"] in ("value", "badvalue"):
            steps.append("SValue %d" % st["of"])        # (badvalue: `of` is the step itself, which issued no code)
            obs.append("OVal (Some [%d])" % I("s:" + co[1]) if co and co[1] is not None else "OVal None")
        else:
            steps.append("SReset")
            obs.append("ONone")
    return "([%s], [%s])" % ("; ".join(steps), "; ".join(obs))


def gen_subchunk_case(rng, wide):
    recs = [plain(r) for r in gen_multiset(rng, big=rng.random() < 0.3, wide=wide)]
    idx = list(range(len(recs)))
    rng.shuffle(idx)
    batches = []
    while idx:
        n = rng.choice([0, 1, 1, 2, 3, 5, 8, 13, 30])
        batches.append(idx[:n])
        idx = idx[n:]
    if rng.random() < 0.3:
        batches.append([])
    return dict(op="subchunk", ckind=rng.choice(["annotation", "annotation", "sequence"]), ckey=rng.choice(KEYS + ["nokey"]),
                na=rng.choice(["NA", "A", "", "1"]), nworkers=rng.choice([0, 1, 1, 2, 3]), recs=recs, batches=batches)


def subchunk_expected(c):
    """a batch of 0 or 1 record is forwarded, a larger one is cut into its classes (one output batch per class)"""
    out = []
    for b in c["batches"]:
        if len(b) <= 1:
            out += [tuple(b)] if b else []
            continue
        cl = {}
        for i in b:
            cl.setdefault(class_value(c["ckind"], c["ckey"], c["na"], c["recs"][i]), []).append(i)
        out += [tuple(sorted(m)) for m in cl.values()]
    return sorted(out)


def subchunk_observed(c, o):
    ids = {r["id"]: i for i, r in enumerate(c["recs"])}
    return sorted(tuple(sorted(ids.get(x, -1) for x in b)) for b in o.get("obatches") or [] if b)


def subchunk_term(c, o, pool):
    I = pool.I
    ins = "[" + "; ".join("[" + "; ".join("(%d, [%d])" % (i + 1, I("s:" + class_value(c["ckind"], c["ckey"], c["na"], c["recs"][i]))) for i in b) + "]"
                          for b in c["batches"]) + "]"
    outs = "[" + "; ".join(nlist([i + 1 for i in b]) for b in subchunk_observed(c, o)) + "]"
    return "(%s, %s)" % (ins, outs)


def gen_distribute_case(rng, wide):
    c = gen_subchunk_case(rng, wide)
    c.pop("nworkers")
    return dict(c, op="distribute", ckind=rng.choice(["annotation", "sequence", "hash"]), csize=rng.choice([1, 2, 7, 100]), size=rng.choice([0, 0, 1, 2, 3, 10]))


def distribute_judge(c, o):
    """IBioSequence.Distribute: one output per class of the classifier, holding exactly the records of that class (for
    HashClassifier: any function of the nucleotides into 0..size-1), and Value(code) names the class"""
    if o.get("kind") != "ok":
        return "the harness reports %s %s" % (o.get("kind"), o.get("err", ""))
    ids = {r["id"]: i for i, r in enumerate(c["recs"])}
    outs = [[ids.get(x, -1) for x in b] for b in o.get("obatches") or []]
    allin = sorted(i for b in c["batches"] for i in b)
    if sorted(i for b in outs for i in b) != allin:
        return "records lost or duplicated"
    val = lambda i: class_value(c["ckind"], c["ckey"], c["na"], c["recs"][i])
    keys = o.get("keys") or []
    for b, k in zip(outs, keys):
        if not b:
            return "an empty output"
        if len({val(i) for i in b}) != 1 and c["ckind"] != "hash":
            return "an output mixes two classes"
        if c["ckind"] == "hash":
            if not (k.isdigit() and 0 <= int(k) < c["csize"]):
                return "hash class %r out of range" % k
        elif k != val(b[0]):
            return "Value(code) = %r for the class %r" % (k, val(b[0]))
    where = {}
    for n, b in enumerate(outs):
        for i in b:
            if where.setdefault(val(i), n) != n:
                return "one class spread over two outputs"
    if len(set(keys)) != len(keys):
        return "two outputs with the same class"
    return None


def distribute_term(c, o, pool):
    flat = dict(c, batches=[[i for b in c["batches"] for i in b]])
    return subchunk_term(flat, o, pool)


def gen_mergepipe_case(rng, wide):
    """every incoming batch is one class of (sequence, categories): what IUniqueSequence hands over"""
    while True:
        recs = [plain(r) for r in gen_multiset(rng, wide=wide)]
        cfg = dict(gen_config(rng), nosingleton=False)
        case = dict(cfg, recs=recs, disk=False)
        if not (fatal_expected(case) or nonpositive(case) or mixed_type_cats(case) or mixed_numbers(case)):
            break
    ids = {r["id"]: i for i, r in enumerate(recs)}
    batches = [[ids[r["id"]] for r in m] for m in classes_of(case).values()]
    rng.shuffle(batches)
    return dict(case, op="mergepipe", batches=batches, size=rng.choice([0, 0, 1, 2, 3, 100]), echo=True)


def mergepipe_term(c, o, pool):
    I = pool.I
    sk = sorted(set(c["stats"]))
    ign = sorted(weight_attrs(c))
    tin = o.get("tin") or []
    bs = "[" + ";\n   ".join("[" + "; ".join(rec_term(I, tin[i], pool, drop=sk) for i in b) + "]" for b in c["batches"]) + "]"
    outs = "[" + ";\n   ".join(out_term(I, c, r, [], sk, ign) for r in (o.get("recs") or [])) + "]"
    return "mkmp %s %s %d\n  %s\n  %s\n  %s" % (ds_term(I, c["stats"]), nlist([I("k:" + k) for k in sk]), I("s:" + c["na"]), bs,
                                               nlist([I("k:" + k) for k in ign]), outs)


def gen_merge2_case(rng, wide):
    """BioSequence.Merge on two records of one sequence, in place or on a copy; the receiver may carry qualities; either
    may carry a merged_<slot> attribute of the wrong shape (a map with a non-numeric weight must be refused: log.Panicf)"""
    while True:
        recs = [plain(r) for r in gen_multiset(rng, wide=wide)]
        if len(recs) >= 2:
            break
    a, b = rng.sample(recs, 2)
    b = dict(b, seq=a["seq"])
    if rng.random() < 0.4:
        a = dict(a, qual="I" * len(a["seq"]))
    cfg = gen_config(rng)
    case = dict(op="merge2", cats=[], stats=cfg["stats"], na=cfg["na"], nosingleton=False, disk=False, chunks=1, recs=[a, b],
                inplace=rng.random() < 0.5, echo=True)
    if case["stats"] and rng.random() < 0.3:
        bad_merged(rng, case["recs"], case["stats"])
    if case["stats"] and rng.random() < 0.08:
        rng.choice(case["recs"])["badmerged"] = {rng.choice(case["stats"]): {"A": "x", "B": 1}}
    return case


def refused_map(c):
    return any(isinstance(v, dict) and not numeric_map(v) and k in c["stats"] for r in c["recs"] for k, v in (r.get("badmerged") or {}).items())


OPT_DEFAULT = dict(cats=[], na="NA", chunks=100, disk=False, nosingleton=False, stats=[])


def gen_options_case(rng):
    opts = []
    for _ in range(rng.choice([0, 1, 3, 6, 12])):
        op = rng.choice(["disk", "memory", "cat", "na", "stat", "chunks", "workers", "batchsize", "nosingleton", "withsingleton"])
        o = dict(op=op)
        if op in ("cat", "stat"):
            o["keys"] = [rng.choice(KEYS) + (rng.choice(["", "", ":wt"]) if op == "stat" else "") for _ in range(rng.choice([0, 1, 2]))]
        elif op == "na":
            o["s"] = rng.choice(["NA", "none", ""])
        elif op in ("chunks", "workers", "batchsize"):
            o["n"] = rng.choice([1, 2, 7, 100])
        opts.append(o)
    return dict(op="options", opts=opts)


def options_expected(c):
    e = dict(OPT_DEFAULT, cats=[], stats={})
    for o in c["opts"]:
        op = o["op"]
        if op in ("disk", "memory"):
            e["disk"] = op == "disk"
        elif op in ("nosingleton", "withsingleton"):
            e["nosingleton"] = op == "nosingleton"
        elif op == "cat":
            e["cats"] = e["cats"] + o.get("keys", [])
        elif op == "stat":
            for k in o.get("keys", []):
                e["stats"][k] = [k, k, k.partition(":")[0]]
        elif op == "na":
            e["na"] = o["s"]
        else:
            e[op] = o["n"]
    e["stats"] = [e["stats"][k] for k in sorted(e["stats"])]
    e["pops"] = e["cats"] + [""]
    e["cats_after_pops"] = []
    return e


def pieces_run(ctx, cases):
    obs = ctx.vh_robust("c06", cases, timeout=600, one_timeout=30)
    for i, o in enumerate(obs):
        if o.get("kind") in ("timeout", "crash"):
            # a loaded machine must not raise an alarm: the case is run again alone with a longer deadline
            obs[i] = ctx.vh_robust("c06", [cases[i]], timeout=90, one_timeout=90)[0]
    return obs


def pieces_check(ctx, broken, n):
    """classifier objects, ISequenceSubChunk, MergePipe, BioSequence.Merge and the option setters, each driven alone, judged
    by a direct oracle and compared with the model"""
    rng = ctx.rng
    st = ctx.cov.setdefault("pieces", {})
    # ---- classifiers
    cases = classifier_corpus() + [gen_classifier_case(rng, i % 2 == 1) for i in range(n)]
    obs = pieces_run(ctx, cases)
    items, nv = [], 0
    for i, (c, o) in enumerate(zip(cases, obs)):
        wrong, canon, exp = classifier_judge(c, o)
        if wrong:
            nv += 1
            if nv <= 2:
                ctx.violation("classifier_%d" % i, dict(property="C06", kind="classifier-contract", what=wrong, case=c, implementation=o.get("steps") or o, expected=exp))
        if canon and c["ckind"] != "hash":
            items.append((i, (c, canon)))
    bad, err = correspond_sharded(ctx, "classifier", [t for _, t in items], lambda c, canon, pool: classifier_term(c, canon, pool), 60, fn="mismatches_cls")
    pieces_corr(ctx, broken, "classifier", bad, err, nv, items, cases, obs)
    st["classifier"] = dict(histories=len(cases), steps=sum(len(c["hist"]) for c in cases), kinds=tally_of(cases, lambda c: c["ckind"]),
                            with_value_after_reset=sum(1 for c in cases if value_after_reset(c)), model_evaluated=len(items), failures=nv)
    # ---- ISequenceSubChunk
    cases = [gen_subchunk_case(rng, i % 2 == 1) for i in range(n)]
    obs = pieces_run(ctx, cases)
    items, nv = [], 0
    for i, (c, o) in enumerate(zip(cases, obs)):
        got, exp = subchunk_observed(c, o), subchunk_expected(c)
        if o.get("kind") != "ok" or got != exp:
            nv += 1
            if nv <= 2:
                ctx.violation("subchunk_%d" % i, dict(property="C06", kind="subchunk-classes", case=c, implementation=got if o.get("kind") == "ok" else o, expected=exp))
        if o.get("kind") == "ok":
            items.append((i, (c, o)))
    bad, err = correspond_sharded(ctx, "subchunk", [t for _, t in items], subchunk_term, 40, fn="mismatches_sub")
    pieces_corr(ctx, broken, "subchunk", bad, err, nv, items, cases, obs)
    st["subchunk"] = dict(cases=len(cases), workers=tally_of(cases, lambda c: c["nworkers"]), batches=sum(len(c["batches"]) for c in cases),
                          batches_split=sum(1 for c in cases for b in c["batches"] if len(b) > 1), model_evaluated=len(items), failures=nv)
    # ---- IBioSequence.Distribute
    cases = [gen_distribute_case(rng, i % 2 == 1) for i in range(n)]
    obs = pieces_run(ctx, cases)
    items, nv = [], 0
    for i, (c, o) in enumerate(zip(cases, obs)):
        wrong = distribute_judge(c, o)
        if wrong:
            nv += 1
            if nv <= 2:
                ctx.violation("distribute_%d" % i, dict(property="C06", kind="distribute-classes", what=wrong, case=c, implementation=o))
        if o.get("kind") == "ok" and c["ckind"] != "hash":
            items.append((i, (c, o)))
    bad, err = correspond_sharded(ctx, "distribute", [t for _, t in items], distribute_term, 40, fn="mismatches_sub")
    pieces_corr(ctx, broken, "distribute", bad, err, nv, items, cases, obs)
    st["distribute"] = dict(cases=len(cases), sizes=tally_of(cases, lambda c: c["size"]), kinds=tally_of(cases, lambda c: c["ckind"]),
                            model_evaluated=len(items), failures=nv)
    # ---- MergePipe / IMergeSequenceBatch
    cases = [gen_mergepipe_case(rng, i % 2 == 1) for i in range(n)]
    obs = pieces_run(ctx, cases)
    items, nv = [], 0
    for i, (c, o) in enumerate(zip(cases, obs)):
        exp = expected(c)
        got = observed(c, o) if o.get("kind") == "ok" else o
        size = c["size"] or 100
        shape = o.get("kind") == "ok" and all(0 < len(b) <= size for b in o.get("obatches") or [])
        if got != exp or not shape:
            nv += 1
            if nv <= 2:
                ctx.violation("mergepipe_%d" % i, dict(property="C06", kind="mergepipe", case=c, implementation=got, expected=exp,
                                                       output_batches=o.get("obatches"), batch_size=size))
        if o.get("kind") == "ok":
            items.append((i, (c, o)))
    bad, err = correspond_sharded(ctx, "mergepipe", [t for _, t in items], mergepipe_term, 40, fn="mismatches_mp")
    pieces_corr(ctx, broken, "mergepipe", bad, err, nv, items, cases, obs)
    st["mergepipe"] = dict(cases=len(cases), sizes=tally_of(cases, lambda c: c["size"]), classes=sum(len(c["batches"]) for c in cases),
                           model_evaluated=len(items), failures=nv)
    # ---- BioSequence.Merge, in place and on a copy
    cases = [gen_merge2_case(rng, i % 2 == 1) for i in range(n)]
    obs = pieces_run(ctx, cases)
    items, nv, nref = [], 0, 0
    for i, (c, o) in enumerate(zip(cases, obs)):
        wrong = None
        if refused_map(c):
            nref += 1
            # (with a non-categorical value in another slot as well, the range over the Go map statsOn decides which stops first)
            if o.get("kind") != "panic" and not (fatal_expected(c) and o.get("kind") == "fatal"):
                wrong = "a merged_<slot> map with a non-numeric weight is not refused"
        elif fatal_expected(c):
            if o.get("kind") != "fatal":
                wrong = "statistics on a non-categorical value accepted"
            else:
                items.append((i, (c, o)))
        elif o.get("kind") != "ok":
            wrong = "the harness reports %s" % o.get("kind")
        else:
            items.append((i, (c, o)))
            # (an attribute used as a weight is rewritten by GetIntAttribute, float64 -> int: not part of the claim)
            wa = weight_attrs(c)
            unw = lambda t: dict(t, attrs={k: v for k, v in t["attrs"].items() if k not in wa})
            tin, after = [unw(t) for t in o.get("tin") or []], [unw(t) for t in o.get("after") or []]
            if not nonpositive(c) and not mixed_numbers(c) and observed(c, o) != expected(c):
                wrong = "the merged record is not the accounting of the two records"
            elif bool(o.get("same")) != c["inplace"]:
                wrong = "inplace=%s but the result %s the receiver" % (c["inplace"], "is" if o.get("same") else "is not")
            elif not c["inplace"] and after[0] != tin[0]:
                wrong = "inplace=false modified the receiver"
            elif not any(r.get("badmerged") for r in c["recs"]) and after[1] != tin[1]:
                wrong = "the merged-in record was modified"
            elif o["recs"][0].get("qual"):
                wrong = "the merged record keeps qualities"
        if wrong:
            nv += 1
            if nv <= 2:
                ctx.violation("merge2_%d" % i, dict(property="C06", kind="merge-two-records", what=wrong, case=c, implementation=o,
                                                    expected=None if refused_map(c) or fatal_expected(c) else expected(c)))
    bad, err = correspond_sharded(ctx, "merge2", [t for _, t in items], case_term, 40)
    pieces_corr(ctx, broken, "merge2", bad, err, nv, items, cases, obs)
    st["merge2"] = dict(cases=len(cases), on_a_copy=sum(1 for c in cases if not c["inplace"]), receiver_with_qualities=sum(1 for c in cases if c["recs"][0].get("qual")),
                        merged_slot_of_wrong_shape=sum(1 for c in cases if any(r.get("badmerged") for r in c["recs"])), refused_maps=nref,
                        model_evaluated=len(items), failures=nv)
    # ---- option setters / accessors
    cases = [gen_options_case(rng) for i in range(n)]
    obs = pieces_run(ctx, cases)
    nv = 0
    for i, (c, o) in enumerate(zip(cases, obs)):
        exp = options_expected(c)
        got = {k: v for k, v in (o.get("get") or {}).items() if k in exp}
        if o.get("kind") != "ok" or got != exp:
            nv += 1
            if nv <= 2:
                ctx.violation("options_%d" % i, dict(property="C06", kind="option-accessors", case=c, implementation=o.get("get") or o, expected=exp))
    st["options"] = dict(histories=len(cases), failures=nv)
    return 6 * n


def value_after_reset(c):
    seen = False
    for s in c["hist"]:
        if s["op"] in ("reset", "clone"):
            seen = True
        elif s["op"] == "value" and seen:
            return True
    return False


def tally_of(cases, f):
    d = {}
    for c in cases:
        d[str(f(c))] = d.get(str(f(c)), 0) + 1
    return d


def pieces_corr(ctx, broken, what, bad, err, nviol, items, cases, obs):
    ctx.cov.setdefault("pieces_model_vs_impl_mismatches", {})[what] = len(bad or [])
    if bad is None:
        broken.append(dict(kind="correspondence", detail=err))
    elif bad and not nviol and not ctx.violations:
        i = items[bad[0]][0]
        broken.append(dict(kind="correspondence", name="corr:C06/" + what, first_diverging_case=cases[i], implementation=obs[i], n_diverging=len(bad)))


# ----------------------------------------------------------------------------------------------- entry points
def nontrivial(c):
    ks = [key_of(r, c["cats"], c["na"]) for r in c["recs"]]
    return len(ks) > len(set(ks))


def run(ctx, broken):
    import time
    t0 = time.time()
    timing = ctx.cov.setdefault("seconds", {})
    nms, nperm, big = (110, 5, 3) if ctx.quick else (2500, 6, 60)
    cases, groups = gen_cases(ctx, nms, nperm, big)
    obs, projs, mism = evaluate(ctx, cases, broken, "main")
    rcs = race_cases(ctx.rng, 12 if ctx.quick else 60)
    evaluate(ctx, rcs, broken, "workers", corr=False, echo=False, slice_size=20)
    ctx.cov["in_memory_worker_cases"] = len(rcs)
    timing["main"] = round(time.time() - t0, 1)
    # order / chunk / mode / worker independence inside each group (implied by the oracle; reported separately for clarity)
    ngroups_equal = 0
    for g in groups:
        ps = [projs[i] for i in g if projs[i] is not None]
        if all(p == ps[0] for p in ps):
            ngroups_equal += 1
        elif not ctx.violations:
            ctx.violation("order_%d" % g[0], dict(property="C06", kind="order-dependence", cases=[cases[i] for i in g], implementation=[projs[i] for i in g]))
    ncli = ndem = 0
    bindir, err = ctx.build_cmds(["obiuniq", "obidemerge"])
    if bindir is None:
        broken.append(dict(kind="cmd-build", detail=err))
    else:
        ctx.cov["cli_mixed_header_formats_memory_vs_disk"] = cli_mixed_headers(ctx, bindir)
        ncli, ndem = cli_check(ctx, bindir, 24 if ctx.quick else 400)
        ctx.cov["cli_cases"] = dict(obiuniq_vs_oracle=ncli, uniq_demerge_uniq=ndem)
        ncli += cli_variants(ctx, bindir, 12 if ctx.quick else 300) + cli_glue(ctx, bindir)
    timing["cli"] = round(time.time() - t0 - timing["main"], 1)
    ndw = demerge_check(ctx, broken, 60 if ctx.quick else 2000)
    timing["demerge"] = round(time.time() - t0 - timing["main"] - timing["cli"], 1)
    tp = time.time()
    npieces = pieces_check(ctx, broken, 60 if ctx.quick else 1500)
    timing["pieces"] = round(time.time() - tp, 1)
    nstress, nbad = disk_stress(ctx, 24 if ctx.quick else 48, 25 if ctx.quick else 120)
    # the same defect made deterministic: every chunk file is completed 5-20 ms late (verif hooks in both writers a chunk
    # file can go through), one process at a time, so that a reader that does not wait sees incomplete files whatever the load
    dcases = stress_cases(ctx.rng, 25 if ctx.quick else 150)
    for c in dcases:
        c["wdelay"] = ctx.rng.choice([5, 20])
    ndet, nbad_det = disk_stress(ctx, 1 if ctx.quick else 4, 0, cases=dcases, name="disk_delay")
    timing["disk_stress"] = round(time.time() - t0 - timing["main"] - timing["cli"] - timing["demerge"] - timing["pieces"], 1)
    ctx.cov["disk_stress"] = dict(runs=nstress, failures=nbad, what="large on-disk cases run in many concurrent harness processes (writer goroutines preempted)",
                                  delayed_completion_runs=ndet, delayed_completion_failures=nbad_det,
                                  delayed_completion="the same kind of cases, one process, every chunk file flushed/closed 5 or 20 ms late (verif hooks)")
    ctx.cov["evaluations"] = len(cases) + len(rcs) + ncli + ndw + nstress + ndet + npieces
    ctx.cov["distinct_nontrivial"] = len({json.dumps(to_vh(c), sort_keys=True) for c in cases if nontrivial(c)})
    ctx.cov["rule"] = ("multisets of 0..21 (big: 40..150) records over 1..12 (big: 8..40) distinct sequences, counts absent/1/2..1000, 4 attributes "
                       "(string/int/bool, present with p in {0,.5,.8,1}), already merged maps in 3 Go map types; each multiset in %d arrival orders "
                       "x random (mode, chunks, workers, batch sizes); non-trivial = at least two records share a key; distinct = distinct harness input" % nperm)
    def tally(f):
        d = {}
        for c in cases:
            d[str(f(c))] = d.get(str(f(c)), 0) + 1
        return d
    ctx.cov["distribution"] = dict(mode=tally(lambda c: "disk" if c["disk"] else "memory"), chunks=tally(lambda c: c["chunks"]),
                                   workers=tally(lambda c: c["workers"]), categories=tally(lambda c: len(c["cats"])),
                                   merge_attributes=tally(lambda c: len(c["stats"])), nosingleton=tally(lambda c: c["nosingleton"]),
                                   records=tally(lambda c: min(len(c["recs"]) // 10 * 10, 100)),
                                   weighted_statistics=sum(1 for c in cases if weighted(c)),
                                   with_qualities=sum(1 for c in cases if any(r.get("qual") for r in c["recs"])),
                                   permutation_groups=len(groups), permutation_groups_with_equal_output=ngroups_equal,
                                   already_merged_inputs=sum(1 for c in cases if any(r.get("merged") for r in c["recs"])),
                                   cli_uniq_demerge_uniq=ncli,
                                   option_histories=sum(1 for c in cases if c.get("opthist")),
                                   merged_slot_of_wrong_shape=sum(1 for c in cases if any(r.get("badmerged") for r in c["recs"])),
                                   longest_sequence=tally(lambda c: max([len(r["seq"]) for r in c["recs"]] + [0]) // 60 * 60),
                                   iupac_sequences=sum(1 for c in cases if any(set(r["seq"].lower()) - set("acgt") for r in c["recs"])),
                                   values_with_json_special_characters=sum(1 for c in cases if any(isinstance(v, str) and set(v) & set('"\\\t{;') for r in c["recs"] for v in (r.get("attrs") or {}).values())),
                                   category_given_twice=sum(1 for c in cases if len(set(c["cats"])) < len(c["cats"])),
                                   merge_attribute_given_twice=sum(1 for c in cases if len(set(c["stats"])) < len(c["stats"])),
                                   key_with_and_without_weight=sum(1 for c in cases if len({d.partition(":")[0] for d in c["stats"]}) < len(set(c["stats"]))),
                                   nosingleton_with_categories=sum(1 for c in cases if c["nosingleton"] and c["cats"]))
    ctx.samples = [dict(case=to_vh(cases[i]), implementation=projs[i]) for i in (0, 1, len(cases) // 2, len(cases) - 1)]
    ctx.cov["model_vs_impl_mismatches"] = len(mism)
    if mism:
        ctx.cov["model_vs_impl_mismatch_examples"] = [to_vh(cases[i], echo=False) for i in mism[:3]]
    if mism and not ctx.violations:
        more, _ = gen_cases(ctx, 400, 3)
        evaluate(ctx, more, [], "search", corr=False)
        if not ctx.violations:
            i = mism[0]
            broken.append(dict(kind="correspondence", name="corr:C06/projection", first_diverging_case=cases[i], implementation=projs[i], n_diverging=len(mism)))
    elif mism:
        ctx.cov["note"] = "model and implementation diverge on %d cases (violations reported by the direct oracle)" % len(mism)


def replay(ctx, rp):
    if "case" not in rp:
        print("replay: nothing to replay in", list(rp))
        return
    c = rp["case"]
    if c.get("mixed_headers"):
        bindir, err = ctx.build_cmds(["obiuniq", "obidemerge"])
        print("replay (obiuniq -c sample, in memory and on disk, on a file mixing OBI-format and JSON headers):", cli_mixed_headers(ctx, bindir))
        return
    if "stress" in rp:
        n, nbad = disk_stress(ctx, rp["stress"]["processes"], 0, cases=[dict(C([]), **c)] * 20, report=False)
        print("replay (on-disk mode, %d concurrent processes x 20 runs of the case, chunk files completed %d ms late): %d of %d runs lose records or crash"
              % (rp["stress"]["processes"], c.get("wdelay", 0), nbad, n))
        return
    if c.get("glue"):
        bindir, err = ctx.build_cmds(["obiuniq", "obidemerge"])
        cli_glue(ctx, bindir)
        print("replay (commands: TMPDIR that does not exist; obidemerge without -d):", ctx.cov.get("cli_glue"))
        return
    if "variant" in c:
        bindir, err = ctx.build_cmds(["obiuniq", "obidemerge"])
        with tempfile.TemporaryDirectory(prefix="c06cli_") as tmp:
            bad, args = cli_variant_one(bindir, c, c["variant"], tmp)
        print("replay (CLI case, variant %s):" % c["variant"], " ".join(args), "<<EOF\n" + fasta_of(c["recs"]) + "EOF")
        print(" result:", bad or "agrees with the oracle")
        return
    if c.get("op") == "distribute":
        o = ctx.vh_robust("c06", [c])[0]
        print("replay (distribute):", json.dumps(c)[:2000])
        print(" implementation:", o)
        print(" verdict       :", distribute_judge(c, o) or "one output per class")
        return
    if c.get("op") in ("classifier", "subchunk", "mergepipe", "merge2", "options"):
        o = ctx.vh_robust("c06", [c])[0]
        print("replay (%s):" % c["op"], json.dumps(c)[:2000])
        if c["op"] == "classifier":
            wrong, canon, exp = classifier_judge(c, o)
            print(" implementation:", o.get("steps") or o)
            print(" expected      :", exp)
            print(" verdict       :", wrong or "contract respected")
        elif c["op"] == "subchunk":
            print(" implementation:", subchunk_observed(c, o) if o.get("kind") == "ok" else o)
            print(" expected      :", subchunk_expected(c))
        elif c["op"] == "options":
            print(" implementation:", o.get("get") or o)
            print(" expected      :", options_expected(c))
        else:
            print(" implementation:", observed(c, o) if o.get("kind") == "ok" else o, "same object" if o.get("same") else "")
            print(" expected      :", "refused (panic)" if refused_map(c) else "refused (log.Fatal)" if fatal_expected(c) else expected(c))
        return
    if c.get("op") == "demerge":
        o = ctx.vh_robust("c06", [c])[0]
        print("replay (demerge worker):", json.dumps(c)[:1500])
        print(" implementation:", observed_demerge(c, o) if o.get("kind") == "ok" else o)
        print(" expected      :", expected_demerge(c))
        return
    if "args" in c:
        bindir, err = ctx.build_cmds(["obiuniq", "obidemerge"])
        print("replay (CLI case):", " ".join(c["args"]), "<<EOF\n" + fasta_of(c["recs"]) + "EOF")
        print(" result:", cli_one(ctx, bindir, c, "replay", report=False) or "agrees with the oracle")
        return
    c = dict(C([]), **c)
    obs, projs, mism = evaluate(ctx, [c], [], "replay")
    print("replay:", json.dumps(to_vh(c))[:2000])
    print(" implementation:", projs[0])
    print(" expected      :", expected(c))
    print(" model-mismatch" if mism else " model-agrees")
