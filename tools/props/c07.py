"""C07 — reverse complement, subsequence and copy obey their algebraic laws (pkg/obiseq + the three complement tables)."""
import json, os, re

PROPS = ["C07/Props.v"]
META = dict(
    text="Rocq theorems over an executable model of obiseq: the in-place swap-and-complement loop equals rev(map comp) for every length, "
         "reverse complement is an involution on the IUPAC alphabet with qualities and mismatch positions (exact domain stated: over symbols of "
         "either case rc(rc s) = to_lower s, so rc(rc s) = s iff s is lower case), rc(sub s f t) = sub(rc s)(|s|-t)(|s|-f), the circular window equals a "
         "window of s++s on the exact accepted domain, pairing_mismatches coordinates commute with both, Join keeps one score per symbol; an ownership "
         "model (objects owning three buffers — sequence, qualities, features — in a heap, pool with arbitrary hand-out, recycle, in-place writes, mate "
         "links) is proved to simulate value semantics for every history and every hand-out order, and derived objects are proved to share no mate. "
         "Round 3: the in-place edits Clear / ClearQualities / WriteQualities / WriteByteQualities / Grow are operations of both models (all history "
         "theorems quantify over them), the reverse complement of an object extended in place is proved to be the reverse complement of the extension "
         "followed by the old one (what a stale cache would miss), Composition is proved to count a/c/g/t/others and to exchange a<->t, c<->g under "
         "reverse complement, QualitiesString to be printable, reversible and exact up to 93. "
         "The complement tables are dumped from the current build on every run and the involution / three-tables-agree / model-comp-is-code theorems "
         "are re-proved by the kernel over the regenerated file. Tie to the code on every run: operation histories (every constructor: NewBioSequence, "
         "NewBioSequenceWithQualities, SetSequence, Write/WriteString/WriteByte, Grow+Write; copy/rc (method and ReverseComplementWorker)/sub/join/set*/"
         "poke*/clear/append with scores/grow/pair/unpair/recycle/pool churn with poisoning; the slices handed to the code are overwritten afterwards) run on "
         "real BioSequence objects with the pool-trace hook on; every live object (symbols, qualities, mismatches stored as map[string]int or as a header "
         "parser stores them, features, mate, identifier, definition, source, Len/HasSequence, and at the end MD5String, Composition, QualitiesString) is "
         "observed after every step and checked by a Python value-semantics oracle; the same histories are evaluated by the value model with vm_compute; "
         "the REAL Get/Recycle events and buffer identities of every step are replayed on the ownership model (Trace.trun, vm_compute): every buffer the "
         "real pool hands out must be free in the model, every recycled buffer must be unowned afterwards, the buffers of the registers must stay in "
         "bijection with the model's — an accepted trace is proved to be a run of the ownership model, hence of the value semantics "
         "(C07_trace_accepted_is_value_run); Composition / QualitiesString of the final objects are compared with their model by vm_compute. Command level: "
         "obicomplement (file, stdin pipe, FASTA/FASTQ, --no-order --max-cpu 4, --force-one-cpu, gzip output file) on records with IUPAC symbols, "
         "qualities, pairing_mismatches and definitions in JSON headers is judged record by record by the same oracle (twice = identity) and compared "
         "with the in-process ReverseComplementWorker(true) on the same records.",
    note="Trusted: Coq kernel + vm_compute, harness, generators, the Python oracle, the verif hooks (pool_verif.go trace + poison, verif2_c07.go raw "
         "buffers). sync.Pool itself is not modelled: the ownership theorem covers every hand-out order and the real order of every run is validated "
         "against the model; only safety of the events is enforced (not the exact number of Gets of an operation), under GOMAXPROCS=1. In-place edits of "
         "the stored mismatch map are in the value model only; the annotation pool events are counted, not modelled. Keys of pairing_mismatches are "
         "compared case-insensitively by the oracle (rc lower-cases their letters). Guards stated in the theorems: circular windows need |s| > 0, "
         "from >= 0, to >= 0 (Subsequence(.., circular) of an EMPTY sequence panics, integer divide by zero: theorem C07_circular_guard_empty, corpus "
         "circular-empty; a linear window of an empty sequence is an error, corpus empty-linear; the property quantifies over lengths >= 1); qualities "
         "have the length of the sequence (the generators keep it: SetSequence/SetQualities of the same length, Clear with ClearQualities, Write followed by "
         "WriteQualities of as many scores on objects with scores or empty, Write alone otherwise); mismatch keys have the form (x:dd)->(y:dd). Upper-case "
         "symbols (reachable through the Write family only) are outside the involution domain (stated). Identifier, definition, source, MD5, SameAs, "
         "Len/HasSequence are judged by the direct oracle only (a copy / reverse complement / join keeps all three, a window keeps the definition, is "
         "named <id>_sub[first..last] — a window stitched over the origin is named after its first part only, both forms accepted — and has no source); "
         "Composition and QualitiesString also by the model, on objects over the alphabet of the property (Composition files an upper-case A under its "
         "own key: outside the alphabet, not judged). Outside the property, recorded: a recycled paired object leaves its mate with a stale link; Copy does "
         "not carry the mate (by design: C07_derived_objects_share_no_mate) and Subsequence does not carry the source. Not exercised: LogBioSeqStatus "
         "(debug log of three counters), the branch of Copy that copies the `revcomp` field (no code sets that field: dead since the back-link repair; "
         "histories with several ReverseComplement(false) of one object and a change in between are generated so that a revived cache with incomplete "
         "invalidation shows), the conversion-error branch of Definition (unreachable: obiutils.InterfaceToString never returns an error), the two log.Panicln of "
         "RecycleSlice / GetSlice (unreachable: the tests two lines above exclude them), pkg/obikmer/debruijn.go apart from its table revcompnuc (the De "
         "Bruijn graph is the subject of C19; C07 is anchored there for the complement table only, which is dumped and proved equal to the two others). "
         "Grow on an object whose sequence is nil takes a pooled slice: exercised through the constructor Grow+Write, skipped by the harness on other "
         "objects. Histories with sequences longer than 300 go through the oracle only, except the reuse histories (lengths up to 1400, no reverse "
         "complement above 400) which also go through the value model and the trace validator. Input classes the generator does not produce: symbols "
         "outside the IUPAC alphabet of either case inside histories (nucComplement is dumped and modelled for all 256 bytes), qualities whose number "
         "differs from the number of symbols across a reverse complement, concurrent use of one object (C05).")
TRUSTED = ["sync.Pool hand-out order is not modelled: the object model proves value semantics for every hand-out order; the real Get/Recycle events "
           "(verif hook pkg/obiseq/pool_verif.go, buffers poisoned with 0xDB on recycle) are validated against the model by C07.Trace.trun on every run",
           "buffer identities are start addresses of backing arrays reported by the harness (pkg/obiseq/verif2_c07.go), kept alive for the duration of a case",
           "deepcopy of annotation values (obiutils.MustFillMap) is taken as a faithful copy",
           "MD5 (crypto/md5) and the FASTA/FASTQ/JSON-header readers and writers behind obicomplement are taken as given (C01, C02, C04 judge them); "
           "obioptions.OutputQualityShift() is at its default (33)"]

IUPAC = "acgtrymkswbdhvn.-[]"
SPEC_COMP = dict(zip("acgtrymkswbdhvn.-[]", "tgcayrkmswvhdbn.-]["))
# upper-case IUPAC letters (reachable through the Write family only: NewBioSequence / SetSequence lower-case their input) are complemented
# like their lower-case form and come out LOWER case (theorem C07_comp_upper_case): they are outside the involution domain
# (theorem C07_rc_involution_domain: rc (rc s) = to_lower s)
SPEC_COMP_ALL = dict(SPEC_COMP, **{k.upper(): v for k, v in SPEC_COMP.items() if k.isalpha()})
VERIF = os.path.dirname(os.path.dirname(os.path.dirname(os.path.abspath(__file__))))
TABLES_V = os.path.join(VERIF, "coq", "theories", "C07", "Gen", "Tables.v")


# ---------------------------------------------------------------- regenerated tables (DESIGN §2.3-B)
def tables_source(t):
    """Gallina source of C07/Gen/Tables.v from the harness' table dump."""
    def nl(l):
        return "[" + "; ".join(str(x) for x in l) + "]"
    kmer = sorted((ord(k), ord(v)) for k, v in t["kmer"].items())
    apat = sorted((ord(k), ord(v)) for k, v in t["apat"].items() if len(v) == 1)
    apat_bad = sorted(ord(k) for k, v in t["apat"].items() if len(v) != 1)
    return ("(** GENERATED by tools/props/c07.py regen() from the CURRENT build (vh c07, case {\"kind\":\"tables\"}). Do not edit.\n"
            "    revcmp_table  : obiseq._revcmpDNA (raw bytes);\n"
            "    seq_comp_tab  : obiseq.nucComplement applied to every byte 0..255;\n"
            "    kmer_tab      : obikmer.revcompnuc (key, value);\n"
            "    apat_tab      : the C table LX_BIO_CDNA_ALPHA observed through ApatPattern.ReverseComplement on one-letter patterns\n"
            "                    (letter, complement, both lower case); apat_rejected: letters the C code refuses. *)\n"
            "From Coq Require Import NArith List.\nImport ListNotations.\nOpen Scope N_scope.\n\n"
            "Definition revcmp_table : list N := %s.\n\nDefinition seq_comp_tab : list N := %s.\n\n"
            "Definition kmer_tab : list (N * N) := [%s].\n\nDefinition apat_tab : list (N * N) := [%s].\n\n"
            "Definition apat_rejected : list N := %s.\n" % (
                nl(t["table"]), nl(t["seqcomp"]), "; ".join("(%d, %d)" % p for p in kmer), "; ".join("(%d, %d)" % p for p in apat), nl(apat_bad)))


def dump_tables(ctx):
    obs, err = ctx.vh("c07", [dict(kind="tables")], timeout=60)
    if obs is None:
        raise RuntimeError("vh c07 tables: %s" % err)
    return obs[0]


def regen(ctx):
    """Called by check.py before the Coq build: rewrite C07/Gen/Tables.v from the current code (write-if-changed)."""
    vh, err = ctx.build_harness()
    if vh is None:
        raise RuntimeError("harness build failed: %s" % err)
    t = dump_tables(ctx)
    src = tables_source(t)
    os.makedirs(os.path.dirname(TABLES_V), exist_ok=True)
    old = open(TABLES_V).read() if os.path.exists(TABLES_V) else None
    if old != src:
        with open(TABLES_V, "w") as f:
            f.write(src)
        ctx.cov["tables_regenerated"] = "changed"
    else:
        ctx.cov["tables_regenerated"] = "unchanged"
    ctx._c07_tables = t


def table_failures(t):
    """Executable statement of the table theorems on the dumped tables: list of (what, symbol)."""
    bad = []
    sc = t["seqcomp"]
    for ch in IUPAC:
        c = sc[ord(ch)]
        if c != ord(SPEC_COMP[ch]):
            bad.append(("nucComplement(%r) = %r, expected %r" % (ch, chr(c), SPEC_COMP[ch]), ch))
        elif sc[c] != ord(ch):
            bad.append(("nucComplement not involutive on %r" % ch, ch))
    for ch in "acgtrymkswbdhvn":
        if t["kmer"].get(ch) != chr(sc[ord(ch)]):
            bad.append(("obikmer.revcompnuc[%r] = %r differs from nucComplement = %r" % (ch, t["kmer"].get(ch), chr(sc[ord(ch)])), ch))
        if t["apat"].get(ch) != chr(sc[ord(ch)]):
            bad.append(("obiapat complement of %r = %r differs from nucComplement = %r" % (ch, t["apat"].get(ch), chr(sc[ord(ch)])), ch))
    return bad


# ---------------------------------------------------------------- value-semantics oracle
def spec_comp(ch):
    return SPEC_COMP.get(ch)


def spec_rc_seq(s):
    return "".join(SPEC_COMP_ALL.get(c, "?") for c in reversed(s))


def spec_revkey(k):
    b = list(k)
    b[1], b[9] = SPEC_COMP.get(k[9].lower(), "?"), SPEC_COMP.get(k[1].lower(), "?")
    b[3], b[4], b[11], b[12] = k[11], k[12], k[3], k[4]
    return "".join(b)


class Val:
    def __init__(self, seq, qual, mm, feat="", mate=None, ids=("s",), dfn=None, srcs=("",)):
        self.seq, self.qual, self.mm, self.feat, self.mate = seq, qual, mm, feat, mate     # mate: object index
        # round 3: identifier, definition (None: none), source. ids / srcs are the ACCEPTED answers (the property does not say how a
        # window is named: see spec_sub)
        self.ids, self.dfn, self.srcs = tuple(ids), dfn, tuple(srcs)

    def copy(self, keep_mate=False):
        """Copy(): fresh buffers, same features, identifier, definition and source, NO mate (keep_mate: snapshot of the same object)"""
        return Val(self.seq, None if self.qual is None else list(self.qual), None if self.mm is None else dict(self.mm), self.feat,
                   self.mate if keep_mate else None, self.ids, self.dfn, self.srcs)


def spec_rc(v):
    L = len(v.seq)
    mm = v.mm
    if mm:
        mm = {spec_revkey(k): L - p + 1 for k, p in mm.items()}
    elif mm is not None:
        mm = {}
    return Val(spec_rc_seq(v.seq), None if v.qual is None else v.qual[::-1], mm, v.feat, v.mate, v.ids, v.dfn, v.srcs)


def spec_sub(v, f, t, circ):
    """('ok', Val) | ('err',) | None (outside the stated domain: unconstrained)."""
    L = len(v.seq)
    if not circ:
        if not (0 <= f < t <= L):
            return ("err",)
        start, n = f, t - f
    else:
        if f < 0:
            return ("err",)
        if L == 0 or t < 0:
            return None
        start, n = f % L, ((t - f - 1) % L) + 1
    d = v.seq + v.seq
    dq = None if v.qual is None else (v.qual + v.qual)[start:start + n]
    mm = v.mm
    if mm:
        nm = {}
        for k, p in mm.items():
            for q in (p - start, p + L - start):
                if 1 <= q <= n and 1 <= p <= L:
                    nm[k] = q
                    break
        mm = nm
    elif mm is not None:
        mm = {}
    # a window is a new object: no features, no mate; it keeps the definition (an annotation). The property does not say how it is
    # named: the code names it <id>_sub[first..last] (1-based) and a window stitched over the origin after its first part only
    # (<id>_sub[first..|s|]) - both accepted; its source is empty (the source of the sequence it was cut from would be as good)
    ids = []
    for i in v.ids:
        ids.append("%s_sub[%d..%d]" % (i, start + 1, start + n if start + n <= L else start + n - L))
        if start + n > L:
            ids.append("%s_sub[%d..%d]" % (i, start + 1, L))
    return ("ok", Val(d[start:start + n], dq, mm, "", None, ids, v.dfn, tuple(set(("",) + v.srcs))))


def oracle_history(ops):
    """Value semantics of a history. Returns per step (status, res, same, snapshot) with status None = unconstrained.
    A snapshot entry is None (dead register) or (Val, mate observable)."""
    regs, objs, out = [], [], []

    def mate_obs(v):
        if v.mate is None:
            return -1
        for i, x in enumerate(regs):
            if x == v.mate:
                return i
        return -2

    def snap():
        return [None if r is None else (objs[r].copy(keep_mate=True), mate_obs(objs[r])) for r in regs]
    for op in ops:
        k = op["op"]
        status, res, same = "ok", -1, -1
        newobj = None
        r = op.get("r", 0)
        v = objs[regs[r]] if k not in ("new", "churn", "gc", "nilrc") and r < len(regs) and regs[r] is not None else None
        flag = None
        if k == "new":
            s = op["seq"] if op.get("via") in RAW_VIAS else op["seq"].lower()
            newobj = Val(s, None if op.get("qual") is None or len(op["qual"]) == 0 else list(op["qual"]),
                         dict(op["mm"]) if op.get("hasmm") else None, op.get("feat", "") if op.get("hasfeat") else "",
                         None, (op.get("id") or "s",), op.get("def") or None, (op.get("src") or "",))
        elif v is None and k not in ("churn", "gc", "nilrc"):
            status = "err"
        elif k == "copy":
            newobj = v.copy()
        elif k == "rc":
            if op["inplace"]:
                nv = spec_rc(v)
                v.seq, v.qual, v.mm = nv.seq, nv.qual, nv.mm
                res, same = len(regs), min(i for i, x in enumerate(regs) if x == regs[r])
                regs.append(regs[r])
            else:
                newobj = spec_rc(v)
                newobj.mate = None
        elif k == "sub":
            e = spec_sub(v, op["from"], op["to"], op["circ"])
            if e is None:
                out.append((None, None, None, None, None))
                return out          # outside the stated domain: nothing is claimed from here on
            if e[0] == "err":
                status = "err"
            else:
                newobj = e[1]
        elif k == "join":
            r2 = op["r2"]
            v2 = objs[regs[r2]] if r2 < len(regs) and regs[r2] is not None else None
            if v2 is None:
                status = "err"
            else:
                nseq = v.seq + v2.seq
                # the qualities follow the symbols (seq2.Qualities() is the default vector of 40s when seq2 has none)
                nq = None if v.qual is None else v.qual + (v2.qual if v2.qual is not None else [40] * len(v2.seq))
                if op["inplace"]:
                    v.seq, v.qual = nseq, nq
                    res, same = len(regs), min(i for i, x in enumerate(regs) if x == regs[r])
                    regs.append(regs[r])
                else:
                    newobj = v.copy()
                    newobj.seq, newobj.qual = nseq, nq
        elif k == "setseq":
            v.seq = op["seq"].lower()
        elif k == "write":
            v.seq = v.seq + op["seq"]
        elif k == "setqual":
            v.qual = list(op["qual"]) if op["qual"] else None
        elif k == "clear":
            v.seq = ""
        elif k == "clearqual":
            v.qual = None
        elif k == "writeq":
            if op["qual"]:
                v.qual = (v.qual or []) + list(op["qual"])
        elif k == "setid":
            v.ids = (op["id"],)
        elif k == "setdef":
            v.dfn = op["def"] or None
        elif k == "setsrc":
            v.srcs = (op["src"],)
        elif k == "sameas":
            r2 = op["r2"]
            if r2 >= len(regs) or regs[r2] is None:
                status = "err"
            else:
                flag = v.seq == objs[regs[r2]].seq
        elif k == "setfeat":
            v.feat = op["feat"]
        elif k == "poke":
            if 0 <= op["i"] < len(v.seq):
                v.seq = v.seq[:op["i"]] + chr(op["b"]) + v.seq[op["i"] + 1:]
        elif k == "pokeq":
            if v.qual is not None and 0 <= op["i"] < len(v.qual):
                v.qual[op["i"]] = op["b"]
        elif k == "pokef":
            if 0 <= op["i"] < len(v.feat):
                v.feat = v.feat[:op["i"]] + chr(op["b"]) + v.feat[op["i"] + 1:]
        elif k == "setmm":
            v.mm = dict(op["mm"])
        elif k == "pokemm":
            if v.mm is not None:
                v.mm[op["key"]] = op["b"]
        elif k == "pair":
            r2 = op["r2"]
            if r2 >= len(regs) or regs[r2] is None:
                status = "err"
            else:                       # s.paired = p; p.paired = s (former mates keep their stale links)
                v.mate = regs[r2]
                objs[regs[r2]].mate = regs[r]
        elif k == "unpair":
            if v.mate is not None:
                objs[v.mate].mate = None
            v.mate = None
        elif k == "recycle":
            o = regs[r]
            regs = [None if x == o else x for x in regs]
        if newobj is not None:
            res = len(regs)
            objs.append(newobj)
            regs.append(len(objs) - 1)
        out.append((status, res, same, snap(), flag))
    return out


def val_matches(exp, got):
    if exp is None:
        return not got["live"]
    exp, mate = exp
    if not got["live"]:
        return False
    if got["seq"] != exp.seq:
        return False
    if (exp.qual is None) != (not got["hasq"]):
        return False
    if exp.qual is not None and got.get("qual") != exp.qual:
        return False
    if got.get("feat", "") != exp.feat or got.get("mate", -1) != mate:
        return False
    if "id" in got:           # round 3: the other accessors
        if got["id"] not in exp.ids or got.get("src", "") not in exp.srcs or got.get("hassrc") != (got.get("src", "") != ""):
            return False
        if (got.get("def", "") or None) != exp.dfn or got.get("hasdef", False) != (exp.dfn is not None):
            return False
        if got.get("len") != len(exp.seq) or got.get("hasseq") != (len(exp.seq) > 0):
            return False
    if "md5" in got:          # final snapshot: MD5String, Composition, QualitiesString
        if final_extras_failure(exp, got):
            return False
    gm = got.get("mm")
    if exp.mm is None:
        return gm is None
    if gm is None:
        return False
    return sorted((k.lower(), p) for k, p in exp.mm.items()) == sorted((k.lower(), p) for k, p in gm)


LOWER = set(IUPAC)


def final_extras_failure(exp, got):
    """MD5String(), Composition() and QualitiesString() of a live object against the value it must hold"""
    import hashlib
    if got["md5"] != hashlib.md5(exp.seq.encode("latin1", "replace")).hexdigest():
        return "MD5String"
    comp = dict((chr(k), n) for k, n in got.get("comp") or [])
    if sum(comp.values()) != len(exp.seq):
        return "Composition: the counts do not add up to the length"
    if set(exp.seq) <= LOWER:      # the alphabet of the property: a, c, g, t counted, everything else under o
        want = dict((ch, exp.seq.count(ch)) for ch in "acgt")
        want["o"] = len(exp.seq) - sum(want.values())
        if comp != want:
            return "Composition"
    q = exp.qual if exp.qual is not None else [40] * len(exp.seq)
    if got.get("qstr") != "".join(chr(min(x, 93) + 33) for x in q):
        return "QualitiesString"
    return None


def check_history(c, o):
    """None if the implementation's observation satisfies the property on this history, else a description."""
    if o.get("kind") != "hist":
        return "harness crashed: %s" % o.get("err", "")[:200]
    exp = oracle_history(c["ops"])
    for i, (e, st) in enumerate(zip(exp, o["steps"])):
        if e[0] is None:
            return None
        status, res, same, snap, flag = e
        if flag is not None and st.get("flag") != flag:
            return "step %d (sameas): answered %s, expected %s" % (i, st.get("flag"), flag)
        if st["status"] != status:
            return "step %d (%s): status %s (%s), expected %s" % (i, c["ops"][i]["op"], st["status"], st.get("msg", ""), status)
        if st["res"] != res:
            return "step %d: result register %d, expected %d" % (i, st["res"], res)
        if st["same"] != same:
            return "step %d (%s): returned object is %s, expected %s" % (
                i, c["ops"][i]["op"], "the object of register %d" % st["same"] if st["same"] >= 0 else "a new object",
                "the object of register %d" % same if same >= 0 else "a new object")
        for r, (ev, gv) in enumerate(zip(snap, st["snap"])):
            if not val_matches(ev, gv):
                return "after step %d (%s) register %d holds %s, expected %s" % (
                    i, c["ops"][i]["op"], r, json.dumps(gv), "dead" if ev is None else json.dumps(dict(seq=ev[0].seq, qual=ev[0].qual, mm=ev[0].mm, feat=ev[0].feat, mate=ev[1],
                                                                                                      id=ev[0].ids, definition=ev[0].dfn, source=ev[0].srcs)))
    if exp and exp[-1][0] is not None and len(exp) == len(o["steps"]):      # the final snapshot carries MD5String / Composition / QualitiesString
        for r, (ev, gv) in enumerate(zip(exp[-1][3], o["final"])):
            if not val_matches(ev, gv):
                return "at the end register %d holds %s, expected %s%s" % (r, json.dumps(gv), "dead" if ev is None else json.dumps(dict(seq=ev[0].seq, qual=ev[0].qual)),
                                                                            "" if ev is None or not gv.get("live") else " (%s)" % final_extras_failure(ev[0], gv))
    law = c.get("law")
    if law:                         # laws checked on the implementation's own objects (both sides computed by the real code)
        a, b = o["final"][law[1]], o["final"][law[2]]
        if law[0].startswith("rc (rc s)"):       # exact involution domain: upper-case symbols come back lower case
            a = dict(a, seq=a["seq"].lower())
        keyset = lambda v: None if v.get("mm") is None else sorted((k.lower(), p) for k, p in v["mm"])
        if (a["seq"], a.get("qual"), keyset(a), a.get("feat")) != (b["seq"], b.get("qual"), keyset(b), b.get("feat")):
            return "law %s: register %d = %s but register %d = %s" % (law[0], law[1], json.dumps(a), law[2], json.dumps(b))
    return None


# ---------------------------------------------------------------- generators
def rseq(rng, n, alpha=IUPAC):
    return "".join(rng.choice(alpha) for _ in range(n))


def rqual(rng, n):
    return [rng.choice([0, 1, 2, 40, 41, 93, 94, 255]) if rng.random() < 0.3 else rng.randrange(0, 94) for _ in range(n)]


def rkey(rng):
    nuc = "ACGT" if rng.random() < 0.7 else "ACGTRYMKSWBDHVN"
    return "(%s:%02d)->(%s:%02d)" % (rng.choice(nuc), rng.randrange(0, 94), rng.choice(nuc), rng.randrange(0, 94))


def rmm(rng, L, kmax=4):
    m = {}
    for _ in range(rng.randrange(1, kmax + 1)):
        m[rkey(rng)] = rng.randrange(1, max(2, L + 1))
    # keys whose reverse forms would collide are avoided (Go map order would decide)
    if len({spec_revkey(k).lower() for k in m}) != len(m) or len({k.lower() for k in m}) != len(m):
        return rmm(rng, L, kmax)
    return m


VIAS = ["", "setseq", "write", "writestring", "writebyte", "grow", "withqual"]
RAW_VIAS = ("write", "writestring", "writebyte", "grow")     # constructors that store the bytes as given
FEATS = ["FT   source          1..%d", "FT   CDS             <1..>%d\nFT                   /codon_start=2", "F", "FH   Key             Location/Qualifiers " + "x" * 330]


def rfeat(rng, L):
    f = rng.choice(FEATS)
    return f % L if "%d" in f else f


IDS = ["s", "x1", "Seq-42", "r7_sub[3..9]"]
DEFS = ["a definition", "x", "count=3; what ever"]
MMTYPES = ["", "", "iface", "ifaceint", "float"]


def new_op(rng, L, alpha=IUPAC, pq=0.5, pm=0.4, pf=0.25, pvia=0.3):
    """a constructor: NewBioSequence, NewBioSequenceWithQualities, or NewEmptyBioSequence + SetSequence / Write / WriteString /
    WriteByte / Grow + Write (the Write family stores the bytes as given: upper-case input stays upper case); n = preallocated capacity of
    the empty object / room reserved by Grow. Round 3: identifier, definition, source; pairing_mismatches stored as map[string]int (what
    the aligner writes) or as the header parsers store it (map[string]interface{} holding float64 / int, map[string]float64)"""
    s = rseq(rng, L, alpha)
    if rng.random() < 0.15:
        s = s.upper()
    hasmm = rng.random() < pm and L > 0
    op = dict(op="new", seq=s, qual=rqual(rng, L) if rng.random() < pq and L > 0 else None, hasmm=hasmm,
              mm=rmm(rng, L) if hasmm else None)
    if hasmm:
        op["mmtype"] = rng.choice(MMTYPES)
    if rng.random() < pvia:
        op["via"] = rng.choice(VIAS[1:])
        if op["via"] == "withqual" and op["qual"] is None:
            op["via"] = "grow"
        op["n"] = rng.choice([0, 0, L, L + 7, 300, 2 * L + 1]) if op["via"] != "grow" else rng.choice([1, L, L + 7, 300, 301, 1024, 1025])
    if rng.random() < pf:
        op["hasfeat"], op["feat"] = True, rfeat(rng, L)
    z = rng.random()
    if z < 0.3:
        op["id"] = rng.choice(IDS)
    if z < 0.2 or z > 0.9:
        op["def"] = rng.choice(DEFS)
    if 0.1 < z < 0.35:
        op["src"] = rng.choice(["file1", "reads_R1"])
    return op


def mm_all_positions(rng, L):
    """one mismatch on EVERY position 1..L (every (window, position) pair of the window sweep: the base just before the window, its
    first and last base, the last base of the source)"""
    m = {}
    while len(m) < L:
        k = rkey(rng)
        if k.lower() in {x.lower() for x in m} or spec_revkey(k).lower() in {spec_revkey(x).lower() for x in m}:
            continue
        m[k] = len(m) + 1
    return m


MM2 = {"(A:30)->(C:20)": 50, "(G:12)->(T:07)": 5}
S100 = "acgtrymkswbdhvnacgtacgtac" * 4
CORPUS = [
    # the two believed defects of DESIGN §5 (#12, #13), minimised
    dict(tag="subseq-mutation", ops=[dict(op="new", seq=S100, qual=None, hasmm=True, mm=MM2), dict(op="sub", r=0, **{"from": 40}, to=60, circ=False)]),
    dict(tag="subseq-mutation-circular", ops=[dict(op="new", seq="acgtacgtac", qual=None, hasmm=True, mm={"(A:30)->(C:20)": 2, "(G:12)->(T:07)": 9}),
                                               dict(op="sub", r=0, **{"from": 7}, to=3, circ=True)]),
    dict(tag="revcomp-backlink", ops=[dict(op="new", seq="aacc", qual=None, hasmm=False, mm=None), dict(op="rc", r=0, inplace=False),
                                      dict(op="setseq", r=1, seq="tttt"), dict(op="rc", r=1, inplace=False)]),
    dict(tag="revcomp-backlink-inplace", ops=[dict(op="new", seq="aacc", qual=None, hasmm=False, mm=None), dict(op="rc", r=0, inplace=False),
                                              dict(op="setseq", r=1, seq="tttt"), dict(op="rc", r=1, inplace=True)]),
    dict(tag="revcomp-backlink-source-mutated", ops=[dict(op="new", seq="aacc", qual=[1, 2, 3, 4], hasmm=False, mm=None), dict(op="rc", r=0, inplace=False),
                                                     dict(op="poke", r=0, i=0, b=ord("g")), dict(op="rc", r=1, inplace=False)]),
    dict(tag="revcomp-backlink-recycled", ops=[dict(op="new", seq="aacc", qual=None, hasmm=False, mm=None), dict(op="rc", r=0, inplace=False),
                                               dict(op="recycle", r=0), dict(op="rc", r=1, inplace=False)]),
    # pool: a slice recycled through SetQualities must not be handed out while its owner lives
    dict(tag="pool-setqualities", ops=[dict(op="new", seq="acgt", qual=[1, 2, 3, 4], hasmm=False, mm=None), dict(op="new", seq="ttga", qual=[9, 9, 9, 9], hasmm=False, mm=None),
                                       dict(op="recycle", r=1), dict(op="setqual", r=0, qual=[5, 6, 7, 8]), dict(op="new", seq="gggg", qual=None, hasmm=False, mm=None),
                                       dict(op="churn", n=8, b=300), dict(op="new", seq="cccc", qual=[3, 3, 3, 3], hasmm=False, mm=None)]),
    # boundary lengths of the swap loop, all symbols
    dict(tag="rc-all-symbols", ops=[dict(op="new", seq=IUPAC, qual=list(range(len(IUPAC))), hasmm=False, mm=None), dict(op="rc", r=0, inplace=False),
                                    dict(op="rc", r=1, inplace=False), dict(op="rc", r=0, inplace=True), dict(op="rc", r=0, inplace=True)]),
    dict(tag="rc-empty", ops=[dict(op="new", seq="", qual=None, hasmm=False, mm=None), dict(op="rc", r=0, inplace=False), dict(op="rc", r=0, inplace=True)]),
    dict(tag="circular-empty", ops=[dict(op="new", seq="", qual=None, hasmm=False, mm=None), dict(op="sub", r=0, **{"from": 0}, to=1, circ=True)]),
    # round 2 ---------------------------------------------------------------------------------------------------------------
    # SetFeatures: the old feature buffer goes to the pool, the object adopts the caller's slice; the next hand-outs must not touch it
    dict(tag="pool-setfeatures", ops=[dict(op="new", seq="acgt", qual=[1, 2, 3, 4], hasfeat=True, feat="FT   source 1..4"), dict(op="new", seq="ttga", hasfeat=True, feat="FT   other"),
                                      dict(op="setfeat", r=1, feat="X" * 12, n=400), dict(op="recycle", r=1), dict(op="setfeat", r=0, feat="NEWFEATURES", n=400),
                                      dict(op="setfeat", r=0, feat="NEWFEATURES2", n=400), dict(op="new", seq="gggg"), dict(op="churn", n=8, b=300),
                                      dict(op="copy", r=0), dict(op="sub", r=0, **{"from": 1}, to=3, circ=False), dict(op="rc", r=0, inplace=False), dict(op="pokef", r=4, i=0, b=90),
                                      dict(op="recycle", r=0), dict(op="churn", n=8, b=300)]),
    # Join of sequences with qualities: the joined object must be a sequence with qualities (reverse complement works on it)
    dict(tag="join-qualities", ops=[dict(op="new", seq="acgt", qual=[1, 2, 3, 4]), dict(op="new", seq="gg", qual=[7, 8]), dict(op="join", r=0, r2=1, inplace=False),
                                    dict(op="rc", r=2, inplace=False), dict(op="rc", r=3, inplace=False)], law=["rc (rc s) = s", 2, 4]),
    dict(tag="join-qualities-inplace", ops=[dict(op="new", seq="acgt", qual=[1, 2, 3, 4]), dict(op="new", seq="gg"), dict(op="join", r=0, r2=1, inplace=True),
                                            dict(op="join", r=1, r2=0, inplace=True), dict(op="rc", r=0, inplace=True), dict(op="join", r=0, r2=0, inplace=False)]),
    # paired links: derived objects have no mate, in-place reverse complement keeps it, a recycled mate leaves a stale link
    dict(tag="paired", ops=[dict(op="new", seq="acgt"), dict(op="new", seq="gg"), dict(op="pair", r=0, r2=1), dict(op="copy", r=0),
                            dict(op="sub", r=0, **{"from": 1}, to=3, circ=False), dict(op="rc", r=0, inplace=False), dict(op="rc", r=0, inplace=True),
                            dict(op="new", seq="tt"), dict(op="pair", r=6, r2=1), dict(op="recycle", r=0), dict(op="unpair", r=1), dict(op="pair", r=1, r2=1),
                            dict(op="recycle", r=6), dict(op="unpair", r=1)]),
    # the Write family stores bytes as given: an upper-case sequence is NOT restored by a double reverse complement (outside the alphabet)
    dict(tag="write-upper", ops=[dict(op="new", seq="ACGTRYKM", via="write", n=10), dict(op="rc", r=0, inplace=False), dict(op="rc", r=1, inplace=False),
                                 dict(op="new", seq="ACGT", via="writestring", n=0), dict(op="new", seq="AcGt", via="writebyte", n=0), dict(op="new", seq="AcGt", via="setseq", n=3),
                                 dict(op="write", r=3, seq="nN"), dict(op="rc", r=3, inplace=True)]),
    # seed C07-A: a circular window that wraps over the origin of a source with spare capacity must not alias the source
    dict(tag="circular-spare-capacity", ops=[dict(op="new", seq="acgtacgtac", qual=list(range(10)), via="setseq", n=64), dict(op="sub", r=0, **{"from": 7}, to=3, circ=True),
                                             dict(op="poke", r=1, i=0, b=ord("n")), dict(op="sub", r=0, **{"from": 8}, to=2, circ=True), dict(op="new", seq="ACGTACGTAC", via="write", n=64),
                                             dict(op="sub", r=3, **{"from": 7}, to=3, circ=True), dict(op="write", r=3, seq="tt"), dict(op="sub", r=3, **{"from": 9}, to=1, circ=True)]),
    # recycle -> get cycles with interleaved owners; the survivors of recycled sources are then modified
    dict(tag="reuse", ops=[dict(op="new", seq="acgtacgt", qual=[1, 2, 3, 4, 5, 6, 7, 8]), dict(op="copy", r=0), dict(op="recycle", r=0), dict(op="sub", r=1, **{"from": 2}, to=6, circ=False),
                           dict(op="rc", r=1, inplace=False), dict(op="recycle", r=1), dict(op="copy", r=2), dict(op="setqual", r=3, qual=[9] * 8), dict(op="poke", r=2, i=0, b=ord("n")),
                           dict(op="recycle", r=3), dict(op="new", seq="t" * 301), dict(op="recycle", r=5), dict(op="new", seq="g" * 20), dict(op="copy", r=4)]),
    # round 3 ---------------------------------------------------------------------------------------------------------------
    # identifier, definition and source of derived objects (a copy is a copy; a window is named after its coordinates)
    dict(tag="copy-keeps-source", ops=[dict(op="new", seq="acgtacgtac", qual=list(range(10)), id="x1", src="file1", **{"def": "a definition"}), dict(op="copy", r=0),
                                       dict(op="rc", r=0, inplace=False), dict(op="sub", r=0, **{"from": 2}, to=6, circ=False), dict(op="sub", r=0, **{"from": 7}, to=3, circ=True),
                                       dict(op="join", r=0, r2=1, inplace=False), dict(op="setdef", r=1, **{"def": ""}), dict(op="setsrc", r=2, src="other"), dict(op="setid", r=3, id="w"),
                                       dict(op="setdef", r=0, **{"def": "changed"}), dict(op="sub", r=3, **{"from": 1}, to=3, circ=False), dict(op="sameas", r=0, r2=1), dict(op="sameas", r=0, r2=2)]),
    # Clear / ClearQualities empty the object but keep its buffers; Write + WriteQualities (WriteByteQualities) refill it
    dict(tag="clear-refill", ops=[dict(op="new", seq="acgtrykm", qual=[1, 2, 3, 4, 5, 6, 7, 8]), dict(op="copy", r=0), dict(op="clear", r=0), dict(op="clearqual", r=0),
                                  dict(op="write", r=0, seq="ggn"), dict(op="writeq", r=0, qual=[9, 8, 7]), dict(op="rc", r=0, inplace=False), dict(op="write", r=0, seq="t", via="writebyte"),
                                  dict(op="writeq", r=0, qual=[94], via="byte"), dict(op="rc", r=0, inplace=True), dict(op="grow", r=0, n=2000), dict(op="grow", r=1, n=5), dict(op="rc", r=1, inplace=True),
                                  dict(op="recycle", r=0), dict(op="churn", n=4, b=300)]),
    # notes of the seeding rounds: two ReverseComplement(false) of ONE object with a change of the first result / of the source in between
    dict(tag="rc-twice-result-modified", ops=[dict(op="new", seq="acgtrykmbdhvn-ac", qual=list(range(16))), dict(op="rc", r=0, inplace=False), dict(op="rc", r=1, inplace=True),
                                              dict(op="rc", r=0, inplace=False), dict(op="write", r=1, seq="gg"), dict(op="rc", r=0, inplace=False, via="worker")]),
    dict(tag="rc-twice-result-recycled", ops=[dict(op="new", seq="acgtrykmbdhvn-ac"), dict(op="rc", r=0, inplace=False), dict(op="recycle", r=1), dict(op="rc", r=0, inplace=False),
                                              dict(op="churn", n=6, b=300), dict(op="rc", r=2, inplace=False)], law=["rc (rc s) = s", 0, 3]),
    dict(tag="rc-twice-source-appended", ops=[dict(op="new", seq="acgtrykmbdhvn-ac"), dict(op="new", seq="ggk"), dict(op="rc", r=0, inplace=False), dict(op="join", r=0, r2=1, inplace=True),
                                              dict(op="rc", r=0, inplace=False), dict(op="rc", r=4, inplace=False), dict(op="write", r=0, seq="t", via="writebyte"), dict(op="rc", r=0, inplace=False),
                                              dict(op="clear", r=0), dict(op="write", r=0, seq="ac", via="writestring"), dict(op="rc", r=0, inplace=False)]),
    dict(tag="rc-twice-qualities-appended", ops=[dict(op="new", seq="acgt", qual=[1, 2, 3, 4]), dict(op="rc", r=0, inplace=False), dict(op="write", r=0, seq="nn"), dict(op="writeq", r=0, qual=[7, 8]),
                                                 dict(op="rc", r=0, inplace=False), dict(op="clear", r=0), dict(op="clearqual", r=0), dict(op="rc", r=0, inplace=False)]),
    # mismatches on the base just before the window, on its first / last base, on the last base of the source; windows starting at 0; a full turn
    dict(tag="mm-boundary", ops=[dict(op="new", seq="acgtacgtac", qual=list(range(10)), hasmm=True, mm={"(A:30)->(C:20)": 3, "(G:12)->(T:07)": 4, "(C:01)->(T:02)": 8, "(A:03)->(G:04)": 9,
                                                                                                       "(T:05)->(G:06)": 10, "(C:07)->(A:08)": 1}),
                                 dict(op="sub", r=0, **{"from": 3}, to=8, circ=False), dict(op="sub", r=0, **{"from": 0}, to=9, circ=False), dict(op="sub", r=0, **{"from": 0}, to=10, circ=False),
                                 dict(op="sub", r=0, **{"from": 3}, to=3, circ=True), dict(op="sub", r=0, **{"from": 9}, to=3, circ=True), dict(op="sub", r=0, **{"from": 0}, to=10, circ=True),
                                 dict(op="sub", r=0, **{"from": 10}, to=0, circ=True), dict(op="sub", r=0, **{"from": 8}, to=18, circ=True)]),
    # pairing_mismatches as a header parser stores it (the output of obipairing read back from a file)
    dict(tag="mm-from-json", ops=[dict(op="new", seq="acgtacgtac", hasmm=True, mm={"(A:30)->(C:20)": 3, "(G:12)->(T:07)": 10}, mmtype="iface"), dict(op="copy", r=0), dict(op="rc", r=0, inplace=False),
                                  dict(op="sub", r=0, **{"from": 2}, to=10, circ=False), dict(op="rc", r=0, inplace=True, via="worker"), dict(op="pokemm", r=1, key="(A:30)->(C:20)", b=7),
                                  dict(op="setmm", r=1, mm={"(T:30)->(C:21)": 1}, mmtype="float"), dict(op="rc", r=1, inplace=False), dict(op="sub", r=1, **{"from": 0}, to=1, circ=False)]),
    # the two other constructors
    dict(tag="constructors", ops=[dict(op="new", seq="ACGTNacgtn", qual=list(range(10)), via="withqual", id="q1", **{"def": "x"}), dict(op="rc", r=0, inplace=False),
                                  dict(op="new", seq="acgtn", via="grow", n=300), dict(op="new", seq="acgtn", via="grow", n=1025), dict(op="new", seq="acgtn", via="grow", n=2),
                                  dict(op="rc", r=2, inplace=True), dict(op="recycle", r=2), dict(op="churn", n=4, b=300), dict(op="nilrc", inplace=False), dict(op="nilrc", inplace=True)]),
    # SameAs: same symbols (whatever the qualities), one differing symbol at the far end, a prefix
    dict(tag="sameas", ops=[dict(op="new", seq="acgtacgtacgtacgtnn", qual=list(range(18))), dict(op="copy", r=0), dict(op="sameas", r=0, r2=1), dict(op="poke", r=1, i=17, b=ord("a")),
                            dict(op="sameas", r=0, r2=1), dict(op="sameas", r=1, r2=0), dict(op="sub", r=0, **{"from": 0}, to=17, circ=False), dict(op="sameas", r=0, r2=2),
                            dict(op="setqual", r=1, qual=[1] * 18), dict(op="poke", r=1, i=17, b=ord("n")), dict(op="sameas", r=0, r2=1), dict(op="new", seq=""), dict(op="sameas", r=3, r2=3),
                            dict(op="sameas", r=3, r2=0)]),
    # an empty sequence has no linear window (error, no panic)
    dict(tag="empty-linear", ops=[dict(op="new", seq=""), dict(op="sub", r=0, **{"from": 0}, to=1, circ=False), dict(op="sub", r=0, **{"from": 0}, to=0, circ=False), dict(op="copy", r=0),
                                  dict(op="rc", r=0, inplace=True, via="worker"), dict(op="join", r=0, r2=1, inplace=False)]),
]


def gen_windows(rng, lengths):
    """every (from, to) window, linear and circular, of one sequence per length; with qualities and mismatches on half of them"""
    cases = []
    for L in lengths:
        for variant in range(2):
            nw = new_op(rng, L, pq=1.0 if variant else 0.0, pm=1.0 if variant else 0.0)
            if variant:
                nw["mm"] = mm_all_positions(rng, L)
            for f in range(-1, 2 * L + 2):
                for t in range(-2, 2 * L + 3):
                    for circ in (False, True):
                        cases.append(dict(tag="window", ops=[nw, dict(op="sub", r=0, **{"from": f}, to=t, circ=circ)]))
    return cases


def gen_laws(rng, n, maxlen):
    cases = []
    for _ in range(n):
        L = rng.choice([1, 2, 3, 4, 5, 7, 8, 16, 31, 32, 33]) if rng.random() < 0.6 else rng.randrange(1, maxlen + 1)
        nw = new_op(rng, L)
        f = rng.randrange(0, L)
        t = rng.randrange(f + 1, L + 1)
        # rc (sub s f t) = sub (rc s) (L-t) (L-f)
        cases.append(dict(tag="law-rcsub", law=["rc(sub s f t) = sub (rc s) (|s|-t) (|s|-f)", 2, 4],
                          ops=[nw, dict(op="sub", r=0, **{"from": f}, to=t, circ=False), dict(op="rc", r=1, inplace=False),
                               dict(op="rc", r=0, inplace=False), dict(op="sub", r=3, **{"from": L - t}, to=L - f, circ=False)]))
        # circular window = window of s++s
        f2 = rng.randrange(0, 3 * L)
        t2 = rng.randrange(0, 3 * L + 1)
        n2 = ((t2 - f2 - 1) % L) + 1
        dbl = dict(nw, seq=nw["seq"] * 2, qual=None if nw["qual"] is None else nw["qual"] * 2, hasmm=False, mm=None)
        one = dict(nw, hasmm=False, mm=None)
        cases.append(dict(tag="law-circular", law=["sub s f t circular = sub (s++s) (f mod |s|) (f mod |s| + n)", 2, 3],
                          ops=[one, dbl, dict(op="sub", r=0, **{"from": f2}, to=t2, circ=True),
                               dict(op="sub", r=1, **{"from": f2 % L}, to=f2 % L + n2, circ=False)]))
        # rc twice restores; copy equals source
        cases.append(dict(tag="law-rcrc", law=["rc (rc s) = s", 0, 2], ops=[nw, dict(op="rc", r=0, inplace=False), dict(op="rc", r=1, inplace=False)]))
    return cases


def append_ops(rng, r, v, n=None):
    """append n symbols; the scores follow when the object has qualities (or is empty and gets some): one score per symbol stays true"""
    n = rng.randrange(1, 9) if n is None else n
    w = dict(op="write", r=r, seq=rseq(rng, n), via=rng.choice(["", "writestring", "writebyte"]))
    if v.qual is not None or (len(v.seq) == 0 and rng.random() < 0.5):
        return [w, dict(op="writeq", r=r, qual=rqual(rng, n), via=rng.choice(["", "byte"]))]
    return [w]


def clear_ops(r, v):
    return [dict(op="clear", r=r)] + ([dict(op="clearqual", r=r)] if v.qual is not None else [])


def round3_ops(rng, r, v, lv, nregs):
    """the operations added in round 3: Clear / ClearQualities / WriteQualities / Grow, identifier / definition / source, SameAs, nil receiver"""
    z = rng.random()
    if z < 0.2:
        return clear_ops(r, v) + (append_ops(rng, r, Val("", None, None)) if rng.random() < 0.7 else [])
    if z < 0.45:
        return append_ops(rng, r, v)
    if z < 0.55:
        return [dict(op="grow", r=r, n=rng.choice([0, 1, 7, 300, 1025, 3000]))]
    if z < 0.65:
        return [dict(op="setid", r=r, id=rng.choice(IDS))]
    if z < 0.78:
        return [dict(op="setdef", r=r, **{"def": rng.choice(DEFS + [""])})]
    if z < 0.86:
        return [dict(op="setsrc", r=r, src=rng.choice(["", "file1", "f2"]))]
    if z < 0.96:
        # SameAs against an unrelated object, against a copy, and against a copy that differs in ONE symbol (anywhere: first, late, last)
        y = rng.random()
        if y < 0.3 or len(v.seq) == 0:
            return [dict(op="sameas", r=r, r2=rng.choice(lv))]
        res = [dict(op="copy", r=r)]
        if y < 0.8:
            i = rng.choice([0, len(v.seq) - 1, rng.randrange(0, len(v.seq))])
            res.append(dict(op="poke", r=nregs, i=i, b=ord(rng.choice([c for c in IUPAC if c != v.seq[i].lower()]))))
        return res + [dict(op="sameas", r=r, r2=nregs), dict(op="sameas", r=nregs, r2=r)]
    return [dict(op="nilrc", inplace=rng.random() < 0.5)]


def gen_rc_twice(rng):
    """several ReverseComplement(false) of ONE object with a change of an earlier result or of the source in between (a cache of the
    reverse complement would have to be dropped by every one of them), then the involution law on the last result"""
    L = rng.choice([1, 2, 3, 5, 8, 16, 17, 40])
    ops = [new_op(rng, L, pvia=0.5)]
    for turn in range(rng.randrange(2, 5)):
        ops.append(dict(op="rc", r=0, inplace=False, **(dict(via="worker") if rng.random() < 0.3 else {})))
        st = oracle_history(ops)
        last = st[-1][1]
        src, res = st[-1][3][0][0], st[-1][3][last][0]
        z = rng.random()
        if z < 0.12:
            ops.append(dict(op="rc", r=last, inplace=True))
        elif z < 0.24:
            ops += append_ops(rng, last, res)
        elif z < 0.34:
            ops.append(dict(op="recycle", r=last))
            if rng.random() < 0.5:
                ops.append(dict(op="churn", n=4, b=300))
        elif z < 0.5:
            ops += append_ops(rng, 0, src)
        elif z < 0.6:
            ops.append(dict(op="join", r=0, r2=rng.choice([0, last]), inplace=True))
        elif z < 0.7:
            # emptied, then refilled most of the time (an emptied object is reverse complemented as it is otherwise)
            ops += clear_ops(0, src) + (append_ops(rng, 0, Val("", None, None) if src.qual is None else Val("", [], None), n=rng.randrange(1, 6)) if rng.random() < 0.65 else [])
        elif z < 0.78 and len(src.seq) > 0:
            ops.append(dict(op="poke", r=0, i=rng.randrange(0, len(src.seq)), b=ord(rng.choice(IUPAC))))
        elif z < 0.86:
            ops.append(dict(op="setseq", r=0, seq=rseq(rng, len(src.seq) if src.qual is not None else rng.randrange(1, 20))))
        elif z < 0.93 and len(src.seq) > 0:
            ops.append(dict(op="setqual", r=0, qual=rqual(rng, len(src.seq))))
        else:
            ops.append(dict(op="rc", r=0, inplace=True))
    ops.append(dict(op="rc", r=0, inplace=False))
    a = oracle_history(ops)[-1][1]
    ops.append(dict(op="rc", r=a, inplace=False))
    b = oracle_history(ops)[-1][1]
    return dict(tag="rc-twice", ops=ops, law=["rc (rc s) = s", 0, b])


def gen_history(rng, nops, maxlen, precycle=0.05):
    ops = [new_op(rng, rng.randrange(0, maxlen + 1))]
    vals = oracle_history(ops)          # to know lengths / liveness while generating
    regs = [0]

    def live():
        return [i for i, v in enumerate(oracle_history(ops)[-1][3]) if v is not None]
    for _ in range(nops):
        st = oracle_history(ops)
        if st[-1][0] is None:
            break
        snap = st[-1][3]
        lv = [i for i, v in enumerate(snap) if v is not None]
        k = rng.random()
        if not lv or k < 0.08:
            ops.append(new_op(rng, rng.randrange(0, maxlen + 1)))
            continue
        r = rng.choice(lv)
        v = snap[r]
        L = len(v[0].seq)
        if rng.random() < 0.12:
            ops += round3_ops(rng, r, v[0], lv, len(snap))
            continue
        if k < 0.18:
            ops.append(dict(op="copy", r=r))
        elif k < 0.36:
            ops.append(dict(op="rc", r=r, inplace=rng.random() < 0.5, **(dict(via="worker") if rng.random() < 0.3 else {})))
        elif k < 0.50 and L > 0:
            circ = rng.random() < 0.4
            f = rng.randrange(0, L)
            t = rng.randrange(0, 2 * L + 1) if circ else rng.randrange(f + 1, L + 1)
            if rng.random() < 0.1:
                f, t = rng.randrange(-1, L + 2), rng.randrange(0, L + 3)
            ops.append(dict(op="sub", r=r, **{"from": f}, to=t, circ=circ))
        elif k < 0.56:
            z = rng.random()
            if z < 0.55:
                ops.append(dict(op="join", r=r, r2=rng.choice(lv), inplace=rng.random() < 0.4))
            elif z < 0.8 and v[0].qual is None:       # raw append (the Write family does not touch the qualities)
                ops.append(dict(op="write", r=r, seq=rseq(rng, rng.randrange(0, 9)), via=rng.choice(["", "writestring", "writebyte"])))
            elif z < 0.9:
                ops.append(dict(op="pair", r=r, r2=rng.choice(lv)))
            else:
                ops.append(dict(op="unpair", r=r))
        elif k < 0.64:
            ops.append(dict(op="setseq", r=r, seq=rseq(rng, L if v[0].qual is not None else rng.randrange(0, maxlen + 1))))
        elif k < 0.70:
            if L > 0:
                ops.append(dict(op="setqual", r=r, qual=rqual(rng, L)))
        elif k < 0.80 and L > 0:
            ops.append(dict(op="poke", r=r, i=rng.randrange(0, L), b=ord(rng.choice(IUPAC))))
        elif k < 0.85 and L > 0:
            ops.append(dict(op="pokeq", r=r, i=rng.randrange(0, L), b=rng.randrange(0, 94)))
        elif k < 0.87 and L > 0:
            ops.append(dict(op="setmm", r=r, mm=rmm(rng, L)))
        elif k < 0.89:
            if v[0].feat and rng.random() < 0.4:
                ops.append(dict(op="pokef", r=r, i=rng.randrange(0, len(v[0].feat)), b=ord(rng.choice("XYZ /"))))
            else:
                ops.append(dict(op="setfeat", r=r, feat=rfeat(rng, L), n=rng.choice([0, 0, 300, 400, 1100])))
        elif k < 0.92 and v[0].mm:
            ops.append(dict(op="pokemm", r=r, key=rng.choice(sorted(v[0].mm)), b=rng.randrange(1, L + 2)))
        elif k < 0.97 or rng.random() < precycle * 4:
            ops.append(dict(op="recycle", r=r))
        elif k < 0.99:
            ops.append(dict(op="churn", n=rng.randrange(1, 6), b=rng.choice([1, 50, 300, 1024])))
        else:
            ops.append(dict(op="gc"))
    ops.append(dict(op="churn", n=6, b=300))
    return dict(tag="history", ops=ops)


def rlen(rng):
    z = rng.random()
    if z < 0.86:
        return rng.randrange(0, 41)
    if z < 0.92:
        return rng.randrange(280, 320)          # around the capacity of the buffers sync.Pool.New makes (300)
    if z < 0.97:
        return rng.randrange(1000, 1040)        # around the largest pooled capacity (1024)
    return rng.randrange(1100, 1400)            # never pooled


def gen_reuse(rng, nops, rc_max=400):
    """many recycle -> get cycles with interleaved owners: objects are created / copied / windowed and recycled soon after, the
    survivors of recycled sources are modified and read; lengths around the pool's capacity thresholds"""
    ops = [new_op(rng, rlen(rng), pm=0.15, pf=0.3) for _ in range(rng.randrange(2, 5))]
    for _ in range(nops):
        st = oracle_history(ops)
        if st[-1][0] is None:
            break
        snap = st[-1][3]
        lv = [i for i, v in enumerate(snap) if v is not None]
        k = rng.random()
        if len(lv) < 2 or k < 0.10:
            ops.append(new_op(rng, rlen(rng), pm=0.15, pf=0.3))
            continue
        r = rng.choice(lv)
        v = snap[r][0]
        L = len(v.seq)
        if k < 0.36:
            ops.append(dict(op="recycle", r=lv[0] if rng.random() < 0.5 else r))
        elif k < 0.52:
            ops.append(dict(op="copy", r=r))
        elif k < 0.66 and L > 0:
            if rng.random() < 0.5:              # circular window wrapping over the origin
                f = rng.randrange(L // 2, L)
                ops.append(dict(op="sub", r=r, **{"from": f}, to=rng.randrange(0, f + 1), circ=True))
            else:
                f = rng.randrange(0, L)
                ops.append(dict(op="sub", r=r, **{"from": f}, to=rng.randrange(f + 1, L + 1), circ=False))
        elif k < 0.76 and L <= rc_max:
            ops.append(dict(op="rc", r=r, inplace=rng.random() < 0.4))
        elif k < 0.82:
            ops.append(dict(op="setseq", r=r, seq=rseq(rng, L if v.qual is not None else rlen(rng))))
        elif k < 0.88 and L > 0:
            ops.append(dict(op="setqual", r=r, qual=rqual(rng, L)))
        elif k < 0.92 and L > 0:
            ops.append(dict(op="poke", r=r, i=rng.randrange(0, L), b=ord(rng.choice(IUPAC))))
        elif k < 0.95:
            ops.append(dict(op="join", r=r, r2=rng.choice(lv), inplace=rng.random() < 0.5))
        elif k < 0.98:
            ops.append(dict(op="setfeat", r=r, feat=rfeat(rng, L), n=rng.choice([0, 300, 400, 1100])))
        else:
            ops.append(dict(op="churn", n=rng.randrange(1, 4), b=rng.choice([1, 300, 301, 1024])))
    return dict(tag="reuse", ops=ops)


# ---------------------------------------------------------------- rendering for the Coq model
def nlist(b):
    return "[" + ";".join(str(x) for x in b) + "]"


def sq(s):
    return nlist(s.encode("latin1", "replace"))      # poisoned bytes arrive as U+FFFD through JSON: any byte that differs from the model will do


def mm_term(m):
    return "[" + ";".join("(%s, %d%%Z)" % (sq(k), p) for k, p in sorted(m.items())) + "]"


def feat_of(op):
    return sq(op.get("feat", "")) if op.get("hasfeat") else "[]"


def lower_of(op):
    return "false" if op.get("via") in RAW_VIAS else "true"


def op_term(op):
    k = op["op"]
    if k == "new":
        q = nlist(op.get("qual") or [])
        m = "(Some %s)" % mm_term(op["mm"]) if op.get("hasmm") else "None"
        return "ONew %s %s %s %s %s" % (sq(op["seq"]), q, m, feat_of(op), lower_of(op))
    if k == "copy":
        return "OCopy %d%%nat" % op["r"]
    if k == "rc":
        return "ORc %d%%nat %s" % (op["r"], "true" if op["inplace"] else "false")
    if k == "sub":
        return "OSub %d%%nat (%d)%%Z (%d)%%Z %s" % (op["r"], op["from"], op["to"], "true" if op["circ"] else "false")
    if k == "join":
        return "OJoin %d%%nat %d%%nat %s" % (op["r"], op["r2"], "true" if op["inplace"] else "false")
    if k == "setseq":
        return "OSetSeq %d%%nat %s" % (op["r"], sq(op["seq"]))
    if k == "setqual":
        return "OSetQual %d%%nat %s" % (op["r"], nlist(op["qual"]))
    if k == "poke":
        return "OPoke %d%%nat %d %d" % (op["r"], op["i"], op["b"])
    if k == "pokeq":
        return "OPokeQ %d%%nat %d %d" % (op["r"], op["i"], op["b"])
    if k == "setmm":
        return "OSetMm %d%%nat %s" % (op["r"], mm_term(op["mm"]))
    if k == "pokemm":
        return "OPokeMm %d%%nat %s (%d)%%Z" % (op["r"], sq(op["key"]), op["b"])
    if k == "recycle":
        return "ORecycle %d%%nat" % op["r"]
    if k == "write":
        return "OWrite %d%%nat %s" % (op["r"], sq(op["seq"]))
    if k == "setfeat":
        return "OSetFeat %d%%nat %s" % (op["r"], sq(op["feat"]))
    if k == "pokef":
        return "OPokeF %d%%nat %d %d" % (op["r"], op["i"], op["b"])
    if k == "pair":
        return "OPair %d%%nat %d%%nat" % (op["r"], op["r2"])
    if k == "unpair":
        return "OUnpair %d%%nat" % op["r"]
    if k in EDITS:
        return "OEdit %d%%nat %s" % (op["r"], edit_term(op))
    return "ONop"


EDITS = ("clear", "clearqual", "writeq", "grow")


def edit_term(op):
    k = op["op"]
    return "EClear" if k == "clear" else "EClearQ" if k == "clearqual" else "EGrow" if k == "grow" else "(EWriteQ %s)" % nlist(op["qual"])


def val_term(v):
    if not v["live"]:
        return "None"
    q = nlist(v["qual"]) if v["hasq"] else "[]"
    m = "None" if v.get("mm") is None else "(Some [%s])" % ";".join("(%s, (%d)%%Z)" % (sq(k), p) for k, p in v["mm"])
    return "(Some (mkv %s %s %s %s None, (%d)%%Z))" % (sq(v["seq"]), q, m, sq(v.get("feat", "")), v.get("mate", -1))


def case_term(c, o):
    steps = "[" + ";".join("(%s, (%d)%%Z, (%d)%%Z)" % (dict(ok="SOk", err="SErr", panic="SPanic")[s["status"]], s["res"], s["same"]) for s in o["steps"]) + "]"
    return "mkh [%s]\n  %s\n  [%s]" % (";\n  ".join(op_term(op) for op in c["ops"]), steps, ";".join(val_term(v) for v in o["final"]))


def xcase_term(v):
    """Composition() and QualitiesString() of one live object of a final snapshot (Model.xcase)"""
    return "mkx %s %s [%s] %s" % (sq(v["seq"]), nlist(v["qual"]) if v["hasq"] else "[]", ";".join("(%d, %d)" % (k, n) for k, n in v.get("comp") or []), sq(v.get("qstr") or ""))


def choice_term(rng):
    return "CFresh" if rng.random() < 0.5 else "(CPool %d%%nat)" % rng.randrange(0, 4)


def cop_term(op, rng):
    """the operation for the ownership model (Heap.v): same operation + pool hand-out choices drawn at random"""
    k = op["op"]
    ch = lambda: choice_term(rng)
    if k == "new":
        m = "(Some %s)" % mm_term(op["mm"]) if op.get("hasmm") else "None"
        return "CNew %s %s %s %s %s %s %s %s" % (sq(op["seq"]), nlist(op.get("qual") or []), m, feat_of(op), lower_of(op), ch(), ch(), ch())
    if k == "copy":
        return "CCopy %d%%nat %s %s %s" % (op["r"], ch(), ch(), ch())
    if k == "rc":
        return "CRc %d%%nat %s %s %s %s" % (op["r"], "true" if op["inplace"] else "false", ch(), ch(), ch())
    if k == "sub":
        return "CSub %d%%nat (%d)%%Z (%d)%%Z %s %s %s %s" % (op["r"], op["from"], op["to"], "true" if op["circ"] else "false", ch(), ch(), ch())
    if k == "join":
        return "CJoin %d%%nat %d%%nat %s %s %s %s" % (op["r"], op["r2"], "true" if op["inplace"] else "false", ch(), ch(), ch())
    if k == "write":
        return "CWrite %d%%nat %s" % (op["r"], sq(op["seq"]))
    if k == "setfeat":
        return "CSetFeat %d%%nat %s %s" % (op["r"], sq(op["feat"]), ch())
    if k == "pokef":
        return "CPokeF %d%%nat %d %d" % (op["r"], op["i"], op["b"])
    if k == "pair":
        return "CPair %d%%nat %d%%nat" % (op["r"], op["r2"])
    if k == "unpair":
        return "CUnpair %d%%nat" % op["r"]
    if k == "setseq":
        return "CSetSeq %d%%nat %s %s" % (op["r"], sq(op["seq"]), ch())
    if k == "setqual":
        return "CSetQual %d%%nat %s %s" % (op["r"], nlist(op["qual"]), ch())
    if k == "poke":
        return "CPoke %d%%nat %d %d" % (op["r"], op["i"], op["b"])
    if k == "pokeq":
        return "CPokeQ %d%%nat %d %d" % (op["r"], op["i"], op["b"])
    if k == "setmm":
        return "CSetMm %d%%nat %s" % (op["r"], mm_term(op["mm"]))
    if k == "pokemm":
        return "CPokeMm %d%%nat %s (%d)%%Z" % (op["r"], sq(op["key"]), op["b"])
    if k == "recycle":
        return "CRecycle %d%%nat" % op["r"]
    if k in EDITS:
        return "CEdit %d%%nat %s" % (op["r"], edit_term(op))
    if k == "churn":
        return "CChurn %d%%nat %s" % (rng.randrange(0, 4), nlist([0xDB] * rng.randrange(0, 6)))
    return "CChurn 99%nat []"


def ccase_term(c, o, rng):
    steps = "[" + ";".join("(%s, (%d)%%Z, (%d)%%Z)" % (dict(ok="SOk", err="SErr", panic="SPanic")[s["status"]], s["res"], s["same"]) for s in o["steps"]) + "]"
    return "mkcc [%s]\n  %s\n  [%s]" % (";\n  ".join(cop_term(op, rng) for op in c["ops"]), steps, ";".join(val_term(v) for v in o["final"]))


def tcase_term(c, o):
    """the history with the REAL pool events of every step and the identities of the registers' buffers after every step (Trace.v)"""
    st = dict(ok="SOk", err="SErr", panic="SPanic")
    steps = []
    for s in o["steps"]:
        evs = ";".join("%s (%d)%%Z %d" % ("EvG" if e[0] == 0 else "EvR", e[1], e[2]) for e in (s.get("pool") or []))
        bufs = ";".join("((%d)%%Z, (%d)%%Z, (%d)%%Z)" % tuple(b) for b in (s.get("bufs") or []))
        steps.append("mkts [%s] [%s] (%s, (%d)%%Z, (%d)%%Z) %d%%nat" % (evs, bufs, st[s["status"]], s["res"], s["same"], len(s.get("shared") or [])))
    return "mktc [%s]\n  [%s]\n  [%s]" % (";\n  ".join(op_term(op) for op in c["ops"]), ";\n   ".join(steps), ";".join(val_term(v) for v in o["final"]))


IMPORTS_TRACE = "From Coq Require Import NArith ZArith List. Import ListNotations. Open Scope N_scope.\nFrom OBI.C07 Require Import Model Heap Trace."
IMPORTS_HEAP = "From Coq Require Import NArith ZArith List. Import ListNotations. Open Scope N_scope.\nFrom OBI.C07 Require Import Model Heap."
IMPORTS = "From Coq Require Import NArith ZArith List. Import ListNotations. Open Scope N_scope.\nFrom OBI.C07 Require Import Model."


# ---------------------------------------------------------------- evaluation
def known_key(c, why):
    return None


ERRCODES = {2: "the pool handed out a buffer that a live object of the ownership model owns",
            3: "a buffer was recycled that a live object still owns after the operation",
            4: "the buffers of the registers are not those the model predicts (a live object's buffer given to another object, or a buffer moved outside an append)",
            5: "step status / result register / alias differ", 6: "final values differ", 7: "malformed case",
            8: "the backing arrays of two different live objects overlap"}


def run_harness(ctx, vcases, timeout=600):
    """vh c07 with the pool trace of the verif hook switched on (the harness reads the events of every operation back from the file)"""
    tr = os.path.join(VERIF, ".build", "c07_pooltrace_%d.txt" % os.getpid())
    try:
        if os.path.exists(tr):
            os.remove(tr)
        return ctx.vh_robust("c07", vcases, timeout=timeout, one_timeout=20, binary="env VERIF_POOL_TRACE=%s %s" % (tr, ctx.vh_bin))
    finally:
        if os.path.exists(tr):
            os.remove(tr)


def killed(out):
    """coqc was killed from outside (OOM killer / somebody's pkill on a loaded machine): not a verdict, retry"""
    return any(w in (out or "")[-300:] for w in ("Killed", "Terminated")) and "Error" not in (out or "")[-300:]


def coq_list(ctx, name, imports, terms, expr, shard=100, timeout=900, workers=14):
    """Eval vm_compute of `expr cases` per shard; returns the list of printed results (strings)"""
    from concurrent.futures import ThreadPoolExecutor
    jobs = []
    for k in range(0, len(terms), shard):
        jobs.append(("C07_%s_%d" % (name, k // shard), imports + "\nDefinition cases := [\n" + ";\n".join(terms[k:k + shard]) + "\n].\n" +
                     "Definition M := Eval vm_compute in (%s cases).\nPrint M.\n" % expr))

    def one(j):
        for attempt in range(3):
            rc, out, dt = ctx.coq_eval(j[0], j[1], timeout=timeout)
            if rc == 0 or not killed(out):
                break
        return rc, out, dt
    with ThreadPoolExecutor(max_workers=workers) as ex:
        return list(ex.map(one, jobs))


def correspond_retry(ctx, name, imports, terms, fn, shard):
    for attempt in range(3):
        bad, err = ctx.correspond(name, imports, terms, fn, shard)
        if bad is not None or not killed(err):
            break
    return bad, err


def evaluate(ctx, cases, broken, label, corr=True, heap=True):
    import time
    tm = ctx.cov.setdefault("phase_seconds", {})
    t0 = time.time()

    def lap(name):
        nonlocal t0
        tm[name] = round(tm.get(name, 0) + time.time() - t0, 1)
        t0 = time.time()
    vcases = [dict(kind="hist", each=True, ops=c["ops"]) for c in cases]
    obs = run_harness(ctx, vcases)
    lap("harness")
    nviol = 0
    failing = []
    for i, (c, o) in enumerate(zip(cases, obs)):
        why = check_history(c, o)
        if why:
            failing.append(i)
            key = known_key(c, why)
            if key and ctx.kf_match(key):
                ctx.known(key, ctx.kf_match(key)["what"])
                continue
            nviol += 1
            if nviol <= 3:
                ctx.violation("%s_oracle_%d" % (label, i), dict(property="C07", kind="direct-oracle", tag=c.get("tag"), why=why,
                                                              case=dict(ops=c["ops"], law=c.get("law")), implementation=o))
    # the ownership invariant of the model (Heap.v: live objects own pairwise disjoint buffers) observed on the real objects,
    # and the reuse the real pool performed (MEASURED from the Get / Recycle events of the verif hook)
    inv = ctx.cov.setdefault("ownership_invariant_observed", dict(snapshots=0, snapshots_with_overlapping_buffers=0, first=None))
    pe = ctx.cov.setdefault("pool_events", dict(get=0, recycle=0, gets_handing_out_a_buffer_recycled_earlier_in_the_same_history=0,
                                                histories_with_reuse=0, buffers_owned_by_two_or_more_objects_over_time=0))
    for c, o in zip(cases, obs):
        recycled, reused_here = set(), 0
        owners = {}
        obj_of = {}
        for k, stp in enumerate(o.get("steps") or []):
            for e in stp.get("pool") or []:
                if e[0] == 1:
                    pe["recycle"] += 1
                    recycled.add(e[1])
                else:
                    pe["get"] += 1
                    if e[1] in recycled:
                        reused_here += 1
            if stp["res"] >= 0:
                obj_of[stp["res"]] = obj_of.get(stp["same"], ("o", k)) if stp["same"] >= 0 else ("o", k)
            for r, tri in enumerate(stp.get("bufs") or []):
                for bid in tri:
                    if bid >= 0 and r in obj_of:
                        owners.setdefault(bid, set()).add(obj_of[r])
            inv["snapshots"] += 1
            if stp.get("shared"):
                inv["snapshots_with_overlapping_buffers"] += 1
                if inv["first"] is None:
                    inv["first"] = dict(ops=c["ops"][:k + 1], registers=stp["shared"])
        pe["gets_handing_out_a_buffer_recycled_earlier_in_the_same_history"] += reused_here
        pe["histories_with_reuse"] += 1 if reused_here else 0
        pe["buffers_owned_by_two_or_more_objects_over_time"] += sum(1 for s in owners.values() if len(s) > 1)
    mism = []
    lap("oracle")
    if corr:
        ok_idx = [i for i, o in enumerate(obs) if o.get("kind") == "hist"]
        # the three Coq passes are independent: they run side by side (terms rendered first: ctx.rng is not thread safe)
        from concurrent.futures import ThreadPoolExecutor
        terms = [tcase_term(cases[i], obs[i]) for i in ok_idx]
        tshard = 100 if label != "longreuse" else 3
        h_idx = [i for i in ok_idx if cases[i].get("tag") in ("history", "reuse", "pool-setqualities", "pool-setfeatures") or str(cases[i].get("tag", "")).startswith("revcomp-backlink")] if heap else []
        hterms = [ccase_term(cases[i], obs[i], ctx.rng) for i in h_idx]
        vterms = [case_term(cases[i], obs[i]) for i in ok_idx]
        # the accessors Composition / QualitiesString of the distinct live objects of the final snapshots (Model.xcase)
        xseen, xterms, xowner = set(), [], []
        for i in ok_idx:
            for v in obs[i].get("final") or []:
                # (objects over the alphabet of the property only: what Composition does with other bytes is not the property's business)
                if v.get("live") and "md5" in v and len(v["seq"]) <= 300 and set(v["seq"]) <= LOWER:
                    key = (v["seq"], tuple(v["qual"]) if v["hasq"] else None)
                    if key not in xseen and len(xterms) < (600 if ctx.quick else 20000):
                        xseen.add(key)
                        xterms.append(xcase_term(v))
                        xowner.append(i)
        # (quick tier only: in the thorough tier 4 x 14 coqc at once need too much memory on a shared machine)
        with ThreadPoolExecutor(max_workers=4 if ctx.quick else 1) as ex:
            f4 = ex.submit(correspond_retry, ctx, label + "_accessors", IMPORTS, xterms, "xmismatches", 200)
            f1 = ex.submit(correspond_retry, ctx, label, IMPORTS, vterms, "mismatches", 150 if label != "longreuse" else 3)
            f2 = ex.submit(coq_list, ctx, label + "_trace", IMPORTS_TRACE, terms, "trace_summary", tshard)
            f3 = ex.submit(correspond_retry, ctx, label + "_heap", IMPORTS_HEAP, hterms, "heap_mismatches", 150) if heap else None
            bad, err = f1.result()
            tres = f2.result()
            bad2, err2 = f3.result() if f3 else ([], None)
            bad4, err4 = f4.result()
        lap("coq_passes")
        if bad4 is None:
            broken.append(dict(kind="correspondence", detail=err4))
        else:
            ctx.cov["accessor_model_evaluations"] = ctx.cov.get("accessor_model_evaluations", 0) + len(xterms)
        if bad is None:
            broken.append(dict(kind="correspondence", detail=err))
        else:
            mism = sorted(set(ok_idx[i] for i in bad) | set(xowner[i] for i in (bad4 or [])))
        # TRACE VALIDATION: the real Get / Recycle events of every step and the identities of the registers' buffers, replayed on the
        # ownership model with the hand-out choices the real pool made (Trace.v)
        bad3, err3, nre = [], None, 0
        for k, (rc, out, dt) in enumerate(tres):
            m = re.search(r"M\s*=\s*\(\[([0-9;\s]*)\]\s*,\s*(\d+)\)", out.replace("%nat", ""))
            if rc != 0 or not m:
                bad3, err3 = None, "coqc failed on generated trace cases (%s): %s" % (label, out[-1500:])
                break
            bad3 += [k * tshard + int(x) for x in m.group(1).replace("\n", " ").split(";") if x.strip()]
            nre += int(m.group(2))
        if bad3 is None:
            broken.append(dict(kind="correspondence", detail=err3))
        else:
            ctx.cov["traces_validated_against_impl"] = ctx.cov.get("traces_validated_against_impl", 0) + len(terms)
            ctx.cov["model_evaluations"] = ctx.cov.get("model_evaluations", 0) + len(terms)
            ctx.cov["model_acquires_from_the_pool_driven_by_real_events"] = ctx.cov.get("model_acquires_from_the_pool_driven_by_real_events", 0) + nre
            tb = [ok_idx[i] for i in bad3]
            tr = ctx.cov.setdefault("trace_rejections", dict(rejected=0, rejected_and_oracle_silent=0))
            tr["rejected"] += len(tb)
            tr["rejected_and_oracle_silent"] += len([i for i in tb if i not in failing])
            for i in tb[:3]:
                if i in failing:
                    continue
                rc, out, dt = coq_list(ctx, label + "_verdict", IMPORTS_TRACE, [tcase_term(cases[i], obs[i])], "trace_verdicts")[0]
                m = re.search(r"\((\d+),\s*(\d+)\)", out.replace("%nat", ""))
                step, code = (int(m.group(1)), int(m.group(2))) if m else (-1, 0)
                ctx.violation("%s_pooltrace_%d" % (label, i), dict(
                    property="C07", kind="pool-trace-rejected-by-model", tag=cases[i].get("tag"), step=step, code=code,
                    why="step %d: %s" % (step, ERRCODES.get(code, "?")), case=dict(ops=cases[i]["ops"], law=cases[i].get("law")), implementation=obs[i],
                    note="the real pool events / buffer identities of this history are not a run of the ownership model (C07.Trace.trun by vm_compute)"))
            mism = sorted(set(mism) | set(tb))
        if heap:
            # the ownership model (Heap.v) on the random histories, with RANDOM pool hand-out choices (other hand-out orders than the real one)
            if bad2 is None:
                broken.append(dict(kind="correspondence", detail=err2))
            else:
                ctx.cov["ownership_model_evaluations"] = ctx.cov.get("ownership_model_evaluations", 0) + len(h_idx)
                mism = sorted(set(mism) | {h_idx[i] for i in bad2})
    return obs, failing, mism


# ---------------------------------------------------------------- command level: obicomplement (ReverseComplementWorker(true) behind the
# readers, the worker pool and the writers) against the same oracle and against the in-process run
def cmd_records(rng, n):
    recs = []
    for i in range(n):
        z = rng.random()
        L = rng.randrange(1, 61) if z < 0.8 else rng.randrange(280, 330) if z < 0.93 else rng.randrange(1000, 1100)
        s = rseq(rng, L)
        if rng.random() < 0.1:
            s = s.upper()
        r = dict(id="r%04d" % i, seq=s, qual=[rng.randrange(0, 94) for _ in range(L)], mm=rmm(rng, L) if rng.random() < 0.4 else None,
                 dfn=rng.choice(DEFS) if rng.random() < 0.3 else None, count=rng.randrange(1, 50) if rng.random() < 0.3 else None)
        recs.append(r)
    return recs


def cmd_header(r):
    a = {}
    if r["mm"] is not None:
        a["pairing_mismatches"] = r["mm"]
    if r["dfn"] is not None:
        a["definition"] = r["dfn"]
    if r["count"] is not None:
        a["count"] = r["count"]
    return r["id"] + (" " + json.dumps(a) if a else "")


def cmd_write(path, recs, fastq):
    with open(path, "w") as f:
        for r in recs:
            if fastq:
                f.write("@%s\n%s\n+\n%s\n" % (cmd_header(r), r["seq"], "".join(chr(q + 33) for q in r["qual"])))
            else:
                f.write(">%s\n" % cmd_header(r) + "".join(r["seq"][k:k + 60] + "\n" for k in range(0, len(r["seq"]), 60)))


def cmd_parse(text):
    """records of a FASTA / FASTQ output with JSON headers: (id, seq, qual | None, annotations)"""
    out, lines, i = [], text.split("\n"), 0
    while i < len(lines):
        l = lines[i]
        if not l:
            i += 1
            continue
        head, _, rest = l[1:].partition(" ")
        rest = rest.strip()
        ann = json.loads(rest) if rest.startswith("{") else {}
        if l[0] == "@":
            out.append(dict(id=head, seq=lines[i + 1], qual=[ord(ch) - 33 for ch in lines[i + 3]], ann=ann))
            i += 4
        else:
            j, sq = i + 1, []
            while j < len(lines) and not lines[j].startswith(">"):
                sq.append(lines[j])
                j += 1
            out.append(dict(id=head, seq="".join(sq), qual=None, ann=ann))
            i = j
    return out


def cmd_expected(r, times, fastq):
    v = Val(r["seq"].lower(), list(r["qual"]) if fastq else None, dict(r["mm"]) if r["mm"] is not None else None)
    for _ in range(times):
        v = spec_rc(v)
    return v


def cmd_record_failure(r, got, times, fastq):
    e = cmd_expected(r, times, fastq)
    if got["id"] != r["id"]:
        return "identifier %r" % got["id"]
    if got["seq"] != e.seq:
        return "sequence %r, expected %r" % (got["seq"][:80], e.seq[:80])
    if got["qual"] != e.qual:
        return "qualities %r, expected %r" % (got["qual"], e.qual)
    gm = got["ann"].get("pairing_mismatches")
    if (gm is None) != (e.mm is None) or (gm is not None and sorted((k.lower(), p) for k, p in gm.items()) != sorted((k.lower(), p) for k, p in e.mm.items())):
        return "pairing_mismatches %r, expected %r" % (gm, e.mm)
    if got["ann"].get("definition") != r["dfn"] or got["ann"].get("count") != r["count"]:
        return "definition / count %r %r" % (got["ann"].get("definition"), got["ann"].get("count"))
    return None


CMD_RUNS = [  # name, arguments after the program (%s = input file), fastq input, number of reverse complements, ordered output
    ("fastq", "%s", True, 1, True),
    ("fasta", "%s", False, 1, True),
    ("fastq-twice-through-stdin", "%s | {bin} ", True, 2, True),
    ("fastq-no-order-4cpu", "--no-order --max-cpu 4 --batch-size 7 %s", True, 1, False),
    ("fasta-one-cpu-small-batches", "--force-one-cpu --batch-size 3 %s", False, 1, True),
    ("fastq-to-file-gz", "-Z -o {out}.gz %s && gzip -dc {out}.gz", True, 1, True),
]


def run_commands(ctx, broken, only=None, recs=None):
    import time
    t0 = time.time()
    bindir, err = ctx.build_cmds(["obicomplement"])
    if bindir is None:
        broken.append(dict(kind="command-build", detail=err))
        return
    prog = os.path.join(bindir, "obicomplement")
    d = os.path.join(VERIF, ".build", "c07_cmd_%d" % os.getpid())
    os.makedirs(d, exist_ok=True)
    recs = recs if recs is not None else cmd_records(ctx.rng, 150 if ctx.quick else 1500)
    fq, fa = os.path.join(d, "in.fastq"), os.path.join(d, "in.fasta")
    cmd_write(fq, recs, True)
    cmd_write(fa, recs, False)
    from vlib import sh
    stats = {}
    outputs = {}
    try:
        for name, args, fastq, times, ordered in CMD_RUNS:
            if only and name != only:
                continue
            line = "%s %s" % (prog, args.replace("{bin}", prog).replace("{out}", os.path.join(d, "out_" + name)) % (fq if fastq else fa))
            rc, out, errt, dt = sh(line + " 2>/dev/null", timeout=120)
            bad = None
            try:
                got = cmd_parse(out) if rc == 0 else None
            except Exception as e:
                got, bad = None, "unreadable output: %r" % e
            if got is None:
                bad = bad or "exit status %d" % rc
            elif len(got) != len(recs):
                bad = "%d records written for %d records read" % (len(got), len(recs))
            if bad:
                ctx.violation("cmd_%s" % name, dict(property="C07", kind="command", run=name, command=line, why=bad, records=recs[:5]))
                continue
            if not ordered:
                got = sorted(got, key=lambda g: g["id"])
            outputs[name] = got
            nbad = 0
            for r, g in zip(recs, got):
                why = cmd_record_failure(r, g, times, fastq)
                if why:
                    nbad += 1
                    if nbad <= 2:
                        ctx.violation("cmd_%s_%s" % (name, r["id"]), dict(property="C07", kind="command", run=name, command=line, why="record %s: %s" % (r["id"], why),
                                                                        records=[r], implementation=g))
            stats[name] = dict(records=len(got), failing=nbad)
        # differential with the in-process run the histories judge: the same records through NewBioSequence + SetQualities + the header's
        # pairing_mismatches as a parser stores it + ReverseComplementWorker(true)
        if not only:
            hc = [dict(kind="hist", each=False, ops=[dict(op="new", seq=r["seq"], qual=r["qual"], hasmm=r["mm"] is not None, mm=r["mm"], mmtype="iface"),
                                                     dict(op="rc", r=0, inplace=True, via="worker")]) for r in recs]
            obs = run_harness(ctx, hc, timeout=120)
            nd = 0
            for r, o, g in zip(recs, obs, outputs.get("fastq") or []):
                f = (o.get("final") or [{}])[0]
                gm = g["ann"].get("pairing_mismatches")
                if f.get("seq") != g["seq"] or f.get("qual") != g["qual"] or (None if f.get("mm") is None else sorted((k, p) for k, p in f["mm"])) != (None if gm is None else sorted(gm.items())):
                    nd += 1
                    if nd <= 2:
                        ctx.violation("cmd_differential_%s" % r["id"], dict(property="C07", kind="command", run="fastq", why="record %s: the command and the in-process ReverseComplementWorker(true) differ" % r["id"],
                                                                           records=[r], implementation=g, in_process=f))
            stats["in_process_differential"] = dict(records=len(obs), differing=nd)
    finally:
        import shutil
        shutil.rmtree(d, ignore_errors=True)
    ctx.cov["commands"] = dict(obicomplement=stats, seconds=round(time.time() - t0, 1))


def replay_tables(ctx, t, broken):
    """The table theorems are finite: compute the failing symbol from the dumped tables and replay it on the code."""
    seen = set()
    for what, ch in table_failures(t):
        if ch in seen or len(seen) >= 3:
            continue
        seen.add(ch)
        c = dict(tag="table:" + what, ops=[dict(op="new", seq=ch * 3 + "acg", qual=None, hasmm=False, mm=None), dict(op="rc", r=0, inplace=False),
                                            dict(op="rc", r=1, inplace=False)], law=["rc (rc s) = s", 0, 2])
        obs = ctx.vh_robust("c07", [dict(kind="hist", each=True, ops=c["ops"])], timeout=60)
        ctx.violation("table_%d" % ord(ch), dict(property="C07", kind="table-obligation", why=what, symbol=ch, case=dict(ops=c["ops"], law=c["law"]),
                                                 oracle=check_history(c, obs[0]), implementation=obs[0], tables=t))


def run(ctx, broken):
    rng = ctx.rng
    t = getattr(ctx, "_c07_tables", None) or dump_tables(ctx)
    replay_tables(ctx, t, broken)
    quick = ctx.quick
    cases = list(CORPUS)
    cases += gen_windows(rng, [1, 2, 3, 5] if quick else [1, 2, 3, 4, 5, 6])
    cases += gen_laws(rng, 60 if quick else 500, 60 if quick else 300)
    # reverse complement on every length 0..40 (middle base of odd lengths), then long ones
    for L in list(range(0, 41 if quick else 130)) + ([257, 1000] if quick else [257, 300, 301, 1000, 1024, 1025, 2000]):
        nw = new_op(rng, L, pq=0.5, pm=0.3)
        cases.append(dict(tag="rc-length", law=["rc (rc s) = s", 0, 2], ops=[nw, dict(op="rc", r=0, inplace=False), dict(op="rc", r=1, inplace=True),
                                                                             dict(op="copy", r=0), dict(op="rc", r=3, inplace=True)]))
    if not quick:   # every string over a 4-letter sub-alphabet up to length 5, every symbol in a short string
        import itertools
        for L in range(1, 6):
            for tup in itertools.product("ac[n", repeat=L):
                cases.append(dict(tag="rc-exhaustive", ops=[dict(op="new", seq="".join(tup), qual=list(range(L)), hasmm=False, mm=None),
                                                            dict(op="rc", r=0, inplace=False), dict(op="rc", r=0, inplace=True)]))
    cases += [gen_rc_twice(rng) for _ in range(60 if quick else 600)]
    nh = 200 if quick else 2000
    for i in range(nh):
        cases.append(gen_history(rng, rng.randrange(3, 14), rng.choice([4, 8, 12, 40]) if i % 10 else 400))
    # reuse-heavy histories (lengths around the pool's thresholds 300 / 1024 and above): all of them go through the trace validator
    reuse_cases = [gen_reuse(rng, rng.randrange(8, 30)) for _ in range(60 if quick else 500)]
    # long sequences go through the real code and the direct oracle only (the list model is quadratic in the length)
    cases += [c for c in reuse_cases if max(len(op.get("seq", "")) for op in c["ops"]) <= 300]
    long_cases = [c for c in cases if max(len(op.get("seq", "")) for op in c["ops"]) > 300]
    long_cases += gen_laws(rng, 20 if quick else 300, 2000)
    cases = [c for c in cases if max(len(op.get("seq", "")) for op in c["ops"]) <= 300]
    ctx.cov["long_cases_oracle_only"] = len(long_cases)
    obs, failing, mism = evaluate(ctx, cases, broken, "main")
    obs_l, failing_l, _ = evaluate(ctx, long_cases, broken, "long", corr=False)
    run_commands(ctx, broken)
    # long reuse histories (300 < length <= 1400): value model AND trace validator (no reverse complement above 400 symbols in them)
    long_reuse = [c for c in reuse_cases if max(len(op.get("seq", "")) for op in c["ops"]) > 300][:18 if quick else 120]
    obs_r, failing_r, mism_r = evaluate(ctx, long_reuse, broken, "longreuse", corr=True, heap=False)
    ctx.cov["long_reuse_cases_through_the_model"] = len(long_reuse)
    failing_l = failing_l + failing_r
    if mism_r and not ctx.violations:
        broken.append(dict(kind="correspondence", name="corr:C07/reuse-long", first_diverging_case=long_reuse[mism_r[0]]["ops"], implementation=obs_r[mism_r[0]], n_diverging=len(mism_r)))
    long_cases = long_cases + long_reuse
    ctx.cov["evaluations"] = len(cases) + len(long_cases)
    nontriv = {json.dumps(c["ops"], sort_keys=True) for c in cases + long_cases if len(c["ops"]) >= 2 and any(len(op.get("seq", "")) >= 2 for op in c["ops"])}
    ctx.cov["distinct_nontrivial"] = len(nontriv)
    ctx.cov["rule"] = ("a case is an operation history on real BioSequence objects, every live object observed after every step; non-trivial = at least "
                       "two operations and a sequence of length >= 2; distinct = distinct operation lists. Windows: every (from,to) in [-1,2L+1]x[-2,2L+2], "
                       "linear and circular, with a mismatch on every position; lengths 0..40 for rc; alphabet acgtrymkswbdhvn.-[]; plus the records of the "
                       "obicomplement runs (coverage.commands)")
    dist = {}
    for c in cases + long_cases:
        dist[c.get("tag", "?")] = dist.get(c.get("tag", "?"), 0) + 1
    opd = {}
    for c in cases + long_cases:
        for op in c["ops"]:
            opd[op["op"]] = opd.get(op["op"], 0) + 1
    ctd, mmt, wpos = {}, {}, 0
    for c in cases + long_cases:
        for op in c["ops"]:
            if op["op"] == "new":
                ctd[op.get("via") or "NewBioSequence"] = ctd.get(op.get("via") or "NewBioSequence", 0) + 1
                if op.get("hasmm"):
                    mmt[op.get("mmtype") or "map[string]int"] = mmt.get(op.get("mmtype") or "map[string]int", 0) + 1
        if c.get("tag") == "window" and c["ops"][0].get("hasmm"):
            wpos += len(c["ops"][0]["mm"])
    ctx.cov["distribution"] = dict(cases_by_kind=dist, operations=opd, constructors=ctd, pairing_mismatches_stored_as=mmt,
                                   window_x_mismatch_position_pairs=wpos)
    ctx.cov["exhaustive"] = "all windows (from,to,circular) of the listed short lengths; complement tables: every byte 0..255 / every letter"
    ctx.cov["oracle_failures"] = len(failing) + len(failing_l)
    ctx.cov["model_vs_impl_mismatches"] = len(mism)
    ctx.samples = [dict(case=cases[i]["ops"], implementation_final=obs[i].get("final")) for i in (0, len(CORPUS) + 7, len(cases) - 1)]
    if mism and not ctx.violations:
        more = [gen_history(rng, rng.randrange(3, 16), rng.choice([4, 8, 12, 40, 400])) for _ in range(3000)] + gen_laws(rng, 1000, 500)
        evaluate(ctx, more, [], "search", corr=False)
        if not ctx.violations:
            i = mism[0]
            broken.append(dict(kind="correspondence", name="corr:C07/%s" % cases[i].get("tag"), first_diverging_case=cases[i]["ops"],
                               implementation=obs[i], n_diverging=len(mism)))
    elif mism:
        ctx.cov["note"] = "model and implementation diverge on %d cases (violations reported by the direct oracle)" % len(mism)


def replay(ctx, rp):
    if rp.get("kind") == "command":               # the same records through the same command line
        before = len(ctx.violations)
        run_commands(ctx, [], only=rp.get("run"), recs=rp["records"])
        print("replay: obicomplement run %r on %d record(s):" % (rp.get("run"), len(rp["records"])), "property violated" if len(ctx.violations) > before else "property holds",
              "|", json.dumps(ctx.cov.get("commands")))
        return
    if rp.get("kind") == "table-obligation":      # re-dump the tables of the current build and re-evaluate the finite obligations
        bad = table_failures(dump_tables(ctx))
        print("replay: complement tables of the current build, symbol %r:" % rp.get("symbol"), [w for w, ch in bad if ch == rp.get("symbol")] or "obligations hold",
              "| all failing symbols:", sorted({ch for _, ch in bad}))
    c = rp["case"]
    c = dict(ops=c["ops"], law=c.get("law"))
    obs, failing, mism = evaluate(ctx, [c], [], "replay")
    print("replay:", json.dumps(c["ops"]))
    print("  implementation:", json.dumps(obs[0].get("final")))
    print("  oracle:", check_history(c, obs[0]) or "property holds", "| model:", "mismatch" if mism else "agrees")
