"""C08 — paired-end assembly: valid path, optimal score, correct consensus."""
import json, math

PROPS = ["C08/Props.v"]
META = dict(
    text="Rocq theorems over an executable model of the paired-end aligner with the pairing scores taken as data (any score function, any gap "
         "penalty): both fills (the code's recurrences, tie order and free rows/columns) followed by the run-length backtracking return a path "
         "that consumes both reads and whose score under the end-gap-free scheme is the last cell, which is the optimum over ALL alignments "
         "(general proof); exact mode reports max(left,right); fast mode after the 4-mer vote (sub-alignment or identical-overlap shortcut, "
         "then patching with the unaligned ends) also returns a full path of the reported score; the consensus has one base per column "
         "decided by that column alone (higher quality wins, a base beats a gap); strict optimum => the fragment's alignment is returned. "
         "On every run the real PEAlign / AssemblePESequences (one reused arena) are run on constructed and random read pairs; a Python oracle "
         "re-scores every path on the score matrix exported by the real code, runs an independent DP (and a brute-force enumeration on tiny "
         "shapes), rebuilds consensus bases, qualities and annotations and checks reassembly; the model (fills, exact and fast pipelines, "
         "consensus) is evaluated by vm_compute on the same exported matrices and compared with (isLeft, score, path) and the consensus.",
    note="Trusted: Coq kernel + vm_compute; the float computation of the pairing score tables and of the gap penalty is data (exported per "
         "case by the verif hook pkg/obialign/verif_c08.go); the 4-mer vote (obikmer.FastShiftFourMer) is not modelled: its outcome (shift, "
         "count) is read back from the observables and only checked by the oracle (independent vote) in the reassembly clause; consensus "
         "qualities and the annotations (ali_length, seq_a_single, seq_b_single, mode, score, seq_ab_match) are checked by the oracle only. "
         "Known finding ambiguous-overlap: the unconditional reassembly clause is false by construction (periodic fragments).")
TRUSTED = ["pairing scores sc(i,j) and the gap penalty are universally quantified in the theorems; per case they are the values computed by "
           "the real _PairingScorePeAlign / fill functions (exported through pkg/obialign/verif_c08.go)",
           "the outcome (shift, fastCount) of the 4-mer diagonal vote is an input of the fast-mode model (theorem: for every outcome within "
           "the bounds a vote can produce)"]

IUPAC = dict(a=1, c=2, g=4, t=8, r=5, y=10, s=6, w=9, k=12, m=3, b=14, d=13, h=11, v=7, n=15)
DECODE = ".acmgrsvtwyhkdbn"


# ----------------------------------------------------------------------------- generators
def rseq(rng, n, alpha="acgt"):
    return "".join(rng.choice(alpha) for _ in range(n))


def rquals(rng, n, kind=None):
    kind = kind or rng.choice(["q40", "any", "good", "edge", "any"])
    if kind == "q40":
        return [40] * n
    if kind == "good":
        return [rng.randrange(20, 42) for _ in range(n)]
    if kind == "edge":
        return [rng.choice([0, 1, 2, 40, 92, 93]) for _ in range(n)]
    return [rng.randrange(0, 94) for _ in range(n)]


def mutate(rng, s, q, nsub, nindel, niupac):
    s, q = list(s), list(q)
    for _ in range(nsub):
        if s:
            i = rng.randrange(len(s))
            s[i] = rng.choice([c for c in "acgt" if c != s[i]])
    for _ in range(niupac):
        if s:
            i = rng.randrange(len(s))
            s[i] = rng.choice("rykmswbdhvn")
    for _ in range(nindel):
        if rng.random() < 0.5 and len(s) > 1:
            i = rng.randrange(len(s))
            del s[i]
            del q[i]
        else:
            i = rng.randrange(len(s) + 1)
            s.insert(i, rng.choice("acgt"))
            q.insert(i, rng.randrange(0, 94))
    return "".join(s), q


def rconfig(rng, fast=None):
    return dict(fast=rng.random() < 0.5 if fast is None else fast, rel=rng.random() < 0.5,
                delta=rng.choice([0, 1, 2, 5, 5, 5, 20]), gap=rng.choice([2.0, 2.0, 2.0, 1.0, 0.5, 4.0, 0.0]),
                scale=rng.choice([1.0, 1.0, 1.0, 0.5, 2.0]), minov=rng.choice([20, 20, 1, 5, 10, 30]),
                minid=rng.choice([0.9, 0.9, 0.0, 0.5, 1.0]))


def frag_case(rng, maxlen, kind):
    """reads cut from one fragment: A = F[sa:sa+la], B = F[sb:sb+lb]."""
    la, lb = rng.randrange(1, maxlen + 1), rng.randrange(1, maxlen + 1)
    if kind == "periodic":
        unit = rseq(rng, rng.choice([1, 1, 2, 3, 4, 5, 7]))
        mk = lambda n: (unit * (n // len(unit) + 1))[:n]
    else:
        mk = lambda n: rseq(rng, n)
    geo = rng.choice(["std", "std", "std", "mirror", "same_start", "same_end", "containB", "containA", "shortov", "equal"])
    if geo == "equal":
        lb = la
        sa, sb = 0, 0
    elif geo == "same_start":
        sa, sb = 0, 0
    elif geo == "same_end":
        m = max(la, lb)
        sa, sb = m - la, m - lb
    elif geo == "containB":       # B strictly inside A
        la = max(la, 3)
        lb = rng.randrange(1, la - 1) if la > 2 else 1
        sa, sb = 0, rng.randrange(1, la - lb) if la - lb > 1 else 1
        lb = min(lb, la - sb - 1) or 1
    elif geo == "containA":
        lb = max(lb, 3)
        la = rng.randrange(1, lb - 1) if lb > 2 else 1
        sb, sa = 0, rng.randrange(1, lb - la) if lb - la > 1 else 1
        la = min(la, lb - sa - 1) or 1
    elif geo == "shortov":
        ov = min(rng.randrange(0, 4), la, lb)
        sa, sb = 0, la - ov
    elif geo == "mirror":
        ov = rng.randrange(1, min(la, lb) + 1)
        sb, sa = 0, lb - ov
    else:
        ov = rng.randrange(1, min(la, lb) + 1)
        sa, sb = 0, la - ov
    L = max(sa + la, sb + lb)
    F = mk(L)
    a, b = F[sa:sa + la], F[sb:sb + lb]
    qk = rng.choice(["q40", "good", "good", "any", "edge"])
    qa, qb = rquals(rng, la, qk), rquals(rng, lb, qk)
    c = dict(a=a, qa=qa, b=b, qb=qb, kind=kind, geo=geo, frag=F, sa=sa, sb=sb, qk=qk, errfree=True)
    if kind == "mut":
        c["errfree"] = False
        a, qa = mutate(rng, a, qa, rng.choice([0, 1, 2, 5]), rng.choice([0, 0, 1, 2]), rng.choice([0, 0, 1, 3]))
        b, qb = mutate(rng, b, qb, rng.choice([0, 1, 2, 5]), rng.choice([0, 0, 1, 2]), rng.choice([0, 0, 1, 3]))
        c.update(a=a, qa=qa, b=b, qb=qb)
    elif kind == "iupac":
        # error-free but the fragment itself carries ambiguity codes
        F2 = list(F)
        for _ in range(rng.choice([1, 2, 4])):
            F2[rng.randrange(L)] = rng.choice("rykmswbdhvn")
        F2 = "".join(F2)
        c.update(a=F2[sa:sa + la], b=F2[sb:sb + lb], frag=F2, errfree=False)
    return c


def gen_case(rng, maxlen):
    k = rng.random()
    if k < 0.30:
        c = frag_case(rng, maxlen, "overlap")
    elif k < 0.55:
        c = frag_case(rng, maxlen, "mut")
    elif k < 0.63:
        c = frag_case(rng, maxlen, "iupac")
    elif k < 0.73:
        c = frag_case(rng, maxlen, "periodic")
    elif k < 0.85:
        la, lb = rng.randrange(1, maxlen + 1), rng.randrange(1, maxlen + 1)
        alpha = rng.choice(["acgt", "acgt", "ac", "a", "acgtn"])
        c = dict(a=rseq(rng, la, alpha), qa=rquals(rng, la), b=rseq(rng, lb, alpha), qb=rquals(rng, lb), kind="random", errfree=False)
    else:
        la, lb = rng.randrange(1, 7), rng.randrange(1, 7)
        if rng.random() < 0.5:
            lb = rng.randrange(1, maxlen + 1)
        elif rng.random() < 0.5:
            la = rng.randrange(1, maxlen + 1)
        alpha = rng.choice(["acgt", "ac", "a"])
        c = dict(a=rseq(rng, la, alpha), qa=rquals(rng, la), b=rseq(rng, lb, alpha), qb=rquals(rng, lb), kind="short", errfree=False)
    c.update(rconfig(rng))
    return c


def C(a, b, qa=None, qb=None, **kw):
    c = dict(a=a, b=b, qa=qa if qa is not None else [40] * len(a), qb=qb if qb is not None else [40] * len(b),
             fast=False, rel=True, delta=5, gap=2.0, scale=1.0, minov=20, minid=0.9, kind="corpus", errfree=False)
    c.update(kw)
    return c


_F60 = "gattacacgtgcatgcaagtcctagcatcgatcgggatatcgcgatatagctagctagcaa"
CORPUS = [
    # exact mode must report the score (defect 14: score never assigned)
    C(_F60[:40], _F60[15:], tag="fixed:exact-score", frag=_F60, sa=0, sb=15, errfree=True, kind="overlap", geo="std"),
    # reads of length exactly 3 in fast mode (defect 14c: Encode4mer guard)
    C("acg", _F60[:30], fast=True, tag="fixed:len3-A"),
    C(_F60[:30], "cga", fast=True, tag="fixed:len3-B"),
    C("acg", "acg", fast=True, tag="fixed:len3-both"),
    # lengths 1,2 and no shared 4-mer
    C("a", "a", fast=True, tag="short"), C("ac", "ttt", fast=True, tag="short"), C("ac", "gt", fast=True, tag="short"),
    C("acgtacgt", "ttt", fast=True, tag="short"), C("a", "c"), C("a", "acgt"), C("acgt", "t"),
    # periodic fragment a^150 read as two a^100 (known finding: cannot be reassembled uniquely)
    C("a" * 100, "a" * 100, frag="a" * 150, sa=0, sb=50, errfree=True, kind="periodic", geo="std", tag="known:periodic"),
    C("a" * 100, "a" * 100, frag="a" * 150, sa=0, sb=50, errfree=True, kind="periodic", geo="std", fast=True, tag="known:periodic"),
    # identical overlap with an ambiguity code (fast shortcut score)
    C(_F60[:20] + "n" + _F60[21:45], _F60[10:20] + "n" + _F60[21:], fast=True, tag="iupac-shortcut"),
    # containment, identical starts, identical reads
    C(_F60, _F60[10:40], tag="contain"), C(_F60[10:40], _F60, tag="contain"), C(_F60, _F60[10:40], fast=True, tag="contain"),
    C(_F60[10:40], _F60, fast=True, tag="contain"), C(_F60[:50], _F60[:30], fast=True, tag="same-start"),
    C(_F60[:30], _F60[:50], fast=True, tag="same-start"), C(_F60, _F60, fast=True, tag="equal"), C(_F60, _F60, tag="equal"),
    # two mismatching bases of quality 0 (mismatch table entry was NaN -> MinInt64, scores wrapped around)
    C("krg", "aavy", qa=[0, 0, 93], qb=[0, 93, 0, 2], scale=2.0, minov=5, delta=1, tag="fixed:q0-nan"),
    C("cctcatatgctggtcag", "ccccctcatatgctggtcag", qa=[2, 2, 0, 0, 92, 40, 1, 0, 40, 40, 0, 2, 1, 0, 1, 93, 93],
      qb=[40, 1, 40, 92, 2, 1, 93, 92, 93, 92, 0, 2, 40, 0, 0, 2, 92, 93, 0, 93], scale=2.0, minov=30, minid=1.0, tag="fixed:q0-nan"),
    # fast mode: unaligned end added to an indel run of the opposite direction (path did not consume both reads)
    C("acccaca", "aaccaa", qa=[0, 29, 78, 65, 73, 82, 81], qb=[14, 8, 63, 56, 66, 73], fast=True, rel=False, delta=2, gap=0.0,
      minov=30, minid=1.0, tag="fixed:patch"),
    C("gcctacaa", "caagcag", qa=[61, 88, 32, 35, 86, 47, 53, 34], qb=[28, 89, 22, 50, 66, 6, 54], fast=True, rel=False, delta=2, gap=0.0,
      minov=10, minid=0.9, tag="fixed:patch"),
    # fast mode: identical starts, B longer (was right-aligned and joined)
    C("gtcatcacctcctcccccttct", "gtcatcacctcctcccccttcttttccggat", fast=True, delta=5, scale=2.0, minid=0.0, frag="gtcatcacctcctcccccttcttttccggat",
      sa=0, sb=0, errfree=True, kind="overlap", geo="same_start", tag="fixed:same-start"),
    # consensus quality of a mismatch column with EQUAL qualities was computed from the qualities of an earlier column
    C("ac" + _F60[:22], "ag" + _F60[:22], qa=[40, 30] + [40] * 22, qb=[10, 30] + [40] * 22, minov=1, minid=0.0, tag="fixed:stale-quality"),
    C("ac" + _F60[:22], "ag" + _F60[:22], minov=1, minid=0.0, tag="fixed:stale-quality"),
    C("ac" + _F60[:22], "ag" + _F60[:22], minov=1, minid=0.0, fast=True, tag="fixed:stale-quality"),
    # one read contains the other with a short overhang on both sides: both unaligned ends belong to the same read
    C(_F60[4:34], _F60[0:38], minov=10, tag="fixed:single-ends"), C(_F60[0:38], _F60[4:34], minov=10, tag="fixed:single-ends"),
    C(_F60[4:34], _F60[0:38], minov=10, fast=True, tag="fixed:single-ends"), C(_F60[0:38], _F60[4:34], minov=10, fast=True, tag="fixed:single-ends"),
    # overlap shorter than a 4-mer
    C(_F60[:30], _F60[27:], fast=True, tag="ov3"), C(_F60[:30], _F60[28:], fast=True, tag="ov2"), C(_F60[:30], _F60[30:], fast=True, tag="ov0"),
    C(_F60[:30], _F60[27:], tag="ov3"), C(_F60[:30], _F60[30:], tag="ov0"),
]


# ----------------------------------------------------------------------------- oracle
def path_ok(path):
    return len(path) % 2 == 0 and len(path) > 0 and all(path[k] >= 0 for k in range(1, len(path), 2))


def consumed(path):
    ca = cb = 0
    for k in range(0, len(path) - 1, 2):
        ind, d = path[k], path[k + 1]
        if ind < 0:
            ca -= ind
        else:
            cb += ind
        ca += d
        cb += d
    return ca, cb


def path_score(isleft, path, sc, gap, la, lb):
    """score of a path under the end-gap-free scheme: left = gaps before B starts and after A ends are free;
    right = gaps before A starts and after B ends are free."""
    ca = cb = 0
    s = 0
    for k in range(0, len(path) - 1, 2):
        ind, d = path[k], path[k + 1]
        if ind < 0:
            free = (cb == 0) if isleft else (cb == lb)
            s += 0 if free else -ind * gap
            ca -= ind
        elif ind > 0:
            free = (ca == la) if isleft else (ca == 0)
            s += 0 if free else ind * gap
            cb += ind
        for t in range(d):
            s += sc[(ca + t) * lb + cb + t]
        ca += d
        cb += d
    return s


def dp_opt(isleft, sc, gap, la, lb):
    """independent DP: D[i][j] = best score of aligning A[:i] with B[:j]."""
    prev = [0] * (lb + 1)
    for j in range(1, lb + 1):
        prev[j] = j * gap if isleft else 0
    for i in range(1, la + 1):
        cur = [0] * (lb + 1)
        cur[0] = 0 if isleft else i * gap
        gl = 0 if (isleft and i == la) else gap          # cost of consuming B[j-1] alone on this row
        row = sc[(i - 1) * lb:i * lb]
        for j in range(1, lb + 1):
            gt = 0 if ((not isleft) and j == lb) else gap   # cost of consuming A[i-1] alone in this column
            v = prev[j - 1] + row[j - 1]
            w = cur[j - 1] + gl
            if w > v:
                v = w
            w = prev[j] + gt
            if w > v:
                v = w
            cur[j] = v
        prev = cur
    return prev[lb]


def brute_opt(isleft, sc, gap, la, lb):
    """max over ALL alignments (explicit enumeration, no table) — tiny shapes only."""
    def rec(ca, cb):
        if ca == la and cb == lb:
            return 0
        best = None
        if ca < la and cb < lb:
            best = sc[ca * lb + cb] + rec(ca + 1, cb + 1)
        if ca < la:
            free = (cb == 0) if isleft else (cb == lb)
            v = (0 if free else gap) + rec(ca + 1, cb)
            best = v if best is None or v > best else best
        if cb < lb:
            free = (ca == la) if isleft else (ca == 0)
            v = (0 if free else gap) + rec(ca, cb + 1)
            best = v if best is None or v > best else best
        return best
    return rec(0, 0)


def columns(path, a, qa, b, qb):
    cols = []
    ca = cb = 0
    for k in range(0, len(path) - 1, 2):
        ind, d = path[k], path[k + 1]
        if ind < 0:
            for t in range(-ind):
                cols.append((a[ca + t], qa[ca + t], None, 0))
            ca -= ind
        elif ind > 0:
            for t in range(ind):
                cols.append((None, 0, b[cb + t], qb[cb + t]))
            cb += ind
        for t in range(d):
            cols.append((a[ca + t], qa[ca + t], b[cb + t], qb[cb + t]))
        ca += d
        cb += d
    return cols


def cons_base(col):
    na, qa, nb, qb = col
    if na is None:
        return nb
    if nb is None:
        return na
    if qa > qb:
        return na
    if qb > qa:
        return nb
    if na == nb:
        return na
    return DECODE[IUPAC.get(na, 0) | IUPAC.get(nb, 0)]


def cons_qual(col):
    """quality of a column as a function of that column alone: gap or agreeing bases or a quality 0: min(qa+qb, 90);
    disagreeing bases: the higher quality corrected by the error probability of the lower one
    (qM - int(10*log10(1 - 10^(-qm/30)) + 0.5), byte arithmetic, capped at 90)."""
    na, qa, nb, qb = col
    if na is None or nb is None or na == nb or qa == 0 or qb == 0:
        return min(qa + qb, 90)
    qM, qm = max(qa, qb), min(qa, qb)
    v = int(math.log10(1 - 10 ** (-qm / 30)) * 10 + 0.5)
    return min((qM - v) & 255, 90)


def fourmer_vote(a, b, rel):
    """independent 4-mer diagonal vote (non-acgt counted as a, as Encode4mer does): {shift: score}."""
    code = lambda s: [s[i:i + 4] for i in range(len(s) - 3)]
    norm = lambda s: "".join(ch if ch in "acgt" else ("t" if ch == "u" else "a") for ch in s)
    ka, kb = code(norm(a)), code(norm(b))
    pos = {}
    for i, k in enumerate(ka):
        pos.setdefault(k, []).append(i)
    votes = {}
    for j, k in enumerate(kb):
        for i in pos.get(k, []):
            votes[i - j] = votes.get(i - j, 0) + 1
    res = {}
    for s, cnt in votes.items():
        if rel:
            over = len(a) - s if s > 0 else (len(b) + s if s < 0 else min(len(a), len(b)))
            res[s] = (cnt / float(over - 3), cnt)
        else:
            res[s] = (float(cnt), cnt)
    return res


def perfect_overlaps(a, b):
    """{shift: overlap length} of every relative placement at which a and b agree on all overlapping positions."""
    res = {}
    for s in range(-len(b) + 1, len(a)):
        lo, hi = max(0, s), min(len(a), s + len(b))
        if hi > lo and a[lo:hi] == b[lo - s:hi - s]:
            res[s] = hi - lo
    return res


def an_get(o, k):
    return ((o.get("asm") or {}).get("annot") or {}).get(k)


IUPAC_SET = dict(a="a", c="c", g="g", t="t", u="t", r="ag", y="ct", s="cg", w="at", k="gt", m="ac", b="cgt", d="agt", h="act",
                 v="acg", n="acgt")


def documented_pairing_score(x, y, match, mismatch, scale):
    """The documented column score: the two symbols match with probability |X n Y| / (|X| |Y|) (1 for identical
    unambiguous bases, 0 for incompatible ones) and the score is that mixture of the quality-dependent match and
    mismatch scores (independent of _PairingScorePeAlign: only the two table entries of pure match / pure mismatch
    are taken from the implementation)."""
    X, Y = IUPAC_SET.get(x), IUPAC_SET.get(y)
    if X is None or Y is None:
        return None
    pm = len(set(X) & set(Y)) / len(X) / len(Y)
    k = int(pm * 100)
    if k == 100:
        return match
    if k == 0:
        return int(float(mismatch) * scale + 0.5)
    return int(pm * float(match) + (1 - pm) * float(mismatch) * scale + 0.5)


def check_case(ctx, c, o, stats):
    """returns list of (what, detail) failures of the property on this observation."""
    fails = []
    a, b, qa, qb = c["a"].lower(), c["b"].lower(), c["qa"], c["qb"]
    la, lb = len(a), len(b)
    if o["kind"] != "ok":
        return [("panic", o.get("err", o["kind"]))]
    path, sc, gap = o["path"], o["sc"], o["gappen"]
    # the per-column score itself against its documented definition (ambiguity codes are partial matches)
    if o.get("mq") and o.get("mm") and len(o["mq"]) == la * lb:
        for i in range(la):
            for j in range(lb):
                e = documented_pairing_score(a[i], b[j], o["mq"][i * lb + j], o["mm"][i * lb + j], c["scale"])
                if e is not None and e != sc[i * lb + j]:
                    fails.append(("column-score", dict(i=i, j=j, a=a[i], qa=qa[i], b=b[j], qb=qb[j], implementation=sc[i * lb + j], documented=e)))
                    return fails
        stats["column_scores_checked"] = stats.get("column_scores_checked", 0) + la * lb
    if not path_ok(path):
        return [("path-malformed", path)]
    cons = consumed(path)
    if cons != (la, lb):
        fails.append(("path-consumes", dict(consumed=cons, lengths=(la, lb))))
        return fails
    ps = path_score(o["isleft"], path, sc, gap, la, lb)
    if ps != o["score"]:
        fails.append(("score-vs-path", dict(reported=o["score"], recomputed=ps)))
    optL = optR = None
    if not c["fast"] or la * lb <= 2500:
        optL, optR = dp_opt(True, sc, gap, la, lb), dp_opt(False, sc, gap, la, lb)
        stats["dp"] = stats.get("dp", 0) + 1
        if la <= 4 and lb <= 4:
            bl, br = brute_opt(True, sc, gap, la, lb), brute_opt(False, sc, gap, la, lb)
            stats["brute"] = stats.get("brute", 0) + 1
            if (bl, br) != (optL, optR):
                fails.append(("oracle-self-check", dict(dp=(optL, optR), brute=(bl, br))))
        if not c["fast"]:
            if o["score"] != max(optL, optR):
                fails.append(("exact-optimum", dict(reported=o["score"], optimum_left=optL, optimum_right=optR)))
            if o["isleft"] != (optL > optR):
                fails.append(("exact-isleft", dict(isleft=o["isleft"], optimum_left=optL, optimum_right=optR)))
        elif ps > (optL if o["isleft"] else optR):
            fails.append(("oracle-self-check", dict(path_score=ps, optimum=(optL, optR))))
    if c["fast"]:
        # the diagonal chosen by the 4-mer vote: highest score, ties to the smaller shift (independent of map iteration order)
        votes = fourmer_vote(a, b, c["rel"])
        if votes:
            best = max(v[0] for v in votes.values())
            shift = min(s for s, v in votes.items() if v[0] == best)
            cnt, fsc = votes[shift][1], best
        else:
            shift, cnt, fsc = 0, 0, -1.0
        in_a = shift > 0 or (shift == 0 and la < lb)
        over = la - shift if in_a else lb + shift
        if (o["fastcount"], o["over"], o["isleft"]) != (cnt, over, in_a) or abs(o["fastscore"] - fsc) > 1e-12:
            fails.append(("fast-vote", dict(reported=dict(fastcount=o["fastcount"], over=o["over"], isleft=o["isleft"], fastscore=o["fastscore"]),
                                            expected=dict(shift=shift, fastcount=cnt, over=over, isleft=in_a, fastscore=fsc))))
        if an_get(o, "mode") == "alignment" and (an_get(o, "paring_fast_count") != o["fastcount"] or an_get(o, "paring_fast_overlap") != o["over"]):
            fails.append(("fast-annotations", (o.get("asm") or {}).get("annot")))
    if "pathL" in o and o.get("pathL"):
        for nm, isl, opt in (("L", True, optL), ("R", False, optR)):
            p, s = o["path" + nm], o["score" + nm]
            if not path_ok(p) or consumed(p) != (la, lb):
                fails.append(("fill%s-path-consumes" % nm, dict(path=p)))
            elif path_score(isl, p, sc, gap, la, lb) != s or (opt is not None and s != opt):
                fails.append(("fill%s-score" % nm, dict(score=s, recomputed=path_score(isl, p, sc, gap, la, lb), optimum=opt)))
    # ---- consensus and annotations
    asm = o.get("asm")
    if not asm or asm["kind"] != "ok":
        fails.append(("assemble-panic", asm))
        return fails
    an = asm["annot"]
    cols = columns(path, a, qa, b, qb)
    left = path[0]
    right = path[-2] if path[-1] == 0 else 0
    ali = len(cols) - abs(left) - abs(right)
    match = sum(1 for (na, xa, nb, xb) in cols if na is not None and na == nb and xa > 0 and xb > 0)
    ident = match / ali if ali > 0 else 0.0
    mode = "alignment" if (ali >= c["minov"] and ident >= c["minid"]) else "join"
    if an.get("mode") != mode:
        fails.append(("mode", dict(reported=an.get("mode"), expected=mode, ali_length=ali, identity=ident)))
    if an.get("ali_length") != ali or an.get("seq_ab_match") != match or an.get("score") != o["score"]:
        fails.append(("annotations", dict(reported=an, ali_length=ali, seq_ab_match=match, score=o["score"])))
    if mode == "alignment" and an.get("mode") == mode:
        exp = "".join(cons_base(col) for col in cols)
        if asm["seq"] != exp:
            fails.append(("consensus-bases", dict(reported=asm["seq"], expected=exp)))
        if len(asm["qual"]) != len(cols):
            fails.append(("consensus-qual-length", dict(n=len(asm["qual"]), columns=len(cols))))
        else:
            for k, col in enumerate(cols):
                q = cons_qual(col)
                if (q is not None and asm["qual"][k] != q) or asm["qual"][k] > 90:
                    fails.append(("consensus-qual", dict(column=k, col=col, reported=asm["qual"][k], expected=q)))
                    break
        # the two unaligned ends
        lead_a = -left if left < 0 else 0
        lead_b = left if left > 0 else 0
        trail_a = -right if right < 0 else 0
        trail_b = right if right > 0 else 0
        # bases of A (resp. B) outside the aligned region = A-only (resp. B-only) columns of the two end runs
        if an.get("seq_a_single") != lead_a + trail_a or an.get("seq_b_single") != lead_b + trail_b or \
           an.get("ali_dir") != ("left" if o["isleft"] else "right"):
            fails.append(("single-ends", dict(reported={k: an.get(k) for k in ("ali_dir", "seq_a_single", "seq_b_single", "ali_length")},
                                              path_ends=(left, right), a_single=lead_a + trail_a, b_single=lead_b + trail_b)))
        if not ((left <= 0 and right >= 0) if o["isleft"] else (left >= 0 and right <= 0)):
            stats["ends_opposite_to_side"] = stats.get("ends_opposite_to_side", 0) + 1
        if an.get("seq_a_single", 0) + an.get("seq_b_single", 0) + an.get("ali_length", 0) != len(asm["seq"]):
            fails.append(("lengths-inconsistent", dict(reported=an, n=len(asm["seq"]))))
    elif mode == "join" and an.get("mode") == mode:
        if asm["seq"] != a + "." * 10 + b or asm["qual"] != qa + [0] * 10 + qb:
            fails.append(("join", dict(reported=asm["seq"])))
    # ---- reassembly of error-free overlapping reads
    if c.get("errfree") and c.get("geo") in ("std", "mirror", "same_start", "same_end", "equal") and c.get("frag") is not None:
        sa, sb = c["sa"], c["sb"]
        ov = min(sa + la, sb + lb) - max(sa, sb)
        goodq = min(qa + qb) >= 20
        if ov >= max(c["minov"], 1) and goodq and c["minid"] <= 1.0:
            true_shift = sb - sa
            po = perfect_overlaps(a, b)
            periodic = any(s != true_shift and n >= ov for s, n in po.items())
            # the alignment that rebuilds the fragment, and its score under the scheme
            if true_shift > 0 or (true_shift == 0 and la < lb):
                tl, tpath = True, [-true_shift, ov, lb - ov, 0]
            else:
                tl, tpath = False, [-true_shift, ov, -(la - ov), 0]
            s_true = path_score(tl, tpath, sc, gap, la, lb)
            expect = True
            if c["fast"]:
                votes = fourmer_vote(a, b, c["rel"])
                tv = votes.get(true_shift)
                expect = tv is not None and all(v[0] < tv[0] for s, v in votes.items() if s != true_shift)
            if expect:
                stats["reassembly_expected"] = stats.get("reassembly_expected", 0) + 1
                F = c["frag"].lower()
                if an.get("mode") != "alignment" or asm["seq"] != F:
                    # exact mode: the returned alignment scores at least as much as the true one => the true overlap is not
                    # the strict optimum of the documented scheme (periodic fragment / chance alignment): by construction
                    amb = (not c["fast"]) and s_true <= o["score"]
                    fails.append(("reassembly-ambiguous" if amb else "reassembly",
                                  dict(fragment=F, reported=asm["seq"], mode=an.get("mode"), true_shift=true_shift, overlap=ov,
                                       periodic=periodic, true_alignment_score=s_true, reported_score=o["score"],
                                       perfect_overlaps={str(k): v for k, v in po.items() if v >= 4})))
                else:
                    stats["reassembled"] = stats.get("reassembled", 0) + 1
    return fails


KEEP = ("a", "qa", "b", "qb", "fast", "rel", "delta", "gap", "scale", "minov", "minid")


def to_vh(c, fills):
    d = {k: c[k] for k in KEEP}
    d["mat"] = True
    d["fills"] = fills
    return d


# ----------------------------------------------------------------------------- correspondence (Coq)
def zl(l):
    return "[" + ";".join("(%d)" % x if x < 0 else str(x) for x in l) + "]"


def case_term(c, o):
    la, lb = len(c["a"]), len(c["b"])
    sc = o["sc"]
    rows = "[" + ";".join(zl(sc[i * lb:(i + 1) * lb]) for i in range(la)) + "]"
    a = [ord(ch) for ch in c["a"].lower()]
    b = [ord(ch) for ch in c["b"].lower()]
    asm = o.get("asm") or {}
    use_cons = 1 if (asm.get("kind") == "ok" and asm.get("annot", {}).get("mode") == "alignment") else 0
    seq = [ord(ch) for ch in asm.get("seq", "")] if use_cons else []
    # the shift chosen by the 4-mer vote, read back from the observables (over, isLeft)
    shift = 0
    if c["fast"]:
        shift = (la - o["over"]) if o["isleft"] else (o["over"] - lb)
    return ("mkc %d %d %s (%d) %s %s %s %s %s (%d) (%d) (%d) (%d) %s (%d) %s %s (%d) %s %s %s (%d) (%d) (%d)" % (
        la, lb, rows, o["gappen"], zl(a), zl(c["qa"]), zl(b), zl(c["qb"]),
        "true" if c["fast"] else "false", shift, max(o["fastcount"], 0) if c["fast"] else 0, c["delta"],
        o["scoreL"], zl(o["pathL"]), o["scoreR"], zl(o["pathR"]),
        "true" if o["isleft"] else "false", o["score"], zl(o["path"]),
        "true" if use_cons else "false", zl(seq),
        (asm.get("annot") or {}).get("ali_length", -999999), (asm.get("annot") or {}).get("seq_a_single", 0) if use_cons else 0,
        (asm.get("annot") or {}).get("seq_b_single", 0) if use_cons else 0))


def small(c):
    return len(c["a"]) <= 40 and len(c["b"]) <= 40


def evaluate(ctx, cases, broken, label, stats, corr=True):
    obs = ctx.vh_robust("c08", [to_vh(c, small(c)) for c in cases], timeout=600, one_timeout=20)
    nviol = 0
    failing = []
    for i, (c, o) in enumerate(zip(cases, obs)):
        fails = check_case(ctx, c, o, stats) if o.get("kind") != "crash" else [("crash", o.get("err"))]
        if not fails:
            continue
        failing.append(i)
        rest = []
        for what, detail in fails:
            if what == "reassembly-ambiguous" and ctx.kf_match("ambiguous-overlap"):
                ctx.known("ambiguous-overlap", "exact mode: error-free overlapping reads are not reassembled into the original fragment when the true "
                          "overlap is not the strict optimum of the scoring scheme (periodic fragment, e.g. a^150 read as two a^100 gives a^100)")
                stats["known_ambiguous"] = stats.get("known_ambiguous", 0) + 1
                continue
            rest.append((what, detail))
        if rest:
            nviol += 1
            stats.setdefault("fail_kinds", {})
            for what, _ in rest:
                stats["fail_kinds"][what] = stats["fail_kinds"].get(what, 0) + 1
            if nviol <= 4:
                oo = {k: v for k, v in o.items() if k not in ("sc", "mq")}
                ctx.violation("%s_%s_%d" % (label, rest[0][0], i), dict(property="C08", kind="direct-oracle",
                              case={k: c[k] for k in c if k != "frag"} | ({"frag": c["frag"]} if "frag" in c else {}),
                              failures=[dict(what=w, detail=d) for w, d in rest], implementation=oo))
    mism = []
    if corr:
        idx = [i for i, (c, o) in enumerate(zip(cases, obs)) if small(c) and o.get("kind") == "ok" and o.get("pathL")]
        bad, err = ctx.correspond(label, "From Coq Require Import ZArith List. Import ListNotations. Open Scope Z_scope.\nFrom OBI.C08 Require Import Model.",
                                  [case_term(cases[i], obs[i]) for i in idx], shard=60)
        if bad is None:
            broken.append(dict(kind="correspondence", detail=err))
        else:
            mism = [idx[i] for i in bad]
            stats["corr_cases"] = stats.get("corr_cases", 0) + len(idx)
    return obs, mism, failing


def gen_cases(ctx, n, nbig):
    rng = ctx.rng
    cases = [dict(c) for c in CORPUS]
    # every corpus geometry also in the other mode
    for c in CORPUS:
        if c.get("tag", "").startswith(("contain", "ov", "equal", "same")):
            continue
        cases.append(dict(c, fast=not c["fast"]))
    for _ in range(n):
        cases.append(gen_case(rng, rng.choice([8, 20, 40, 40, 70])))
    for _ in range(nbig):
        cases.append(gen_case(rng, rng.choice([150, 300])))
    return cases


def run(ctx, broken):
    n, nbig = (800, 50) if ctx.quick else (15000, 800)
    stats = {}
    cases = gen_cases(ctx, n, nbig)
    obs, mism, failing = evaluate(ctx, cases, broken, "main", stats)
    ctx.cov["evaluations"] = len(cases)
    nontrivial = {json.dumps([c[k] for k in KEEP]) for c, o in zip(cases, obs)
                  if o.get("kind") == "ok" and len(o.get("path", [])) >= 2 and any(o["path"][k] > 0 for k in range(1, len(o["path"]), 2))}
    ctx.cov["distinct_nontrivial"] = len(nontrivial)
    ctx.cov["rule"] = ("read pairs cut from one fragment (standard, mirrored, identical starts/ends, containment, overlap 0..3, periodic), with "
                       "substitutions/indels/IUPAC, unrelated and very short reads; x fast/exact x rel/abs x delta x gap x scale; non-trivial = "
                       "the returned path aligns at least one base of A with one base of B; distinct = distinct (reads, qualities, configuration)")
    dist = {}
    for c, o in zip(cases, obs):
        k = "%s/%s/%s" % (c.get("kind"), "fast" if c["fast"] else "exact", o.get("kind"))
        dist[k] = dist.get(k, 0) + 1
    lens = [max(len(c["a"]), len(c["b"])) for c in cases]
    dist["maxlen<=8"] = sum(1 for x in lens if x <= 8)
    dist["maxlen<=70"] = sum(1 for x in lens if 8 < x <= 70)
    dist["maxlen<=300"] = sum(1 for x in lens if x > 70)
    dist["fast_shortcut"] = sum(1 for c, o in zip(cases, obs) if c["fast"] and o.get("kind") == "ok" and o["fastcount"] + 3 >= o["over"])
    ctx.cov["distribution"] = dist
    ctx.cov["oracle"] = stats
    ctx.samples = [dict(case={k: c[k] for k in KEEP}, implementation={k: v for k, v in o.items() if k not in ("sc", "mq", "asm")},
                        consensus=(o.get("asm") or {}).get("seq"), annotations=(o.get("asm") or {}).get("annot"))
                   for c, o in list(zip(cases, obs))[:2] + list(zip(cases, obs))[len(CORPUS) * 2:len(CORPUS) * 2 + 3]]
    ctx.cov["model_vs_impl_mismatches"] = len(mism)
    if mism and not ctx.violations:
        more = gen_cases(ctx, 4000, 100)
        evaluate(ctx, more, [], "search", {}, corr=False)
        if not ctx.violations:
            i = mism[0]
            broken.append(dict(kind="correspondence", name="corr:C08/(isLeft,score,path,consensus)",
                               first_diverging_case={k: cases[i][k] for k in KEEP},
                               implementation={k: v for k, v in obs[i].items() if k not in ("sc", "mq")}, n_diverging=len(mism)))
    elif mism:
        ctx.cov["note"] = "model and implementation diverge on %d cases (violations reported by the direct oracle)" % len(mism)


def replay(ctx, rp):
    c = rp["case"]
    stats = {}
    obs, mism, failing = evaluate(ctx, [c], [], "replay", stats)
    o = obs[0]
    print("replay:", {k: c[k] for k in KEEP})
    print(" ->", {k: v for k, v in o.items() if k not in ("sc", "mq")})
    print(" oracle:", check_case(ctx, c, o, {}) if o.get("kind") != "crash" else "crash", "| model-mismatch" if mism else "| model-agrees")
