"""C20 — fixed-precision integers (pkg/obifp) agree with exact arithmetic."""
import json, itertools, os, re, hashlib, shutil
import vlib
from vlib import zlist

PROPS = ["C20/Props.v", "C20/GenProps.v"]
META = dict(
    text="Rocq theorems over an executable line-by-line model of pkg/obifp: every shift count, add/sub/mul/div/cmp of the three widths exact and overflow-exact for all operands (Uint128.Mul: partial, see known finding; Uint128.QuoRem included), constructors Zero/MaxValue/Set64 and the generic ZeroUint/OneUint/From64 of unint.go (MaxValue = 2^w-1 and an upper bound of every value). The model is tied to the code twice on every run: (1) correspondence - the model is evaluated with vm_compute on the same boundary-biased operand cases the real methods ran on (corpus of defect witnesses, coverage-driven cases and the input classes of the seeding notes first, then the random stream; a division by zero must panic); (2) translation - tools/go2coq_obifp.go (go/parser + go/ast) re-translates uint64.go / uint128.go / uint256.go of the current working tree into Gallina (C20/Gen/Translated.v, 84 methods + plain helper functions, none untranslated) and C20/GenProps.v re-proves, for every translated method, T_f = model f on well-formed operands (84 theorems) plus the C20 theorems restated for the translated functions (8 theorems for the widest operation of each kind, 32 corollaries). Every equality proof is `first [ script written against the transcribed shape | shape-independent tactic ]`: a source change that alters what a translated function COMPUTES breaks its theorem (the check then searches the ops of that method first and reports the failing input, or no-failing-input-found naming the theorem); a behaviour-preserving rewrite is re-proved by the shape-independent tactics (measured: the seeded rewrites C20-R2 (all shifts restructured) and C20-R3 (add/sub/cmp family, loops over limb arrays, early returns) are silent; C20-R1 is not: its Uint256.Div is a different algorithm (binary long division), which needs a new loop invariant - reported as no-failing-input-found, as the protocol demands).",
    note="Trusted: Coq kernel + vm_compute; math/bits primitives modelled by their documented meaning; harness/generators; the translator tools/go2coq_obifp.go (its reading of Go: uint = 64 bits, wraps written out as mod W / wrapi, log.Warnf ignored, log.Panicf = Panic, array index out of range = Panic, range over an array = counting loop over a copy, continue/break/return inside loops, plain functions, bits.Len64, x/c and x%c for constants, parallel assignment; loop fuel from its table: shifts 8, Div 257/257, counting loops bound+1, others 1024) - cross-checked by the unchanged correspondence run on the real code. Hypotheses of the equalities: operands well-formed (limbs in [0,2^64): every Go uint64 is), shift counts 0 <= n < 2^64. Shape-independent tactics (C20/GenTac.v, GenBits.v, GenDiv.v, GenMul.v): g_eq (unfold everything translated, execute constant-bound loops over limb arrays symbolically, split every comparison innermost first, wraps/carries/borrows by lia with div/mod equations, a|b == 0 as conjunction); g_bits (limb-level shift code: equality bit by bit through testbit of << >> | & ^ masks, ranges of the limbs, indices identified by lia); g_shift256 (count = 64k+m, k in 0..3, then symbolic execution and g_bits - proves both the whole-limb-move loop and the index-arithmetic formulation); q_go (composite functions from the equalities of whichever callees they use: Uint128.QuoRem/Div/Mod, top of Uint256.Div); gen_mul (schoolbook multiplications: symbolic execution keeping hi*W+lo = x*y+r+carry per 64x64 step, products eliminated, SPEC closed by lia, equality by uniqueness of the spec). Still shape-specific (a rewrite gives no-failing-input-found): the two loops of Uint256.Div (induction on fuel against div_inner/div_outer), Uint128.Mul beyond case-splitting (its spec is partial: known finding), multiplications that skip rows or take fast paths (gen_mul does not branch on zero limbs), a function whose purity changes (array/loop/panic added to a pure function) except Uint256.Cmp (stated on the res-valued view R_), new methods (reported in coverage.translator, no theorem). Hand-modelled only (no Go source in the three translated files): the pre-repair *_orig functions of the refuted theorems; the generic constructors of unint.go (ZeroUint/OneUint/From64: exercised for the three widths, judged by oracle and model, not translated: generic functions). Not exercised: nothing of the anchored obifp code (tools/anchor_coverage.py: every statement of uint64.go, uint128.go, uint256.go and unint.go is executed by the quick tier); pkg/obikmer/kmermap.go is anchored for its USE of obifp (masks, From64/ZeroUint/OneUint, shifts by 2(k-1) bits up to 254): the operations it composes are the ones checked here, the k-mer logic itself belongs to the k-mer properties.")
TRUSTED = ["math/bits primitives (Add64, Sub64, Mul64, Div64, LeadingZeros64) are modelled by their documented exact meaning",
           "the Go-to-Gallina translator tools/go2coq_obifp.go (standard library go/parser + go/ast; own type inference; conventions in the header of C20/Gen/Translated.v, including range loops over arrays as counting loops over a copy, continue/break/return inside loops, plain helper functions) is trusted for the equality theorems of C20/GenProps.v; it is cross-checked on every run by the correspondence of the hand-written model with the real code",
           "uint is taken to be 64 bits wide (amd64 / arm64)"]
M64 = (1 << 64) - 1
OPNAME = dict(shl="OShl", shr="OShr", add="OAdd", sub="OSub", mul="OMul", cmp="OCmp", lt="OLt", le="OLe", gt="OGt",
              ge="OGe", eq="OEq", **{"and": "OAnd", "or": "OOr", "xor": "OXor", "not": "ONot"}, to64="OTo64",
              to128="OTo128", to256="OTo256", iszero="OIsZero", as64="OAs64", lsh64="OLsh64", rsh64="ORsh64",
              add64="OAdd64", mul64="OMul64", quorem="OQuoRem", quorem64="OQuoRem64", div="ODiv", mod="OMod",
              div64="ODiv64", mod64="OMod64", cmp64="OCmp64", zero="OZero", max="OMax", set64="OSet64", zerouint="OZeroU",
              oneuint="OOneU", from64="OFrom64")
COMMON = ["shl", "shr", "add", "sub", "mul", "cmp", "lt", "le", "gt", "ge", "eq", "and", "or", "xor", "not",
          "to64", "to128", "to256", "iszero", "as64", "zero", "max", "set64", "zerouint", "oneuint", "from64"]
OPS = {64: COMMON + ["lsh64", "rsh64"],
       128: COMMON + ["add64", "mul64", "quorem", "quorem64", "div", "mod", "div64", "mod64", "cmp64"],
       256: COMMON + ["div"]}
LIMB_BOUNDARY = [0, 1, 2, 3, (1 << 31), (1 << 32) - 1, (1 << 32), (1 << 32) + 1, (1 << 63) - 1, 1 << 63, (1 << 63) + 1, M64 - 1, M64]


def limbs_of(v, n):
    return [(v >> (64 * i)) & M64 for i in range(n)]


def val(l):
    return sum(x << (64 * i) for i, x in enumerate(l))


def gen_value(rng, w):
    n = w // 64
    k = rng.random()
    if k < 0.45:
        return val([rng.choice(LIMB_BOUNDARY) for _ in range(n)])
    if k < 0.65:
        b = rng.randrange(0, w + 1)
        return max(0, min((1 << w) - 1, (1 << b) + rng.choice([-1, 0, 1]))) if b < w else (1 << w) - 1
    if k < 0.8:
        return rng.getrandbits(rng.randrange(1, w + 1))
    return rng.getrandbits(w)


def gen_cases(ctx, n_random, only=None):
    """only: list of (width, op) to restrict the random part to (targeted search); None = every op of every width."""
    rng = ctx.rng
    cases = list(CORPUS) if only is None else []
    for w in (64, 128, 256):
        ops_w = OPS[w] if only is None else [op for (ww, op) in only if ww == w and op in OPS[w]]
        if not ops_w:
            continue
        # every shift amount 0..w+64 on a few operands (exhaustive over n)
        for n in list(range(0, w + 66)) + [w + 127, w + 128, 511, 512, 1000]:
            ops_sweep = [val([M64] * (w // 64)), gen_value(rng, w)]
            if w > 64:
                # one limb only / alternating bits / top and bottom bit of every limb (carry words of shifts by 65..127)
                ops_sweep.append(rng.choice([val([M64] + [0] * (w // 64 - 1)), val([0] * (w // 64 - 1) + [M64]),
                                             val([0xAAAAAAAAAAAAAAAA] * (w // 64)), val([(1 << 63) | 1] * (w // 64)),
                                             val([1 << 63] + [0] * (w // 64 - 2) + [1])]))
            for a in ops_sweep:
                for op in ("shl", "shr"):
                    if op in ops_w:
                        cases.append(dict(w=w, op=op, a=a, b=0, n=n, cls="shift-sweep"))
        for _ in range(n_random):
            op = rng.choice(ops_w)
            a, b = gen_value(rng, w), gen_value(rng, w)
            cls = "random"
            if op in ("cmp", "lt", "le", "gt", "ge", "eq", "cmp64", "sub") and rng.random() < 0.3:
                # equal and nearly equal operands (the last case of every comparison chain; borrow chains of length w)
                b = a if op != "cmp64" else a & M64
                k = rng.random()
                if k < 0.3:
                    b = max(0, min((1 << (64 if op == "cmp64" else w)) - 1, b + rng.choice([-1, 1])))
                elif k < 0.5 and w > 64 and op != "cmp64":
                    b ^= 1 << (64 * rng.randrange(0, w // 64) + rng.choice([0, 63]))     # differ in exactly one limb
            if op in ("cmp", "lt", "le", "gt", "ge", "eq") and w > 64 and rng.random() < 0.25:
                # a higher limb decides one way, a lower limb differs the other way
                la = [rng.choice(LIMB_BOUNDARY) for _ in range(w // 64)]
                lb = list(la)
                hi = rng.randrange(1, w // 64)
                lo = rng.randrange(0, hi)
                la[hi], lb[hi] = max(la[hi], 1), max(la[hi], 1) - 1
                la[lo], lb[lo] = min(la[lo], M64 - 1), M64
                a, b = val(la), val(lb)
                if rng.random() < 0.5:
                    a, b = b, a
                cls = "cmp-crossing-limbs"
            if op in ("add", "sub", "mul") and w > 64 and rng.random() < 0.15:
                # every limb all-ones except one
                la = [M64] * (w // 64)
                la[rng.randrange(0, w // 64)] = rng.choice(LIMB_BOUNDARY)
                a = val(la)
                cls = "all-ones-but-one-limb"
            if op in ("cmp64", "add64", "mul64") and rng.random() < 0.3:
                b = rng.choice([0, 1, M64])
                cls = "64-bit operand 0/1/max"
            if op in ("set64", "from64", "zero", "max") and rng.random() < 0.7:
                a |= rng.choice(LIMB_BOUNDARY[1:]) << (w - 64)       # receiver with a non-zero top limb
                cls = "constructor on a non-zero receiver"
            if op in ("mul", "mul64") and w > 64 and rng.random() < 0.35:
                # products that just fit (or just do not): operand sizes complementary, carries through every limb
                kb = rng.randrange(1, 65) if op == "mul64" else rng.randrange(1, w)
                b = gen_value(rng, kb) if kb >= 64 else rng.getrandbits(kb) | (1 << (kb - 1))
                ka = w - kb + rng.choice([-1, 0, 0, 1])
                a = ((1 << max(ka, 1)) - 1) if rng.random() < 0.4 else rng.getrandbits(max(ka, 1)) | (1 << (max(ka, 1) - 1))
                a &= (1 << w) - 1
            elif op in ("mul", "mul64", "div", "mod", "quorem", "div64", "mod64", "quorem64") and rng.random() < 0.6:
                # make products / quotients that are near the overflow boundary or small
                b = gen_value(rng, rng.choice([8, 16, 32, 64, w // 2]))
            if op in ("div", "mod", "quorem", "div64", "mod64", "quorem64") and rng.random() < 0.5:
                # dividends at and around exact multiples of the divisor (remainder 0, 1, b-1), divisors of every size
                b = gen_value(rng, 64 if op.endswith("64") else rng.choice([8, 64, 65, 70, 100, 127, 128, w])) or 1
                b &= (1 << w) - 1
                b = b or 1
                k = rng.choice([1, 1, 2, 3, rng.getrandbits(rng.randrange(1, 64))])
                a = b * k + rng.choice([0, 0, 1, b - 1])
                if a >= (1 << w):
                    a = b * 1 + rng.choice([0, 0, b - 1]) if 2 * b - 1 < (1 << w) else b
            if op in ("add64", "mul64", "quorem64", "div64", "mod64", "cmp64", "lsh64", "rsh64", "set64", "from64"):
                b &= M64
            if op == "sub" and rng.random() < 0.5 and a < b:
                a, b = b, a
            n = rng.choice([0, 1, 63, 64, 65, 127, 128, 129]) if rng.random() < 0.5 else rng.randrange(0, w + 65)
            if op in ("lsh64", "rsh64"):
                n = rng.randrange(0, 130)
                if op == "lsh64" and 0 < n < 64:
                    b &= (1 << n) - 1
                if op == "rsh64" and 0 < n < 64:
                    b &= M64 ^ ((1 << (64 - n)) - 1)
            cases.append(dict(w=w, op=op, a=a, b=b, n=n, cls=cls))
    return cases


# corpus: the witnesses of the defects (always run first)
CORPUS = [
    dict(w=128, op="mul", a=(1 << 64) + M64, b=M64, n=0, tag="fixed:mul128-carry"),
    dict(w=128, op="mul", a=1 << 64, b=1 << 64, n=0, tag="known:mul128-high-limbs"),
    dict(w=256, op="mul", a=1, b=1, n=0, tag="fixed:mul256"),
    dict(w=256, op="mul", a=(1 << 128) + 5, b=(1 << 127) + 9, n=0, tag="fixed:mul256"),
    dict(w=256, op="mul", a=(1 << 255), b=2, n=0, tag="fixed:mul256-overflow"),
    dict(w=256, op="shl", a=3, b=0, n=127, tag="fixed:shl256"),
    dict(w=256, op="shl", a=1, b=0, n=128, tag="fixed:shl256"),
    dict(w=256, op="shr", a=1 << 255, b=0, n=200, tag="fixed:shr256"),
    dict(w=256, op="div", a=(1 << 256) - 1, b=2, n=0, tag="fixed:div256-termination"),
    dict(w=256, op="div", a=(1 << 255) + 12345, b=3, n=0, tag="fixed:div256-termination"),
    dict(w=64, op="mul", a=2, b=3, n=0, tag="fixed:mul64-swapped"),
    dict(w=128, op="quorem", a=1 << 64, b=1 << 64, n=0, tag="boundary:quorem128 exact multiple, 128-bit divisor"),
    dict(w=128, op="quorem", a=3 * ((1 << 100) + 7), b=(1 << 100) + 7, n=0, tag="boundary:quorem128 exact multiple"),
    dict(w=128, op="mod", a=((1 << 127) // ((1 << 64) + 1)) * ((1 << 64) + 1), b=(1 << 64) + 1, n=0, tag="boundary:mod128 exact multiple"),
]


def _round3_corpus():
    """Round 3: the anchored code no process executed (constructors, overflow branches of Uint128.Add/Add64, Cmp64 branches,
    division by zero) and the input classes of the seeding notes."""
    c = []
    top = {64: 1 << 64, 128: 1 << 128, 256: 1 << 256}
    for w in (64, 128, 256):
        recv = (top[w] - 1) ^ (1 << (w // 2))          # a receiver whose limbs are all non-zero
        for op in ("zero", "max", "zerouint", "oneuint"):
            c.append(dict(w=w, op=op, a=recv, b=0, n=0, tag="cover:constructor"))
        for v in (0, 1, 3, M64, 1 << 63):
            c.append(dict(w=w, op="set64", a=recv, b=v, n=0, tag="cover:Set64 on a receiver with non-zero high limbs"))
            c.append(dict(w=w, op="from64", a=0, b=v, n=0, tag="cover:From64"))
    # Uint128.Add / Add64: overflow branch and the carry into the high limb without overflow
    c += [dict(w=128, op="add", a=(1 << 128) - 1, b=1, n=0, tag="cover:add128 overflow"),
          dict(w=128, op="add", a=1 << 127, b=1 << 127, n=0, tag="cover:add128 overflow"),
          dict(w=128, op="add", a=M64, b=1, n=0, tag="cover:add128 carry into the high limb"),
          dict(w=128, op="add64", a=(1 << 128) - 1, b=1, n=0, tag="cover:add128_64 overflow"),
          dict(w=128, op="add64", a=(M64 << 64) | 5, b=M64, n=0, tag="cover:add128_64 overflow"),
          dict(w=128, op="add64", a=M64, b=M64, n=0, tag="cover:add128_64 carry into the high limb"),
          dict(w=128, op="add64", a=(M64 - 1) << 64 | M64, b=1, n=0, tag="cover:add128_64 just fits")]
    # Uint128.Cmp64: every branch, v = 0 / 1 / max
    for a, v in ((1 << 64, M64), ((1 << 64) | 5, 0), (7, 5), (5, 7), (5, 5), (0, 0), (0, 1), (M64, M64), (M64 - 1, M64), (1 << 127, 0)):
        c.append(dict(w=128, op="cmp64", a=a, b=v, n=0, tag="cover:cmp128_64"))
    for v in (0, 1, M64):
        c.append(dict(w=128, op="mul64", a=(1 << 64) | 3, b=v, n=0, tag="class:64-bit operand 0/1/max"))
        c.append(dict(w=128, op="add64", a=(1 << 64) | 3, b=v, n=0, tag="class:64-bit operand 0/1/max"))
    # division by zero never returns a value
    for w, op in ((128, "quorem"), (128, "quorem64"), (128, "div"), (128, "mod"), (128, "div64"), (128, "mod64"), (256, "div")):
        for a in (0, 12345, top[w] - 1):
            c.append(dict(w=w, op=op, a=a, b=0, n=0, tag="cover:division by zero"))
    # Uint256.Div: the division-by-one shortcut
    for a in (1, 12345, (1 << 255) + 7, (1 << 256) - 1):
        c.append(dict(w=256, op="div", a=a, b=1, n=0, tag="cover:div256 by one"))
    # comparisons: a high limb differs one way, a lower limb the other way
    for w in (128, 256):
        k = w // 64
        for hi in range(1, k):
            for lo in range(0, hi):
                a = (5 << (64 * hi))
                b = (4 << (64 * hi)) | (M64 << (64 * lo))
                for op in ("cmp", "lt", "le", "gt", "ge", "eq"):
                    c.append(dict(w=w, op=op, a=a, b=b, n=0, tag="class:cmp crossing limbs"))
                    c.append(dict(w=w, op=op, a=b, b=a, n=0, tag="class:cmp crossing limbs"))
    c += [dict(w=128, op="cmp64", a=(4 << 64) | 1, b=M64, n=0, tag="class:cmp crossing limbs")]
    # Uint128 shifts by counts strictly between 64 and 128 (LeftShift64/RightShift64 carry words; k-mer sizes >= 33)
    for a in ((1 << 127) | 1, (M64 << 64), M64, 0xAAAAAAAAAAAAAAAA5555555555555555, ((1 << 63) | 1) << 64 | (1 << 63) | 1):
        for n in (65, 66, 95, 96, 126, 127):
            c.append(dict(w=128, op="shl", a=a, b=0, n=n, tag="class:shift128 by 65..127"))
            c.append(dict(w=128, op="shr", a=a, b=0, n=n, tag="class:shift128 by 65..127"))
    # carries / borrows rippling through every limb; all-ones except one limb
    c += [dict(w=256, op="sub", a=1 << 192, b=1, n=0, tag="class:ripple"), dict(w=256, op="add", a=(1 << 192) - 1, b=1, n=0, tag="class:ripple"),
          dict(w=256, op="add", a=(1 << 256) - 1, b=1, n=0, tag="class:ripple"), dict(w=256, op="sub", a=0, b=1, n=0, tag="class:ripple"),
          dict(w=128, op="sub", a=1 << 64, b=1, n=0, tag="class:ripple"), dict(w=128, op="add", a=(1 << 64) - 1, b=1, n=0, tag="class:ripple"),
          dict(w=256, op="mul", a=((1 << 256) - 1) ^ (M64 << 64), b=1, n=0, tag="class:all-ones but one limb"),
          dict(w=256, op="add", a=((1 << 256) - 1) ^ (M64 << 128), b=1 << 128, n=0, tag="class:all-ones but one limb"),
          dict(w=256, op="sub", a=((1 << 256) - 1) ^ (M64 << 192), b=(1 << 192) - 1, n=0, tag="class:all-ones but one limb")]
    return c


CORPUS += _round3_corpus()


def to_vh(c):
    k = c["w"] // 64
    return dict(w=c["w"], op=c["op"], a=[str(x) for x in limbs_of(c["a"], k)], b=[str(x) for x in limbs_of(c["b"], k)], n=c["n"])


def obs_term(o):
    if o["kind"] == "panic":
        return "PanicV"
    if o["kind"] == "int":
        return "IntV (%d)" % o["int"]
    if o["kind"] == "limbs":
        if o.get("limbs2"):
            return "Limbs2 %s %s" % (zlist([int(x) for x in o["limbs"]]), zlist([int(x) for x in o["limbs2"]]))
        return "Limbs %s" % zlist([int(x) for x in o["limbs"]])
    return "FuelV"


def case_term(c, o):
    k = c["w"] // 64
    return "mkc %d %s %s %s %d (%s)" % (c["w"], OPNAME[c["op"]], zlist(limbs_of(c["a"], k)), zlist(limbs_of(c["b"], k)), c["n"], obs_term(o))


def expected(c):
    """Direct oracle: what the property demands. Returns ('limbs', v) | ('limbs2', q, r) | ('panic',) | ('int', i) | None (unconstrained)."""
    w, op, a, b, n = c["w"], c["op"], c["a"], c["b"], c["n"]
    top = 1 << w
    if op == "shl":
        return ("val", (a << n) % top)
    if op == "shr":
        return ("val", a >> n)
    if op in ("add", "add64"):
        return ("val", a + b) if a + b < top else ("panic",)
    if op == "sub":
        return ("val", a - b) if a >= b else ("panic",)
    if op in ("mul", "mul64"):
        return ("val", a * b) if a * b < top else ("panic",)
    # a division by zero never returns a value: log.Panicf("division by zero") / the run-time panic of bits.Div64
    if op in ("quorem", "quorem64"):
        return ("val2", a // b, a % b) if b else ("panic",)
    if op in ("div", "div64"):
        return ("val", a // b) if b else ("panic",)
    if op in ("mod", "mod64"):
        return ("val", a % b) if b else ("panic",)
    # constructors (how kmermap.go builds every k-mer and mask): exact values whatever the receiver held
    if op in ("zero", "zerouint"):
        return ("val", 0)
    if op == "max":
        return ("val", top - 1)
    if op == "oneuint":
        return ("val", 1)
    if op in ("set64", "from64"):
        return ("val", b & M64)
    if op in ("cmp", "cmp64"):
        return ("int", (a > b) - (a < b))
    if op in ("lt", "le", "gt", "ge", "eq"):
        return ("int", int(dict(lt=a < b, le=a <= b, gt=a > b, ge=a >= b, eq=a == b)[op]))
    if op == "and":
        return ("val", a & b)
    if op == "or":
        return ("val", a | b)
    if op == "xor":
        return ("val", a ^ b)
    if op == "not":
        return ("val", (top - 1) ^ a)
    if op in ("to64", "to128", "to256", "as64"):
        tw = dict(to64=64, to128=128, to256=256, as64=64)[op]
        return ("val", a) if a < (1 << tw) else None       # narrowing of a value that does not fit: unconstrained
    if op == "iszero":
        return ("int", int(a == 0))
    if op == "lsh64":
        if n == 0:
            return None
        if n < 64:
            return ("limbs", [((a << n) | b) & M64, a >> (64 - n)])
        return None
    if op == "rsh64":
        return None
    return None


def agrees(exp, o):
    if o["kind"].startswith("unknown-op"):
        return False           # the harness does not know the operation: never a silent pass
    if exp is None:
        return True
    if o["kind"] == "crash":
        return False
    if exp[0] == "panic":
        return o["kind"] == "panic"
    if exp[0] == "int":
        return o["kind"] == "int" and o["int"] == exp[1]
    if o["kind"] != "limbs":
        return False
    if exp[0] == "limbs":
        return [int(x) for x in o["limbs"]] == exp[1]
    if exp[0] == "val":
        return val([int(x) for x in o["limbs"]]) == exp[1]
    if exp[0] == "val2":
        return val([int(x) for x in o["limbs"]]) == exp[1] and val([int(x) for x in o.get("limbs2") or []]) == exp[2]
    return False


def known_key(c, o):
    """Known finding: Uint128.Mul never looks at w1*w1 (pinned test demands the wrapped value)."""
    if c["w"] == 128 and c["op"] == "mul" and (c["a"] >> 64) and (c["b"] >> 64) and o["kind"] == "limbs":
        # exactly the wrapped value predicted by theorem C20_mul128_wraps_only_by_high_product
        if val([int(x) for x in o["limbs"]]) == c["a"] * c["b"] - (c["a"] >> 64) * (c["b"] >> 64) * (1 << 128):
            return "mul128-high-limbs"
    return None


def evaluate(ctx, cases, broken, label, corr=True):
    obs = ctx.vh_robust("c20", [to_vh(c) for c in cases], timeout=300, one_timeout=10)
    # direct oracle on the implementation
    nviol = 0
    for i, (c, o) in enumerate(zip(cases, obs)):
        if not agrees(expected(c), o):
            key = known_key(c, o)
            if key and ctx.kf_match(key):
                ctx.known(key, "Uint128.Mul does not signal the overflow of w1*w1 (e.g. 2^64*2^64 returns 0): both high limbs non-zero")
                continue
            nviol += 1
            if nviol <= 3:
                ctx.violation("%s_oracle_%d" % (label, i), dict(property="C20", kind="direct-oracle", case=c, hex=dict(a=hex(c["a"]), b=hex(c["b"])),
                                                              implementation=o, expected=expected(c)))
    if not corr:
        return obs, []
    # correspondence with the model
    ok_idx = [i for i, o in enumerate(obs) if o["kind"] != "crash"]
    bad, err = ctx.correspond(label, "From Coq Require Import ZArith List. Import ListNotations. Open Scope Z_scope.\nFrom OBI.C20 Require Import Model.",
                              [case_term(cases[i], obs[i]) for i in ok_idx])
    if bad is None:
        broken.append(dict(kind="correspondence", detail=err))
        return obs, []
    mism = [ok_idx[i] for i in bad]
    return obs, mism


# ---------------------------------------------------------------- translator (second tie between model and code)
TRANSLATOR = os.path.join(vlib.VERIF, "tools", "go2coq_obifp.go")
TRANSLATED_V = os.path.join(vlib.COQ, "theories", "C20", "Gen", "Translated.v")
GENPROPS_V = os.path.join(vlib.COQ, "theories", "C20", "GenProps.v")


def regen(ctx):
    """Called by check.py before the Coq build: translate pkg/obifp/{uint64,uint128,uint256}.go of the CURRENT working
    tree into C20/Gen/Translated.v (write-if-changed), so that C20/GenProps.v (T_f = model f, corollaries) is re-proved
    against what the source says now."""
    src = open(TRANSLATOR, "rb").read()
    d = os.path.join(vlib.BUILD, "go2coq")
    os.makedirs(d, exist_ok=True)
    binp = os.path.join(d, "go2coq_" + hashlib.sha1(src).hexdigest()[:12])
    if not os.path.exists(binp):
        with open(os.path.join(d, "go.mod"), "w") as f:
            f.write("module go2coq\n\ngo 1.23\n")
        with open(os.path.join(d, "main.go"), "wb") as f:
            f.write(src.replace(b"//go:build ignore\n", b"", 1))
        rc, so, se, dt = vlib.sh("go build -o %s ." % binp, cwd=d, env=vlib.GOENV, timeout=600)
        if rc != 0:
            raise RuntimeError("translator build failed: %s" % se[-1500:])
    rc, so, se, dt = vlib.sh([binp, vlib.REPO, TRANSLATED_V], timeout=120)
    if rc != 0:
        raise RuntimeError("translator failed: %s %s" % (so[-800:], se[-800:]))
    untr = [l for l in so.splitlines() if l.startswith("UNTRANSLATED")]
    m = re.search(r"\(\* translated: (.*?) \*\)", open(TRANSLATED_V).read())
    translated = m.group(1).split() if m else []
    proved = set(re.findall(r"^Theorem T_(\w+)_eq\b", vlib.strip_comments(open(GENPROPS_V).read()), re.M))
    missing_thm = [t for t in translated if t.replace(".", "_") not in proved]
    missing_fn = sorted(p for p in proved if p.replace("_", ".", 1) not in translated)
    ctx.cov["translator"] = dict(functions_translated=len(translated), untranslated=untr,
                                 translated_without_equality_theorem=missing_thm, equality_theorem_without_translation=missing_fn,
                                 output="changed" if "WROTE" in so else "unchanged", wall_s=round(dt, 2))
    ctx._c20_untranslated = untr


def broken_theorems(broken):
    """Name the theorem of GenProps.v / Props.v at which the Coq build stopped."""
    names = []
    for b in broken:
        if b.get("kind") == "proof-obligation" and b.get("file") and b.get("line"):
            path = b["file"] if os.path.isabs(b["file"]) else os.path.join(vlib.COQ, b["file"].lstrip("./"))
            try:
                lines = open(path).read().splitlines()
            except OSError:
                continue
            for i in range(min(int(b["line"]), len(lines)) - 1, -1, -1):
                mm = re.match(r"\s*(Theorem|Lemma)\s+(\w+)", lines[i])
                if mm:
                    b["theorem"] = mm.group(2)
                    names.append(mm.group(2))
                    break
    return names


def run(ctx, broken):
    thm = broken_theorems(broken)
    if thm:
        ctx.cov["broken_theorems"] = thm
    nrand = 250 if ctx.quick else 6000
    cases = gen_cases(ctx, nrand)
    obs, mism = evaluate(ctx, cases, broken, "main")
    ctx.cov["evaluations"] = len(cases)
    ctx.cov["distinct_nontrivial"] = len({(c["w"], c["op"], c["a"], c["b"], c["n"]) for c in cases if c["a"] > 1 or c["b"] > 1})
    ctx.cov["rule"] = ("operands: per-limb boundary values, 2^k+-1, random widths; all shift counts 0..w+65; ops of the three widths; "
                       "non-trivial = an operand > 1; distinct = distinct (width, op, a, b, n)")
    dist = {}
    for c, o in zip(cases, obs):
        k = "%d/%s/%s" % (c["w"], c["op"], o["kind"])
        dist[k] = dist.get(k, 0) + 1
    ctx.cov["distribution"] = dist
    classes = {}
    for c in cases:
        k = c.get("tag") or ("stream:" + c.get("cls", "random"))
        classes[k] = classes.get(k, 0) + 1
    ctx.cov["input_classes"] = classes
    ctx.samples = [dict(case=dict(c, a=hex(c["a"]), b=hex(c["b"])), implementation=o) for c, o in list(zip(cases, obs))[:3] + list(zip(cases, obs))[-3:]]
    ctx.cov["model_vs_impl_mismatches"] = len(mism)
    if (mism or thm) and not ctx.violations:
        # model != code, or an equality T_f = f / a corollary no longer checks, but the direct oracle is satisfied so far:
        # search harder — oracle only first (fast), the op of the broken theorem first
        only = sorted({t for n in thm for t in theorem_ops(n)})
        if only:
            evaluate(ctx, gen_cases(ctx, 3000, only=only), [], "target", corr=False)
        more, obs2 = [], []
        if not ctx.violations:
            more = gen_cases(ctx, 20000)
            obs2, _ = evaluate(ctx, more, [], "search", corr=False)
        if not ctx.violations and mism:
            i = mism[0]
            broken.append(dict(kind="correspondence", name="corr:C20/%d/%s" % (cases[i]["w"], cases[i]["op"]), first_diverging_case=cases[i],
                               implementation=obs[i], n_diverging=len(mism)))
        elif not ctx.violations:
            # proof obligation broken, oracle and main correspondence satisfied: look for a diverging case of the (unchanged) model
            sub = ctx.rng.sample(more, min(6000, len(more)))
            _, mism2 = evaluate(ctx, sub, [], "searchcorr")
            if mism2:
                i = mism2[0]
                broken.append(dict(kind="correspondence", name="corr:C20/%d/%s" % (sub[i]["w"], sub[i]["op"]), first_diverging_case=sub[i],
                                   n_diverging=len(mism2)))
    elif mism:
        ctx.cov["note"] = "model and implementation diverge on %d cases (violations reported by the direct oracle)" % len(mism)


METHOD_OP = dict(LeftShift="shl", RightShift="shr", Add="add", Sub="sub", Mul="mul", Cmp="cmp", LessThan="lt", LessThanOrEqual="le",
                 GreaterThan="gt", GreaterThanOrEqual="ge", Equals="eq", And="and", Or="or", Xor="xor", Not="not", Uint64="to64",
                 Uint128="to128", Uint256="to256", IsZero="iszero", AsUint64="as64", LeftShift64="lsh64", RightShift64="rsh64",
                 Add64="add64", Mul64="mul64", QuoRem="quorem", QuoRem64="quorem64", Div="div", Mod="mod", Div64="div64", Mod64="mod64",
                 Cmp64="cmp64")


def theorem_ops(name):
    """(width, op) pairs exercised by the method a theorem of GenProps.v is about (T_Uint128_Add_eq -> (128, add));
    the low-level Uint64 helpers are reached through every width."""
    m = re.match(r"[TL]_Uint(64|128|256)_(\w+?)(_eq)?$", name)
    if not m:
        return []
    w, meth = int(m.group(1)), m.group(2)
    op = METHOD_OP.get(meth)
    res = []
    if op and op in OPS[w]:
        res.append((w, op))
    if w == 64 and meth in ("LeftShift64", "RightShift64"):
        res += [(ww, o) for ww in (64, 128, 256) for o in ("shl", "shr")]
    if w == 64 and meth in ("Add64", "Sub64", "Mul64"):
        res += [(64, "add"), (64, "sub"), (64, "mul")]
    if meth == "Cmp":
        res += [(w, o) for o in ("lt", "le", "gt", "ge", "eq")]
    return res


def replay(ctx, rp):
    c = rp["case"]
    obs, mism = evaluate(ctx, [c], [], "replay")
    print("replay:", c, "->", obs[0], "model-mismatch" if mism else "model-agrees")
