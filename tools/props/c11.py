"""C11 — in-silico PCR returns exactly the amplicons the primers define, on either strand."""
import json

PROPS = ["C11/Props.v"]
META = dict(
    text="Rocq theorems over an executable transcription of obiapat._Pcr and _Segment (both orientation blocks, exact search window, "
         "insert-length arithmetic, flank clipping, circular-aware Subsequence, the walk around the circle, recycled C buffer) running on "
         "specification hits (pattern positions = IUPAC letter / [..] class / !negation, optional # obligatory mark, <= e mismatches). "
         "Proved at the level of MULTISETS: on linear and on circular templates the list of records returned is a permutation of the "
         "specification list holding exactly one record per pair (site of one primer, site of the complemented other primer) within the "
         "length bounds, whose members are the amplicons of the relational specification (soundness + completeness, never fatal); "
         "reverse-complementing the template gives the same multiset with the direction flipped; rotating a circular template permutes "
         "the records; batch independence. obipcr --fragmented: the cutting of obiiter.IFragments is modelled and tied to the code; every "
         "amplicon lies inside the unique fragment that owns it, duplicates lie in the zone shared by two fragments, and searching the "
         "fragments finds the same SET of amplicons as searching the template. The models are tied to the real code on every run "
         "(vm_compute on the same templates PCRSim / PCRSlice / PCRSliceWorker ran on, amplicons compared as multisets of (sequence, "
         "direction, match strings, error counts); IFragments on sequence lengths around every loop boundary); a brute-force Python oracle "
         "checks the statement directly on the implementation's amplicons, with relational clauses (reverse complement, all rotations of "
         "small circles - as multisets -, reversed batches) and a command-level clause running obipcr itself (option plumbing, --fragmented).",
    note="Trusted: Coq kernel + vm_compute; the C matcher (ManberSub/ManberNoErr) is represented by the specification matcher "
         "(its exactness is property C10; re-tested here by every correspondence case, including # / ! / [..] patterns); "
         "harness/generators. Residual hypotheses of the theorems are on the OPTIONS only: extension >= 0 when requested, primers "
         "non-empty, and on circular templates primers not longer than MAX_PAT_LEN = 64 (the length of the circular extension); templates "
         "are arbitrary (empty, shorter than a primer, flanked amplicon longer than the circle). Fragmented mode: theorems assume a "
         "positive step (99 max > sum of the primer lengths; otherwise IFragments does not advance - observed, not repaired) and no "
         "flanks; multiplicities differ (known finding fragmented-duplicates, characterised by C11_fragments_duplicate_zone / "
         "_owner_unique). Indel mode is not reachable from PCR (MakeApatPattern(primer, e, false)). Primers of 64 symbols or more are "
         "outside the matcher's domain (C10 known finding; 65 symbols crash MakeApatPattern's caller).")
TRUSTED = ["the C bit-parallel matcher is represented in the model by the specification matcher (positions with <= e mismatches against "
           "IUPAC / [..] / ! positions, none on a # position, minimal count) — its exactness is property C10 and is re-tested by every "
           "correspondence case of this check"]

IUPAC = dict(a="a", c="c", g="g", t="t", u="t", r="ag", y="ct", s="cg", w="at", k="gt", m="ac",
             b="cgt", d="agt", h="act", v="acg", n="acgt", x="acgt")
PCOMP = dict(a="t", c="g", g="c", t="a", u="a", r="y", y="r", s="s", w="w", k="m", m="k", b="v", d="h", h="d", v="b", n="n", x="x")
TCOMP = dict(a="t", c="g", g="c", t="a", n="n")
MAXPAT = 64


def rc(s):
    return "".join(TCOMP[x] for x in reversed(s))


def parse_primer(p):
    """Pattern syntax of obiapat (MakeApatPattern): one position = optional '!' (negation: any letter of the whole alphabet
    but those listed, so also n), an IUPAC letter or a [..] class of letters, optional '#' (no mismatch allowed there).
    Returns a list of positions dict(set=accepted letters among acgt, other=accepts letters outside acgt, oblig=bool)."""
    p = p.lower()
    toks, i = [], 0
    while i < len(p):
        neg = False
        if p[i] == "!":
            neg = True
            i += 1
        if p[i] == "[":
            j = p.index("]", i)
            letters = p[i + 1:j]
            i = j + 1
        else:
            letters = p[i]
            i += 1
        acc = set()
        for x in letters:
            acc |= set(IUPAC[x])
        if neg:
            acc = set(BASES_SET) - acc
        oblig = i < len(p) and p[i] == "#"
        if oblig:
            i += 1
        toks.append(dict(set="".join(sorted(acc)), other=neg, oblig=oblig))
    return toks


BASES_SET = "acgt"


def plen(p):
    return len(parse_primer(p))


def rc_tokens(toks):
    return [dict(set="".join(sorted(TCOMP[x] for x in k["set"])), other=k["other"], oblig=k["oblig"]) for k in reversed(toks)]


def tok_match(k, x):
    return (x in k["set"]) if x in BASES_SET else k["other"]


def hits(toks, e, text, n_starts):
    """Specification matcher: (i, mismatches) for every start i < n_starts such that the primer (parsed positions) fits in
    text at i (text is already extended for circular templates) with <= e mismatches, none of them on a '#' position."""
    m = len(toks)
    res = []
    for i in range(0, min(n_starts, len(text) - m + 1)):
        k = 0
        for q in range(m):
            if not tok_match(toks[q], text[i + q]):
                k += 1
                if k > e or toks[q]["oblig"]:
                    k = e + 1
                    break
        if k <= e:
            res.append((i, k))
    return res


def circ(t, a, n):
    """n letters of the circular template t starting at position a (any integer)."""
    L = len(t)
    return "".join(t[(a + q) % L] for q in range(n))


def spec_forward(t, c, direction):
    """Amplicons of the forward orientation of template t: every (forward hit i, complemented-reverse hit j downstream).
    Returns (list of amplicon dicts, unconstrained flag)."""
    L = len(t)
    fwd, rev = parse_primer(c["fwd"]), parse_primer(c["rev"])
    fl, rl = len(fwd), len(rev)
    mn, mx, ext, full = c["min"], c["max"], c["ext"], c["full"]
    amps, unconstrained = [], False
    if L == 0:
        return amps, False
    if c["circular"]:
        text = circ(t, 0, L + MAXPAT)
        F = hits(fwd, c["ef"], text, L)
        R = hits(rc_tokens(rev), c["er"], text, L)
    else:
        F = hits(fwd, c["ef"], t, L)
        R = hits(rc_tokens(rev), c["er"], t, L)
    for (i, ei) in F:
        for (j, ej) in R:
            if c["circular"]:
                ins = (j - i - fl) % L
            else:
                ins = j - (i + fl)
            if ins <= 0 or (mn != 0 and ins < mn) or (mx != 0 and ins > mx):
                continue
            if c["circular"]:
                if ext >= 0:
                    tot = fl + ins + rl + 2 * ext
                    seq = circ(t, i - ext, tot)
                else:
                    seq = circ(t, i + fl, ins)
                fm, rm = circ(t, i, fl), rc(circ(t, j, rl))
            else:
                if ext >= 0:
                    a, b = i - ext, j + rl + ext
                    if full:
                        if a < 0 or b > L:
                            continue
                    else:
                        a, b = max(a, 0), min(b, L)
                    seq = t[a:b]
                else:
                    seq = t[i + fl:j]
                fm, rm = t[i:i + fl], rc(t[j:j + rl])
            amps.append(dict(seq=seq, dir=direction, fm=fm, fe=ei, rm=rm, re=ej))
    return amps, unconstrained


def spec_pcr(t, c):
    """The statement: forward-orientation amplicons of t, plus those of rc(t) reported with direction 'reverse'."""
    a1, u1 = spec_forward(t, c, "forward")
    a2, u2 = spec_forward(rc(t), c, "reverse")
    return a1 + a2, (u1 or u2)


def akey(a):
    return (a["seq"], a["dir"], a["fm"], a["fe"], a["rm"], a["re"])


def canon(amps):
    return sorted(akey(a) for a in amps)


def flip(k):
    return (k[0], "reverse" if k[1] == "forward" else "forward") + tuple(k[2:])


# ------------------------------------------------------------------ generators
BASES = "acgt"
AMBIG = "rykmswbdhvn"


def rand_seq(rng, n, alphabet=BASES):
    return "".join(rng.choice(alphabet) for _ in range(n))


def rand_primer(rng, m, syntax=False):
    """m pattern positions; syntax=True also uses [..] classes, ! negations and # marks (never on the first position for
    '#', which MakeApatPattern rejects)."""
    p = []
    for q in range(m):
        r = rng.random()
        if syntax and r < 0.15:
            x = "[" + "".join(rng.sample(BASES, rng.choice([1, 2, 2, 3]))) + "]"
        elif syntax and r < 0.3:
            x = "!" + rng.choice(BASES + "ry")
        elif syntax and r < 0.33:
            x = "![" + "".join(rng.sample(BASES, 2)) + "]"
        else:
            x = rng.choice(AMBIG) if rng.random() < 0.2 else rng.choice(BASES)
        if syntax and rng.random() < 0.25:
            x += "#"
        p.append(x)
    return "".join(p)


def instance(rng, toks):
    """A concrete acgt word matched by the parsed primer (positions accepting no base get an 'a')."""
    return "".join(rng.choice(k["set"]) if k["set"] else "a" for k in toks)


def mutate(rng, toks, w, k):
    """w with k positions replaced by a letter NOT matched by the primer position (when one exists)."""
    w = list(w)
    pos = [q for q in range(len(toks)) if len(toks[q]["set"]) < 4]
    rng.shuffle(pos)
    for q in pos[:k]:
        w[q] = rng.choice([x for x in BASES if x not in toks[q]["set"]])
    return "".join(w)


def gen_case(rng, circular=None, small=False):
    fl = rng.choice([3, 4, 5, 6, 8, 12, 18])
    rl = fl if rng.random() < 0.4 else rng.choice([3, 4, 5, 6, 8, 12, 20])
    if small:
        fl, rl = rng.choice([3, 4, 5]), rng.choice([3, 4, 5, 6])
    syntax = rng.random() < 0.3
    fwd, rev = rand_primer(rng, fl, syntax), rand_primer(rng, rl, syntax)
    ef = rng.choice([0, 0, 1, 1, 2]) if fl > 4 else rng.choice([0, 0, 1])
    er = rng.choice([0, 0, 1, 1, 2]) if rl > 4 else rng.choice([0, 0, 1])
    if rng.random() < 0.3:
        er = ef
    circular = (rng.random() < 0.4) if circular is None else circular
    fwd_s, rev_s = fwd, rev
    fwd, rev = parse_primer(fwd_s), parse_primer(rev_s)
    crev = rc_tokens(rev)
    nt = rng.choice([1, 1, 2, 3, 4])
    templates = []
    for _ in range(nt):
        L = rng.choice([0, 1, 5, 12, 20, 30, 40, 63, 64, 65, 80, 100, 130]) if not small else rng.randrange(8, 28)
        if rng.random() < 0.6:
            L = max(L, 12)
        t = list(rand_seq(rng, L, BASES if rng.random() < 0.9 else BASES + "n"))
        # plant priming sites: forward-strand sites (fwd ... crev) and reverse-strand sites (rev ... cfwd)
        nsites = rng.choice([0, 1, 1, 2, 2, 3, 4])
        for _ in range(nsites):
            which = rng.choice(["fwd", "crev", "rev", "cfwd"])
            p = dict(fwd=fwd, crev=crev, rev=rev, cfwd=rc_tokens(fwd))[which]
            e = ef if which in ("fwd", "cfwd") else er
            k = rng.choice([0, 0, 0, 1, e, e + 1])
            w = mutate(rng, p, instance(rng, p), k)
            if L < len(w):
                continue
            r = rng.random()
            if r < 0.2:
                at = 0
            elif r < 0.4:
                at = L - len(w)
            elif r < 0.5 and circular:
                at = L - rng.randrange(1, len(w))          # spanning the origin of a circular template
            else:
                at = rng.randrange(0, L - len(w) + 1)
            for q, x in enumerate(w):
                if at + q < L:
                    t[at + q] = x
                elif circular:
                    t[(at + q) % L] = x
        # plant whole priming pairs (site ... partner site) on either strand, gap 0 (touching) .. 30, possibly wrapping
        for _ in range(rng.choice([0, 1, 1, 2])):
            strand = rng.random() < 0.5
            p1, p2 = (fwd, crev) if strand else (rev, rc_tokens(fwd))
            e1, e2 = (ef, er) if strand else (er, ef)
            w1 = mutate(rng, p1, instance(rng, p1), rng.choice([0, 0, 1, e1, e1 + 1]))
            w2 = mutate(rng, p2, instance(rng, p2), rng.choice([0, 0, 1, e2, e2 + 1]))
            gap = rng.choice([0, 1, 2, 3, 5, 8, 13, 21, 30]) - (rng.choice([1, 2]) if rng.random() < 0.08 else 0)
            tot = len(w1) + max(gap, 0) + len(w2)
            if L < tot + 1:
                continue
            at = rng.choice([0, L - tot, rng.randrange(0, L - tot + 1)]) if not circular or rng.random() < 0.5 else rng.randrange(0, L)
            for q, x in enumerate(w1):
                if at + q < L or circular:
                    t[(at + q) % L] = x
            for q, x in enumerate(w2):
                k = at + len(w1) + gap + q
                if 0 <= k < L or circular:
                    t[k % L] = x
        templates.append("".join(t))
    r = rng.random()
    if r < 0.35:
        mn, mx = 0, 0
    elif r < 0.6:
        mn, mx = rng.choice([0, 1, 3, 8]), rng.choice([5, 10, 20, 50])
    elif r < 0.8:
        mn, mx = rng.choice([1, 2, 5, 10, 30]), 0
    else:
        mn, mx = 0, rng.choice([1, 2, 5, 10, 30, 100])
    r = rng.random()
    ext = -1 if r < 0.5 else rng.choice([0, 1, 2, 3, 5, 10, 40])
    full = rng.random() < 0.4
    mode = rng.choice(["sim", "slice", "slice", "worker"])
    return dict(templates=templates, fwd=fwd_s, rev=rev_s, ef=ef, er=er, min=mn, max=mx, ext=ext, full=full,
                circular=circular, mode=mode)


def gen_tiny_circle(rng):
    """Circular templates of 1..9 bases built from a repeated unit, primers cut from several turns of the same circle (so
    that a primer site goes around the circle more than once), flanks up to several turns."""
    u = rand_seq(rng, rng.randrange(1, 5))
    L = rng.randrange(1, 10)
    t = (u * 10)[:L]
    turns = t * 12
    a = rng.randrange(0, L)
    fl, rl = rng.choice([2, 3, 5, 8, 11]), rng.choice([2, 3, 4, 7, 12])
    fwd = turns[a:a + fl]
    b = rng.randrange(0, L)
    rev = rc(turns[b:b + rl])
    if rng.random() < 0.3:
        q = rng.randrange(len(fwd))
        fwd = fwd[:q] + rng.choice(BASES + "nry") + fwd[q + 1:]
    ef = rng.choice([0, 0, 1]) if fl > 2 else 0
    er = rng.choice([0, 0, 1]) if rl > 2 else 0
    templates = [t[r:] + t[:r] for r in sorted({0, rng.randrange(0, L), L - 1})]
    mn, mx = rng.choice([(0, 0), (0, 0), (1, 3), (2, 0), (0, 2 * L)])
    ext = rng.choice([-1, -1, 0, 1, L, 2 * L + 1, 13])
    return dict(templates=templates, fwd=fwd, rev=rev, ef=ef, er=er, min=mn, max=mx, ext=ext, full=rng.random() < 0.3,
                circular=True, mode=rng.choice(["sim", "slice", "worker"]))


def hand_cases():
    """Boundary cases written by hand + minimised defect witnesses (always first)."""
    base = dict(fwd="acgt", rev="ggcc", ef=0, er=0, min=0, max=0, ext=-1, full=False, circular=False, mode="slice")
    C = []

    def add(tag, **kw):
        C.append(dict(base, **kw, tag=tag))
    # crev of ggcc = ggcc
    add("plain", templates=["ttacgtaaaaaggcctt"])
    add("site-at-both-ends", templates=["acgtaaaaaggcc"])
    add("touching-primers", templates=["ttacgtggcctt"])
    add("overlapping-primers", fwd="acgg", rev="aacc", templates=["ttacggttcc", "ttacggtttt"])
    add("one-base-insert", templates=["acgtaggcc"])
    add("both-strands", templates=["acgtaaaggcc" + "tt" + "ggccaaaacgt"])
    add("reverse-only", templates=["ggcctttacgt"])
    add("two-forward-two-reverse", templates=["acgtacgtaaggccaggcc"])
    add("min-max-exact", min=5, max=5, templates=["acgtaaaaaggcc", "acgtaaaaggcc", "acgtaaaaaaggcc"])
    add("max-only", max=3, templates=["acgtaaaggccaaaaaaaaaggcc"])
    add("ext-clipped", ext=3, templates=["tacgtaaaaaggcctttt"])
    add("ext-full-rejected", ext=3, full=True, templates=["tacgtaaaaaggcctttt", "tttacgtaaaaaggcctttt"])
    add("ext-zero", ext=0, templates=["ttacgtaaaaaggcctt"])
    add("uppercase-primers", fwd="ACGT", rev="GGCC", templates=["ttacgtaaaaaggcctt", "ggcctttacgt"])
    add("uppercase-iupac-primers", fwd="ACRY", rev="NNSW", ef=1, templates=["ttacgtaaaaaaaccgatt"])
    add("iupac-primers", fwd="acry", rev="nnsw", templates=["ttacgtaaaaaaaccgatt", "acactttttggcc"])
    add("errors-e-and-e+1", fwd="acgtac", rev="ggccgg", ef=1, er=1,
        templates=["ttacgtacaaaaaccggcctt", "ttaggtacaaaaaccggcctt", "ttaggtaaaaaaaccggcctt", "ttacgtacaaaaaccgggatt", "ttacgtacaaaaaccaagctt"])
    add("empty-and-short", templates=["", "a", "acgt", "acgtggc"])
    # pattern syntax: [..] classes, ! negation (matches any other letter, n included), # obligatory positions
    add("syntax-class", fwd="ac[gt]t", rev="gg[ac]c", templates=["ttacgtaaaaaggcctt", "ttacttaaaaagtcctt", "ttacataaaaaggcctt", "ggcctttacgt"])
    add("syntax-negation", fwd="a!ggt", rev="gg!tc", templates=["ttacgtaaaaaggcctt", "ttaggtaaaaaggcctt", "ttangtaaaaagncctt", "ttacgtaaaaagacctt"])
    add("syntax-negated-class", fwd="a![ct]gt", rev="ggcc", templates=["ttaagtaaaaaggcctt", "ttacgtaaaaaggcctt", "ttangtaaaaaggcctt"])
    add("syntax-oblig-mismatch-rejected", fwd="ac#gtac", rev="gg#ccgg", ef=1, er=1,
        templates=["ttacgtacaaaaaccggcctt", "ttaggtacaaaaaccggcctt", "ttacctacaaaaaccggcctt", "ttacgtacaaaaaccgggctt", "ttacgtacaaaaaccgcactt",
                   "ttggccggtttttgtacgttt", "ttggccggtttttgtacctaa"])
    add("syntax-oblig-circular", circular=True, fwd="acg#tac", rev="ggc#", ef=1, er=1, templates=["gtacgt" + "t" * 20 + "ggc" + "aac", "gtaagt" + "t" * 20 + "ggc" + "aac", "gtacct" + "t" * 20 + "ggc" + "aac"])
    add("syntax-all", fwd="a#[ct]!ag#t", rev="!t#g[ca]c#", ef=2, er=2, templates=["ttacgtaaaaaggcctt", "ttatcgtaaaagtcgtt", "aaggcctttttacgtaa", "aagcccttttnacgtaa"])
    add("batch-recycled-long-then-short", templates=["ttacgtaaaaaggcctt" * 6, "acgtaggcc", "ggcctacgt", ""], mode="slice")
    add("batch-recycled-short-then-long", templates=["", "acgtaggcc", "ttacgtaaaaaggcctt" * 6], mode="worker")
    add("circular-plain", circular=True, templates=["ttacgtaaaaaggcctt" + "a" * 60])
    add("circular-origin-in-insert", circular=True, templates=["aaaggcctt" + "c" * 60 + "ttacgtaa"])
    add("circular-origin-in-forward-primer", circular=True, templates=["gtaaaaaggcctt" + "c" * 60 + "ttac"])
    add("circular-origin-in-reverse-primer", circular=True, templates=["cctt" + "c" * 60 + "ttacgtaaaaagg"])
    # witnesses of the circular defects repaired by the fix: commits (see known_findings.d/C11.json)
    add("fixed:circ-unequal-primers-amplicon-dropped", circular=True, fwd="acgtac", rev="ggc", templates=["gtacgt" + "t" * 66 + "ggc" + "aa"])
    add("fixed:circ-unequal-primers-escapes-max", circular=True, fwd="acgtac", rev="ggc", max=3, templates=["gtacgt" + "t" * 60 + "ggc" + "aaaaa"])
    add("fixed:circ-rotation-dependent", circular=True, fwd="acgt", rev="gtcc", templates=["ttggacgt" + "a" * 70, "gacgt" + "a" * 70 + "ttg"])
    add("fixed:circ-rotation-dependent-short", circular=True, fwd="acgt", rev="gtcc", templates=["ttggacgtaaaaaaa", "gacgtaaaaaaattg"])
    add("fixed:circ-flank-before-origin", circular=True, ext=3, templates=["tacgtaaaaaggcc" + "t" * 70])
    add("circ-flank-after-origin", circular=True, ext=3, templates=["t" * 70 + "tacgtaaaaaggcc"])
    add("fixed:circular-template-shorter-than-primer", circular=True, fwd="acgtacgta", rev="gta", templates=["acgt", "cgta", "gtac", "tacg"])
    add("fixed:circular-template-shorter-than-primer-flanks", circular=True, fwd="acgtacgta", rev="gta", ext=3, templates=["acgt", "a", "ac"])
    add("fixed:circular-flanked-amplicon-longer-than-circle", circular=True, ext=10,
        templates=["acgt" + "a" * 15 + "ggcc" + "t" * 7, "a" * 15 + "ggcc" + "t" * 7 + "acgt"])
    add("circular-flank-several-turns", circular=True, ext=40, templates=["acgtaggcct", "ggcctacgta"])
    add("circular-one-base-circle", circular=True, fwd="aaa", rev="ttt", ef=0, er=0, templates=["a", "t", "c"])
    add("fixed:reverse-window-longer-forward-primer", fwd="acgtacgtacgtacgtacgt", rev="ggc", max=6,
        templates=[rc("tt" + "acgtacgtacgtacgtacgt" + "a" * k + "gcc" + "tt") for k in (3, 4, 5, 6, 7)] + ["tt" + "acgtacgtacgtacgtacgt" + "a" * 6 + "gcc" + "tt"])
    add("circ-short-template", circular=True, templates=["gtaaaaaggccttttac", "cgtaaaaaggccttttta", "ccttttacgtaaaaagg"])
    return C


# ------------------------------------------------------------------ running and judging
CASE_KEYS = ("templates", "fwd", "rev", "ef", "er", "min", "max", "ext", "full", "circular", "mode")


def to_vh(c):
    return {k: c[k] for k in CASE_KEYS}


def run_cases(ctx, cases):
    return ctx.vh_robust("c11", [to_vh(c) for c in cases], timeout=600, one_timeout=20)


def judge(c, o):
    """Direct oracle on one case: list of (template index, class, got, expected) for every template whose amplicon
    multiset is not the specified one; plus the number of templates outside the statement."""
    bad, unconstrained = [], 0
    if o["kind"] != "ok":
        return [(None, "fatal" if o["kind"] == "fatal" else "crash", o, None)], 0
    for ti, t in enumerate(c["templates"]):
        exp, unc = spec_pcr(t, c)
        got = canon(o["amps"][ti])
        if unc:
            unconstrained += 1
            if got != canon(exp):
                bad.append((ti, "circular-overlong", got, canon(exp)))
            continue
        if got != canon(exp):
            bad.append((ti, "circular" if c["circular"] else "linear", got, canon(exp)))
        else:
            for a in o["amps"][ti]:
                if a["fp"] != c["fwd"] or a["rp"] != c["rev"]:
                    bad.append((ti, "primer-annotation", [akey(a), a["fp"], a["rp"]], [c["fwd"], c["rev"]]))
                    break
    return bad, unconstrained


def single(c, ti):
    return dict({k: c[k] for k in CASE_KEYS}, templates=[c["templates"][ti]], mode="sim")


def report(ctx, name, klass, case, got, expected, extra=None):
    d = dict(property="C11", kind="direct-oracle", klass=klass, case=to_vh(case), implementation=got, expected=expected)
    if extra:
        d.update(extra)
    ctx.violation(name, d)


def amp_term(a):
    return '(%s, %s, %s, %d, %s, %d)' % (seq_term(a[0]), "true" if a[1] == "forward" else "false", seq_term(a[2]), a[3], seq_term(a[4]), a[5])


NUC = dict(a=0, c=1, g=2, t=3)
PMASK = {k: sum(1 << NUC[x] for x in v) for k, v in IUPAC.items()}


def seq_term(s):
    return "[" + ";".join(str(NUC.get(x, 4)) for x in s) + "]"


def primer_term(p):
    """one N per pattern position: bits 0..3 = a c g t accepted, bit 4 = '#', bit 5 = letters outside acgt accepted ('!')"""
    return "[" + ";".join(str(sum(1 << NUC[x] for x in k["set"]) + (16 if k["oblig"] else 0) + (32 if k["other"] else 0))
                          for k in parse_primer(p)) + "]"


def case_term(c, ti, amps):
    """One Coq correspondence case = one template of a batch with the amplicons observed for it."""
    return "mkc %s %s %d %d %d %d (%s) %s %s %s [%s]" % (
        primer_term(c["fwd"]), primer_term(c["rev"]), c["ef"], c["er"], c["min"], c["max"],
        "None" if c["ext"] < 0 else "Some %d" % c["ext"], "true" if c["full"] else "false",
        "true" if c["circular"] else "false", seq_term(c["templates"][ti]),
        "; ".join(amp_term(a) for a in canon(amps)))


IMPORTS = "From Coq Require Import NArith List. Import ListNotations. Open Scope N_scope.\nFrom OBI.C11 Require Import Model."


def evaluate(ctx, cases, broken, label, correspond=True, max_report=3):
    obs = run_cases(ctx, cases)
    nrep = {}
    stats = dict(templates=0, with_amplicons=0, amplicons=0, unconstrained=0, failing=0)
    fails = []
    for i, (c, o) in enumerate(zip(cases, obs)):
        bad, unc = judge(c, o)
        stats["unconstrained"] += unc
        stats["templates"] += len(c["templates"])
        if o["kind"] == "ok":
            for a in o["amps"]:
                stats["amplicons"] += len(a)
                stats["with_amplicons"] += 1 if a else 0
        for (ti, klass, got, exp) in bad:
            stats["failing"] += 1
            fails.append((i, ti, klass))
            key = None          # no known finding left at this level (both circular findings of round 1 are repaired)
            if key and ctx.kf_match(key):
                ctx.known(key, ctx.kf_match(key)["what"])
                continue
            nrep[klass] = nrep.get(klass, 0) + 1
            if nrep[klass] <= max_report:
                wit, wgot, wexp = c, got, exp
                if ti is not None:
                    # reduce the batch to the failing template alone when it still fails alone
                    s = single(c, ti)
                    so = run_cases(ctx, [s])[0]
                    sb, _ = judge(s, so)
                    if sb:
                        wit, wgot, wexp = s, sb[0][2], sb[0][3]
                    else:
                        klass = "batch-dependent"
                report(ctx, "%s_%s_%d_%s" % (label, klass, i, ti), klass, wit, wgot, wexp, dict(tag=c.get("tag"), defect_class=key))
    mism = []
    if correspond:
        terms, where = [], []
        for i, (c, o) in enumerate(zip(cases, obs)):
            if o["kind"] != "ok":
                continue
            for ti, t in enumerate(c["templates"]):
                if len(t) > 400 or len(o["amps"][ti]) > 60:
                    continue
                terms.append(case_term(c, ti, o["amps"][ti]))
                where.append((i, ti))
        bad, err = ctx.correspond(label, IMPORTS, terms, shard=120)
        if bad is None:
            broken.append(dict(kind="correspondence", detail=err))
        else:
            mism = [where[k] for k in bad]
    return obs, fails, mism, stats


def relational(ctx, cases, obs, label):
    """Strand-symmetry, rotation-invariance and batch-independence clauses, implementation against implementation."""
    rng = ctx.rng
    derived, meta = [], []
    for i, (c, o) in enumerate(zip(cases, obs)):
        if o["kind"] != "ok" or not c["templates"]:
            continue
        # strand symmetry: reverse-complemented templates
        derived.append(dict(to_vh(c), templates=[rc(t) for t in c["templates"]]))
        meta.append(("strand", i, None))
        # batch independence: reversed order through another entry point
        if len(c["templates"]) > 1:
            derived.append(dict(to_vh(c), templates=list(reversed(c["templates"])), mode=rng.choice(["slice", "worker"])))
            meta.append(("batch", i, None))
        if c["circular"]:
            for ti, t in enumerate(c["templates"]):
                L = len(t)
                if L < 2:
                    continue
                rots = range(1, L) if L <= 24 else sorted({1, L - 1, L // 2, rng.randrange(1, L), rng.randrange(1, L)})
                derived.append(dict(to_vh(c), templates=[t[r:] + t[:r] for r in rots]))
                meta.append(("rotation", i, ti))
    dobs = run_cases(ctx, derived)
    counts = dict(strand=0, rotation=0, batch=0)
    nrep = {}
    for (kind, i, ti), d, do in zip(meta, derived, dobs):
        c, o = cases[i], obs[i]
        fails = []
        if do["kind"] != "ok":
            fails.append((d, do, None))
        elif kind == "strand":
            for k, t in enumerate(c["templates"]):
                counts["strand"] += 1
                if sorted(flip(x) for x in canon(o["amps"][k])) != canon(do["amps"][k]):
                    fails.append((dict(d, templates=[t, rc(t)], mode="slice"), canon(o["amps"][k]), canon(do["amps"][k])))
        elif kind == "batch":
            n = len(c["templates"])
            for k, t in enumerate(c["templates"]):
                counts["batch"] += 1
                if canon(o["amps"][k]) != canon(do["amps"][n - 1 - k]):
                    fails.append((d, canon(o["amps"][k]), canon(do["amps"][n - 1 - k])))
        else:
            t = c["templates"][ti]
            for k, rt in enumerate(d["templates"]):
                counts["rotation"] += 1
                if canon(o["amps"][ti]) != canon(do["amps"][k]):       # multisets (C11_rotation_invariant_impl)
                    fails.append((dict(d, templates=[t, rt], mode="slice"), canon(o["amps"][ti]), canon(do["amps"][k])))
        for (wc, a, b) in fails:
            key = None
            if key and ctx.kf_match(key):
                ctx.known(key, ctx.kf_match(key)["what"])
                continue
            nrep[kind] = nrep.get(kind, 0) + 1
            if nrep[kind] <= 2:
                ctx.violation("%s_%s_%d_%d" % (label, kind, i, nrep[kind]), dict(property="C11", kind="relational:" + kind, case=wc,
                                                                 first=a, second=b, defect_class=key))
    return counts


# ------------------------------------------------------------------ command level: obipcr (option plumbing, --fragmented)
def parse_fasta_json(text):
    recs, cur = [], None
    for line in text.splitlines():
        if line.startswith(">"):
            head = line[1:]
            sp = head.find(" ")
            rid, rest = (head, "") if sp < 0 else (head[:sp], head[sp + 1:].strip())
            ann = {}
            if rest.startswith("{"):
                try:
                    ann = json.loads(rest)
                except ValueError:
                    ann = {}
            cur = dict(id=rid, ann=ann, seq="")
            recs.append(cur)
        elif cur is not None:
            cur["seq"] += line.strip()
    return recs


def run_obipcr(ctx, bindir, c, workdir, k):
    import os, subprocess
    path = os.path.join(workdir, "cli_%d.fasta" % k)
    with open(path, "w") as f:
        for i, t in enumerate(c["templates"]):
            f.write(">t%d\n%s\n" % (i, t))
    cmd = [os.path.join(bindir, "obipcr"), "--forward", c["fwd"], "--reverse", c["rev"], "-e", str(c["ef"]),
           "-l", str(c["min"]), "-L", str(c["max"]), "--no-progressbar"]
    if c["ext"] >= 0:
        cmd += ["--delta", str(c["ext"])]
    if c["full"]:
        cmd += ["--only-complete-flanking"]
    if c["circular"]:
        cmd += ["-c"]
    if c.get("fragmented"):
        cmd += ["--fragmented"]
    try:
        p = subprocess.run(cmd + [path], capture_output=True, timeout=120)
    except subprocess.TimeoutExpired:
        return None, "timeout"
    if p.returncode != 0:
        return None, "exit %d: %s" % (p.returncode, p.stderr.decode("utf8", "replace")[-300:])
    amps = [[] for _ in c["templates"]]
    for r in parse_fasta_json(p.stdout.decode("utf8", "replace")):
        m = r["id"].split("_sub")[0]
        if not (m.startswith("t") and m[1:].isdigit() and int(m[1:]) < len(amps)):
            return None, "amplicon with unknown id " + r["id"]
        a = r["ann"]
        amps[int(m[1:])].append(dict(seq=r["seq"], dir=a.get("direction"), fm=a.get("forward_match"), fe=a.get("forward_error"),
                                     rm=a.get("reverse_match"), re=a.get("reverse_error")))
    return amps, None


def cli_cases(rng):
    base = dict(fwd="acgt", rev="ggcc", ef=0, er=0, min=0, max=50, ext=-1, full=False, circular=False, mode="cli")
    cases = [
        dict(base, min=5, templates=["ttacgtaaaggcctt", "ttacgtaaaaaaggcctt", "ggccaaaaacgt"]),            # --min-length plumbing
        dict(base, max=4, templates=["ttacgtaaaggcctt", "ttacgtaaaaaaggcctt"]),                           # --max-length
        dict(base, ext=3, full=True, templates=["tacgtaaaaaggcctttt", "tttacgtaaaaaggcctttt"]),           # --only-complete-flanking
        dict(base, ext=3, templates=["tacgtaaaaaggcctttt", "tttacgtaaaaaggcctttt"]),                      # --delta, clipped
        dict(base, circular=True, templates=["aaaggcctt" + "c" * 60 + "ttacgtaa"]),                       # --circular
        dict(base, fwd="acgtac", rev="ggccgg", ef=1, er=1, templates=["ttaggtacaaaaaccggcctt", "ttaggtaaaaaaaccggcctt"]),   # -e
    ]
    for k in range(8):
        c = gen_case(rng, circular=(k % 4 == 3), small=(k % 2 == 0))
        c["er"] = c["ef"]
        c["templates"] = [t for t in c["templates"] if t]
        c["max"] = c["max"] or 50                      # -L is mandatory on the command line
        if c["templates"]:
            cases.append(c)
    # --fragmented: max=10 -> sequences above 10000 bp are cut in fragments of 1000 bp; the amplicon (two 20-base primers +
    # 10 bases) is planted at offsets around the fragment boundaries (960, 1920, ...) and far from them, on either strand
    fwd, rev = "acgtacgtacgtacgtacgt", "ggccggaaggccggaaggcc"
    w = fwd + "a" * 10 + rc(rev)
    ts = []
    for pos in [100, 930, 945, 951, 955, 959, 960, 970, 1915, 1925, 11940, 11950]:
        t = [rng.choice("ac") for _ in range(12000)]
        piece = w if pos % 2 == 0 else rc(w)
        t[pos:pos + len(piece)] = list(piece)
        ts.append("".join(t))
    cases.append(dict(templates=ts, fwd=fwd, rev=rev, ef=0, er=0, min=1, max=10, ext=-1, full=False, circular=False, fragmented=True, mode="cli"))
    # a short amplicon (8+3+8 bases, max 25) lying entirely inside the overlap of two fragments
    fwd2, rev2 = "acgtacgt", "ggccggaa"
    w2 = fwd2 + "aca" + rc(rev2)
    ts2 = []
    for pos in [500, 2470, 2475, 2490]:
        t = [rng.choice("ac") for _ in range(26000)]
        t[pos:pos + len(w2)] = list(w2)
        ts2.append("".join(t))
    cases.append(dict(templates=ts2, fwd=fwd2, rev=rev2, ef=0, er=0, min=1, max=25, ext=-1, full=False, circular=False, fragmented=True, mode="cli"))
    # --fragmented with flanks (--delta 20): the amplicon AND its flanks must be found whole in some fragment - amplicons
    # whose flank crosses a cut (fragments [0,1000), [1000-overlap, ...)), with and without --only-complete-flanking
    fwd3, rev3 = "acgtacgtggccaatt", "ggccggaattccttaa"
    w3 = fwd3 + "cccccccc" + rc(rev3)
    for full in (False, True):
        ts3 = []
        for pos in [300, 930, 945, 950, 957, 985, 1000, 1900, 1910]:
            t = [rng.choice("at") for _ in range(10600)]
            piece = w3 if pos % 2 == 0 else rc(w3)
            t[pos:pos + len(piece)] = list(piece)
            ts3.append("".join(t))
        cases.append(dict(templates=ts3, fwd=fwd3, rev=rev3, ef=0, er=0, min=1, max=10, ext=20, full=full, circular=False, fragmented=True, mode="cli"))
    return cases


def cli_clause(ctx, broken):
    """obipcr itself (CLIPCR: option plumbing, batches, workers, IFragments) against the same brute-force oracle."""
    import tempfile
    bindir, err = ctx.build_cmds(["obipcr"])
    if bindir is None:
        broken.append(dict(kind="command-build", detail=err))
        return dict(runs=0)
    stats = dict(runs=0, templates=0, amplicons=0, fragmented_templates=0)
    nrep = 0
    with tempfile.TemporaryDirectory(prefix="c11cli") as wd:
        for k, c in enumerate(cli_cases(ctx.rng)):
            amps, err = run_obipcr(ctx, bindir, c, wd, k)
            stats["runs"] += 1
            if amps is None:
                ctx.violation("cli_%d_failed" % k, dict(property="C11", kind="obipcr-run", case=to_vh(c), fragmented=bool(c.get("fragmented")), error=err))
                continue
            for ti, t in enumerate(c["templates"]):
                stats["templates"] += 1
                stats["amplicons"] += len(amps[ti])
                stats["fragmented_templates"] += 1 if c.get("fragmented") else 0
                exp, unc = spec_pcr(t, c)
                got, want = canon(amps[ti]), canon(exp)
                if got == want:
                    continue
                key = None
                if c.get("fragmented") and set(got) == set(want):
                    key = "fragmented-duplicates"
                elif c.get("fragmented") and c["ext"] >= 0 and set(want) <= set(got) and all(
                        any(x[1:] == w_[1:] and x[0] in w_[0] for w_ in want) for x in got if x not in want):
                    # every amplicon is there with its flanks; the extra records are second copies of amplicons, found in the
                    # neighbouring fragment, whose flanks are clipped at the fragment border
                    key = "fragmented-duplicates"
                if key and ctx.kf_match(key):
                    ctx.known(key, ctx.kf_match(key)["what"])
                    continue
                nrep += 1
                if nrep <= 3:
                    ctx.violation("cli_%d_%d" % (k, ti), dict(property="C11", kind="obipcr-vs-oracle", fragmented=bool(c.get("fragmented")),
                                                             case=dict(to_vh(c), templates=[t], mode="cli", fragmented=bool(c.get("fragmented"))),
                                                             implementation=got, expected=want,
                                                             missing=[x for x in want if x not in got], unexpected=[x for x in got if x not in want]))
    return stats



# ------------------------------------------------------------------ obiiter.IFragments (fragment arithmetic of --fragmented)
FRAG_IMPORTS = "From Coq Require Import ZArith List. Import ListNotations. Open Scope Z_scope.\nFrom OBI.C11 Require Import Model."


def frag_cases(rng, n):
    """(minsize, length, overlap) with 0 <= overlap < length (the hypothesis of the theorems; CLIPCR passes 1000*max, 100*max,
    max + both primer lengths) and sequence lengths around every boundary of the loop."""
    cases = [dict(lens=[0, 1, 99, 100, 101, 159, 160, 218, 219, 277, 300, 1000], minsize=100, length=100, overlap=41),   # -L 1, two 20-mers
             dict(lens=[2500, 2501, 4959, 4960, 7000, 26000], minsize=2500, length=2500, overlap=41),
             dict(lens=[10, 11, 12, 13, 14, 15, 16, 17, 18, 19, 20, 21, 22, 23, 24, 25], minsize=5, length=6, overlap=5),  # step 1
             dict(lens=[10, 11, 12, 13, 50], minsize=3, length=7, overlap=0)]                                             # no overlap
    for _ in range(n):
        length = rng.choice([2, 3, 5, 8, 13, 40, 100, 250])
        overlap = rng.randrange(0, length)
        step = length - overlap
        minsize = rng.choice([0, 1, length - 1, length, 2 * length, 10 * length])
        lens = []
        for _ in range(rng.randrange(1, 8)):
            k = rng.randrange(0, 12)
            lens.append(max(0, rng.choice([minsize, minsize + 1, k * step, k * step + 1, k * step + length, k * step + length - 1,
                                           k * step + length + step - 1, k * step + length + step, rng.randrange(0, 14 * length)])))
        cases.append(dict(lens=lens, minsize=minsize, length=length, overlap=overlap, batch=rng.choice([1, 2, 5]), workers=rng.choice([1, 1, 3])))
    return cases


def frag_clause(ctx, broken):
    """IFragments against (a) the direct statement: every interval not longer than the overlap lies inside a fragment, exactly
    one fragment owns it, fragments are well-formed; (b) the Coq model `fragments` (theorems of Fragments.v)."""
    cases = frag_cases(ctx.rng, 60 if ctx.quick else 1500)
    obs = ctx.vh_robust("c11frag", cases, timeout=300, one_timeout=20)
    stats = dict(cases=len(cases), sequences=0, fragments=0, cut_sequences=0, intervals_checked=0)
    terms, where, nrep = [], [], 0
    for ci, (c, o) in enumerate(zip(cases, obs)):
        if o["kind"] != "ok":
            ctx.violation("frag_%d_crash" % ci, dict(property="C11", kind="ifragments-run", case=c, implementation=o))
            continue
        step, ov = c["length"] - c["overlap"], c["overlap"]
        for si, N in enumerate(c["lens"]):
            fr = [tuple(f) for f in o["frags"][si]]
            stats["sequences"] += 1
            stats["fragments"] += len(fr)
            stats["cut_sequences"] += 1 if len(fr) > 1 else 0
            bad = None
            if N > 0 and not fr:
                bad = "no fragment"
            for (s, e) in fr:
                if not (0 <= s and (s < e or N == 0) and e <= N):
                    bad = "ill-formed fragment %s" % ((s, e),)
            if bad is None and N <= 4000:
                for a in range(N):
                    b = min(N, a + max(ov, 1))
                    stats["intervals_checked"] += 1
                    holders = [f for f in fr if f[0] <= a and b <= f[1]]
                    owners = [f for f in fr if f[0] <= a and (a < f[0] + step or f[1] == N)]
                    if not holders:
                        bad = "interval [%d,%d) (<= overlap) lies in no fragment" % (a, b)
                        break
                    if len(owners) != 1 or owners[0] not in holders:
                        bad = "interval starting at %d has owners %s" % (a, owners)
                        break
            if bad:
                nrep += 1
                if nrep <= 3:
                    ctx.violation("frag_%d_%d" % (ci, si), dict(property="C11", kind="ifragments-oracle", what=bad,
                                                                case=dict(c, lens=[N]), implementation=fr))
            terms.append("mkf %d %d %d %d [%s]" % (c["minsize"], c["length"], c["overlap"], N, "; ".join("(%d, %d)" % f for f in fr)))
            where.append((ci, si))
    bad, err = ctx.correspond("frag", FRAG_IMPORTS, terms, fn="frag_mismatches", shard=400)
    if bad is None:
        broken.append(dict(kind="correspondence", detail=err))
    elif bad and not ctx.violations:
        ci, si = where[bad[0]]
        broken.append(dict(kind="correspondence", name="corr:C11/fragments", n_diverging=len(bad),
                           first_diverging_case=dict(cases[ci], lens=[cases[ci]["lens"][si]]), implementation=obs[ci]["frags"][si]))
    stats["model_vs_impl_mismatches"] = len(bad or [])
    # outside the hypothesis overlap < length of the theorems: the loop of IFragments steps backwards (recorded known finding)
    neg = dict(lens=[300], minsize=100, length=10, overlap=11)
    no = ctx.vh_robust("c11frag", [neg], timeout=30)[0]
    if no["kind"] != "ok":
        k = ctx.kf_match("fragments-nonpositive-step")
        if k:
            ctx.known("fragments-nonpositive-step", k["what"])
        else:
            ctx.violation("frag_nonpositive_step", dict(property="C11", kind="ifragments-run", case=neg, implementation=no))
    stats["nonpositive_step_case"] = no["kind"]
    return stats


def run(ctx, broken):
    rng = ctx.rng
    nrand = 600 if ctx.quick else 12000
    cases = hand_cases()
    for k in range(nrand):
        cases.append(gen_case(rng, small=(k % 5 == 0)))
    for k in range(nrand // 10):
        cases.append(gen_tiny_circle(rng))
    # evaluated by chunks (one chunk in the quick tier) so that the thorough tier keeps a bounded memory footprint
    CH = 2000
    stats, rel, nontriv, dist, mism_first, n_mism, samples = {}, {}, set(), {}, None, 0, []
    nchunks = (len(cases) + CH - 1) // CH
    for ci in range(nchunks):
        chunk = cases[ci * CH:(ci + 1) * CH]
        sfx = "" if nchunks == 1 else str(ci)
        obs, fails, mism, st = evaluate(ctx, chunk, broken, "main" + sfx)
        rl = relational(ctx, chunk, obs, "rel" + sfx)
        for k, v in st.items():
            stats[k] = stats.get(k, 0) + v
        for k, v in rl.items():
            rel[k] = rel.get(k, 0) + v
        for c, o in zip(chunk, obs):
            if o["kind"] == "ok":
                for t, a in zip(c["templates"], o["amps"]):
                    if a:
                        nontriv.add((t,) + tuple(c[k] for k in CASE_KEYS[1:-1]))
            k = "%s/%s/%s/%s" % ("circular" if c["circular"] else "linear", "ext" if c["ext"] >= 0 else "noext", c["mode"], o["kind"])
            dist[k] = dist.get(k, 0) + 1
        if ci == 0:
            samples += [dict(case=to_vh(c), implementation=o) for c, o in list(zip(chunk, obs))[:2]]
        if ci == nchunks - 1:
            samples += [dict(case=to_vh(c), implementation=o) for c, o in list(zip(chunk, obs))[-2:]]
        n_mism += len(mism)
        if mism and mism_first is None:
            i, ti = mism[0]
            mism_first = (single(chunk[i], ti), obs[i]["amps"][ti])
        del obs
    ctx.cov["evaluations"] = stats["templates"] + sum(rel.values())
    ctx.cov["distinct_nontrivial"] = len(nontriv)
    ctx.cov["rule"] = ("one evaluation = one template through PCRSim/PCRSlice/PCRSliceWorker judged against the brute-force pair enumeration "
                       "(+ relational clauses: reverse complement, rotations, reversed batch); non-trivial = at least one amplicon reported; "
                       "distinct = distinct (template, primers, budgets, min, max, flank, full, topology)")
    cli = cli_clause(ctx, broken)
    frag = frag_clause(ctx, broken)
    ctx.cov["distribution"] = dict(cases=dist, **stats, relational=rel, obipcr_command=cli, ifragments=frag)
    ctx.samples = samples
    ctx.cov["model_vs_impl_mismatches"] = n_mism
    if n_mism and not ctx.violations:
        more = [gen_case(rng, small=(k % 3 == 0)) for k in range(4000)]
        evaluate(ctx, more, [], "search", correspond=False)
        if not ctx.violations:
            broken.append(dict(kind="correspondence", name="corr:C11/amplicons", first_diverging_case=mism_first[0],
                               implementation=mism_first[1], n_diverging=n_mism))
    elif n_mism:
        ctx.cov["note"] = "model and implementation diverge on %d templates (violations reported by the direct oracle)" % n_mism


def replay(ctx, rp):
    c = rp["case"]
    if "lens" in c:
        o = ctx.vh_robust("c11frag", [c], timeout=60)[0]
        print("replay (IFragments):", json.dumps(c))
        print(" implementation:", json.dumps(o), "| recorded:", rp.get("what"))
        return
    if c.get("mode") == "cli":
        import tempfile
        bindir, err = ctx.build_cmds(["obipcr"])
        with tempfile.TemporaryDirectory(prefix="c11cli") as wd:
            amps, err = run_obipcr(ctx, bindir, c, wd, 0)
        print("replay (obipcr%s):" % (" --fragmented" if c.get("fragmented") else ""), err or "")
        for ti, t in enumerate(c["templates"]):
            exp, unc = spec_pcr(t, c)
            print(" template %d: implementation %s expected %s" % (ti, canon(amps[ti]) if amps else None, canon(exp)))
        return
    c.setdefault("mode", "slice")
    obs, fails, mism, stats = evaluate(ctx, [c], [], "replay")
    print("replay:", json.dumps(to_vh(c)))
    print(" implementation:", json.dumps(obs[0]))
    for ti, t in enumerate(c["templates"]):
        exp, unc = spec_pcr(t, c)
        print(" template %d expected%s:" % (ti, " (outside the statement)" if unc else ""), canon(exp))
    print(" oracle:", "FAILS %s" % fails if fails else "holds", "| model:", "mismatch" if mism else "agrees")
