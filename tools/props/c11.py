"""C11 — in-silico PCR returns exactly the amplicons the primers define, on either strand."""
import json

PROPS = ["C11/Props.v"]
META = dict(
    text="Rocq theorems over an executable transcription of obiapat._Pcr and _Segment (both orientation blocks, exact search window, "
         "insert-length arithmetic, flank clipping, circular-aware Subsequence, the walk around the circle, recycled C buffer) running on "
         "specification hits (pattern positions = IUPAC letter / [..] class / !negation, optional # obligatory mark, <= e mismatches). "
         "Proved at the level of MULTISETS: on linear and on circular templates the list of records returned is a permutation of the "
         "specification list holding exactly one record per pair (site of one primer, site of the complemented other primer) within the "
         "length bounds, whose members are the amplicons of the relational specification (soundness + completeness, never fatal); "
         "reverse-complementing the template gives the same multiset with the direction flipped; rotating a circular template permutes "
         "the records; batch independence. PROVENANCE (round 3): every base of every record is the base (its complement for direction "
         "reverse) of a definite template position, obtained by cutting the list of positions with the same function and bounds; Phred "
         "scores travel with the bases, pairing_mismatches accepted by the check designate the same base in the record as in the template; "
         "exact domain of Subsequence. obipcr --fragmented: the cutting of obiiter.IFragments is modelled and tied to the code; every "
         "amplicon lies inside the unique fragment that owns it, duplicates lie in the zone shared by two fragments, and searching the "
         "fragments finds the same SET of amplicons as searching the template. The models are tied to the real code on every run "
         "(vm_compute on the same templates PCRSim / PCRSlice / PCRSliceWorker ran on, amplicons compared as multisets of (sequence, "
         "direction, match strings, error counts) - with their scores and mismatch positions when the templates carry some; Subsequence "
         "and ReverseComplement called directly, error returns included; IFragments on sequence lengths around every loop boundary); a "
         "brute-force Python oracle checks the statement directly on the implementation's amplicons (scores, inherited annotations and "
         "mismatch positions included), with relational clauses (reverse complement, all rotations of small circles - as multisets -, "
         "reversed batches), the option set (every With-option and accessor), malformed primers (must be refused) and a command-level "
         "clause running obipcr itself through its plumbing (fasta / fastq / gzip / stdin / several files / --no-order / --batch-size / "
         "--max-cpu / --force-one-cpu / json, fasta, fastq, compressed or file output; --fragmented).",
    note="Trusted: Coq kernel + vm_compute; the C matcher (ManberSub/ManberNoErr) is represented by the specification matcher "
         "(its exactness is property C10; re-tested here by every correspondence case, including # / ! / [..] patterns); "
         "harness/generators. Residual hypotheses of the theorems are on the OPTIONS only: extension >= 0 when requested, primers "
         "non-empty, and on circular templates primers not longer than MAX_PAT_LEN = 64 (the length of the circular extension); templates "
         "are arbitrary (empty, shorter than a primer, flanked amplicon longer than the circle); the provenance theorems have no hypothesis. "
         "Fragmented mode: theorems assume a positive step (99 max > sum of the primer lengths; otherwise IFragments does not advance - "
         "observed, not repaired) and no flanks; multiplicities differ (known finding fragmented-duplicates, characterised by "
         "C11_fragments_duplicate_zone / _owner_unique). Indel mode is not reachable from PCR (MakeApatPattern(primer, e, false)). Primers "
         "of 64 symbols or more are refused (checked). Keys of pairing_mismatches are compared by the oracle (case-insensitively: "
         "ReverseComplement writes them in lower case); the model sees their rank only. A record longer than its circle shows a position "
         "several times: any of them is accepted for a mismatch. "
         "Not exercised (coverage report of the anchored files): the log.Fatal branches of _Pcr and the error return of _Segment "
         "(proved unreachable: C11_linear_never_fatal / C11_circular_never_fatal), the panic of IFragments (C11_fragments_wf), the "
         "error returns of complementPattern / new_apatseq (allocation failures only; the latter would free Go memory), "
         "ApatPattern.Print (debug), allowsIndel, FindAllIndex with a negative begin, IsMatching / BestMatch / FilterBestMatch / "
         "AllMatches (not used by PCR: property C10 judges them). Outside the property: template bytes that are not letters (gaps, "
         "digits) are encoded as 'a' by the C matcher (EncodeSequence) and so match where an a would (domain of C10); Subsequence on a "
         "circular sequence with a negative end panics (no caller does it; observation only); ids of the records (fragment-relative "
         "coordinates, first piece of a wrapped segment).")
TRUSTED = ["the C bit-parallel matcher is represented in the model by the specification matcher (positions with <= e mismatches against "
           "IUPAC / [..] / ! positions, none on a # position, minimal count) — its exactness is property C10 and is re-tested by every "
           "correspondence case of this check"]

IUPAC = dict(a="a", c="c", g="g", t="t", u="t", r="ag", y="ct", s="cg", w="at", k="gt", m="ac",
             b="cgt", d="agt", h="act", v="acg", n="acgt", x="acgt")
PCOMP = dict(a="t", c="g", g="c", t="a", u="a", r="y", y="r", s="s", w="w", k="m", m="k", b="v", d="h", h="d", v="b", n="n", x="x")
TCOMP = dict(PCOMP)          # templates may carry IUPAC ambiguity letters too (matched by negated positions only)
MAXPAT = 64


def rc(s):
    return "".join(TCOMP[x] for x in reversed(s))


def parse_primer(p):
    """Pattern syntax of obiapat (MakeApatPattern): one position = optional '!' (negation: any letter of the whole alphabet
    but those listed, so also n), an IUPAC letter or a [..] class of letters, optional '#' (no mismatch allowed there).
    Returns a list of positions dict(set=accepted letters among acgt, other=accepts letters outside acgt, oblig=bool)."""
    p = p.lower()
    toks, i = [], 0
    while i < len(p):
        neg = False
        if p[i] == "!":
            neg = True
            i += 1
        if p[i] == "[":
            j = p.index("]", i)
            letters = p[i + 1:j]
            i = j + 1
        else:
            letters = p[i]
            i += 1
        acc = set()
        for x in letters:
            acc |= set(IUPAC[x])
        if neg:
            acc = set(BASES_SET) - acc
        oblig = i < len(p) and p[i] == "#"
        if oblig:
            i += 1
        toks.append(dict(set="".join(sorted(acc)), other=neg, oblig=oblig))
    return toks


BASES_SET = "acgt"


def plen(p):
    return len(parse_primer(p))


def rc_tokens(toks):
    return [dict(set="".join(sorted(TCOMP[x] for x in k["set"])), other=k["other"], oblig=k["oblig"]) for k in reversed(toks)]


def tok_match(k, x):
    return (x in k["set"]) if x in BASES_SET else k["other"]


def hits(toks, e, text, n_starts):
    """Specification matcher: (i, mismatches) for every start i < n_starts such that the primer (parsed positions) fits in
    text at i (text is already extended for circular templates) with <= e mismatches, none of them on a '#' position."""
    m = len(toks)
    res = []
    for i in range(0, min(n_starts, len(text) - m + 1)):
        k = 0
        for q in range(m):
            if not tok_match(toks[q], text[i + q]):
                k += 1
                if k > e or toks[q]["oblig"]:
                    k = e + 1
                    break
        if k <= e:
            res.append((i, k))
    return res


def circ(t, a, n):
    """n letters of the circular template t starting at position a (any integer)."""
    L = len(t)
    return "".join(t[(a + q) % L] for q in range(n))


def spec_forward(t, c, direction):
    """Amplicons of the forward orientation of template t: every (forward hit i, complemented-reverse hit j downstream).
    Returns (list of amplicon dicts, unconstrained flag)."""
    L = len(t)
    fwd, rev = parse_primer(c["fwd"]), parse_primer(c["rev"])
    fl, rl = len(fwd), len(rev)
    mn, mx, ext, full = c["min"], c["max"], c["ext"], c["full"]
    amps, unconstrained = [], False
    if L == 0:
        return amps, False
    if c["circular"]:
        text = circ(t, 0, L + MAXPAT)
        F = hits(fwd, c["ef"], text, L)
        R = hits(rc_tokens(rev), c["er"], text, L)
    else:
        F = hits(fwd, c["ef"], t, L)
        R = hits(rc_tokens(rev), c["er"], t, L)
    for (i, ei) in F:
        for (j, ej) in R:
            if c["circular"]:
                ins = (j - i - fl) % L
            else:
                ins = j - (i + fl)
            if ins <= 0 or (mn != 0 and ins < mn) or (mx != 0 and ins > mx):
                continue
            if c["circular"]:
                if ext >= 0:
                    tot = fl + ins + rl + 2 * ext
                    seq = circ(t, i - ext, tot)
                    a = i - ext
                else:
                    seq = circ(t, i + fl, ins)
                    a = i + fl
                fm, rm = circ(t, i, fl), rc(circ(t, j, rl))
            else:
                if ext >= 0:
                    a, b = i - ext, j + rl + ext
                    if full:
                        if a < 0 or b > L:
                            continue
                    else:
                        a, b = max(a, 0), min(b, L)
                    seq = t[a:b]
                else:
                    seq = t[i + fl:j]
                    a = i + fl
                fm, rm = t[i:i + fl], rc(t[j:j + rl])
            # a0: position (on the strand searched) of the first base of the record, possibly negative on a circle
            amps.append(dict(seq=seq, dir=direction, fm=fm, fe=ei, rm=rm, re=ej, a0=a))
    return amps, unconstrained


def spec_pcr(t, c):
    """The statement: forward-orientation amplicons of t, plus those of rc(t) reported with direction 'reverse'."""
    a1, u1 = spec_forward(t, c, "forward")
    a2, u2 = spec_forward(rc(t), c, "reverse")
    return a1 + a2, (u1 or u2)


def akey(a):
    return (a["seq"], a["dir"], a["fm"], a["fe"], a["rm"], a["re"])


def canon(amps):
    return sorted(akey(a) for a in amps)


def flip(k):
    return (k[0], "reverse" if k[1] == "forward" else "forward") + tuple(k[2:])


# ---- what a record inherits from its template: Phred scores and annotations (pairing_mismatches in ITS coordinates)
def tpl_index(c, t, e, k):
    """0-based position, on the template as given, of base k of the specified record e (spec_forward coordinates are those
    of the strand searched: the template for direction forward, its reverse complement for direction reverse)."""
    L = len(t)
    x = e["a0"] + k
    if c["circular"]:
        x %= L
    return x if e["dir"] == "forward" else L - 1 - x


def exp_qual(c, ti, e):
    qs = c.get("quals") or []
    q = qs[ti] if ti < len(qs) else None
    if not q:
        return None
    t = c["templates"][ti]
    return [q[tpl_index(c, t, e, k)] for k in range(len(e["seq"]))]


def pm_rev_key(k):
    """key of a pairing mismatch "(A:30)->(C:20)" read on the other strand (what ReverseComplement writes)"""
    b = list(k)
    b[1], b[9] = TCOMP[b[9].lower()], TCOMP[b[1].lower()]
    b[3], b[4], b[11], b[12] = b[11], b[12], b[3], b[4]
    return "".join(b)


def pm_ok(c, ti, e, got_pm):
    """pairing_mismatches of a record: every mismatch of the template that lies inside the record is kept, at a position
    (1-based, record coordinates) where the record shows that very base of the template (a record longer than its
    circle shows it several times: any of them), with its key read on the strand of the record; the others are dropped."""
    ann = (c.get("annots") or [])
    ann = ann[ti] if ti < len(ann) else {}
    src = ann.get("pairing_mismatches") or {}
    t = c["templates"][ti]
    got = {k.lower(): v for k, v in (got_pm or {}).items()}
    want = {}
    for key, p in src.items():
        occ = [k + 1 for k in range(len(e["seq"])) if tpl_index(c, t, e, k) == p - 1]
        if occ:
            want[(key if e["dir"] == "forward" else pm_rev_key(key)).lower()] = occ
    if set(got) != set(want):
        return False
    return all(got[k] in want[k] for k in want)


def exp_extra(c, ti):
    ann = (c.get("annots") or [])
    ann = ann[ti] if ti < len(ann) else {}
    return {k: str(v) for k, v in ann.items() if k not in OWN_KEYS}


OWN_KEYS = ("tix", "direction", "forward_match", "forward_error", "reverse_match", "reverse_error", "forward_primer", "reverse_primer",
            "pairing_mismatches")


def judge_inherited(c, ti, exp, got):
    """exp: specified records (with coordinates), got: observed records of the same template; the multisets of keys are
    already known to be equal. Returns None or (class, got, expected)."""
    if not (c.get("quals") or c.get("annots")):
        return None
    eq = sorted((akey(e), tuple(exp_qual(c, ti, e) or ())) for e in exp)
    gq = sorted((akey(g), tuple(g.get("qual") or ())) for g in got)
    if eq != gq:
        return ("qualities", gq, eq)
    xt = exp_extra(c, ti)
    for g in got:
        if (g.get("extra") or {}) != xt:
            return ("inherited-annotations", [akey(g), g.get("extra")], xt)
        cands = [e for e in exp if akey(e) == akey(g) and tuple(exp_qual(c, ti, e) or ()) == tuple(g.get("qual") or ())]
        if not any(pm_ok(c, ti, e, g.get("pm")) for e in cands):
            ann = c["annots"][ti] if ti < len(c.get("annots") or []) else {}
            return ("pairing-mismatches", [akey(g), g.get("pm")],
                    dict(template_mismatches=ann.get("pairing_mismatches"), record_starts_at=[e["a0"] for e in cands]))
    return None


# ------------------------------------------------------------------ generators
BASES = "acgt"
AMBIG = "rykmswbdhvn"


def rand_seq(rng, n, alphabet=BASES):
    return "".join(rng.choice(alphabet) for _ in range(n))


def rand_primer(rng, m, syntax=False):
    """m pattern positions; syntax=True also uses [..] classes, ! negations and # marks (never on the first position for
    '#', which MakeApatPattern rejects)."""
    p = []
    for q in range(m):
        r = rng.random()
        if syntax and r < 0.15:
            x = "[" + "".join(rng.sample(BASES, rng.choice([1, 2, 2, 3]))) + "]"
        elif syntax and r < 0.3:
            x = "!" + rng.choice(BASES + "ry")
        elif syntax and r < 0.33:
            x = "![" + "".join(rng.sample(BASES, 2)) + "]"
        else:
            x = rng.choice(AMBIG) if rng.random() < 0.2 else rng.choice(BASES)
        if syntax and rng.random() < 0.25:
            x += "#"
        p.append(x)
    return "".join(p)


def instance(rng, toks):
    """A concrete acgt word matched by the parsed primer (positions accepting no base get an 'a')."""
    return "".join(rng.choice(k["set"]) if k["set"] else "a" for k in toks)


def mutate(rng, toks, w, k):
    """w with k positions replaced by a letter NOT matched by the primer position (when one exists)."""
    w = list(w)
    pos = [q for q in range(len(toks)) if len(toks[q]["set"]) < 4]
    rng.shuffle(pos)
    for q in pos[:k]:
        w[q] = rng.choice([x for x in BASES if x not in toks[q]["set"]])
    return "".join(w)


def gen_case(rng, circular=None, small=False, inherit=None):
    fl = rng.choice([3, 4, 5, 6, 8, 12, 18])
    rl = fl if rng.random() < 0.4 else rng.choice([3, 4, 5, 6, 8, 12, 20])
    if small:
        fl, rl = rng.choice([3, 4, 5]), rng.choice([3, 4, 5, 6])
    syntax = rng.random() < 0.3
    fwd, rev = rand_primer(rng, fl, syntax), rand_primer(rng, rl, syntax)
    ef = rng.choice([0, 0, 1, 1, 2]) if fl > 4 else rng.choice([0, 0, 1])
    er = rng.choice([0, 0, 1, 1, 2]) if rl > 4 else rng.choice([0, 0, 1])
    if rng.random() < 0.3:
        er = ef
    circular = (rng.random() < 0.4) if circular is None else circular
    fwd_s, rev_s = fwd, rev
    fwd, rev = parse_primer(fwd_s), parse_primer(rev_s)
    crev = rc_tokens(rev)
    nt = rng.choice([1, 1, 2, 3, 4])
    templates = []
    for _ in range(nt):
        L = rng.choice([0, 1, 5, 12, 20, 30, 40, 63, 64, 65, 80, 100, 130]) if not small else rng.randrange(8, 28)
        if rng.random() < 0.6:
            L = max(L, 12)
        r = rng.random()
        t = list(rand_seq(rng, L, BASES if r < 0.86 else BASES + "n" if r < 0.93 else BASES * 3 + "rykmswbdhvn"))
        # plant priming sites: forward-strand sites (fwd ... crev) and reverse-strand sites (rev ... cfwd)
        nsites = rng.choice([0, 1, 1, 2, 2, 3, 4])
        for _ in range(nsites):
            which = rng.choice(["fwd", "crev", "rev", "cfwd"])
            p = dict(fwd=fwd, crev=crev, rev=rev, cfwd=rc_tokens(fwd))[which]
            e = ef if which in ("fwd", "cfwd") else er
            k = rng.choice([0, 0, 0, 1, e, e + 1])
            w = mutate(rng, p, instance(rng, p), k)
            if L < len(w):
                continue
            r = rng.random()
            if r < 0.2:
                at = 0
            elif r < 0.4:
                at = L - len(w)
            elif r < 0.5 and circular:
                at = L - rng.randrange(1, len(w))          # spanning the origin of a circular template
            else:
                at = rng.randrange(0, L - len(w) + 1)
            for q, x in enumerate(w):
                if at + q < L:
                    t[at + q] = x
                elif circular:
                    t[(at + q) % L] = x
        # plant whole priming pairs (site ... partner site) on either strand, gap 0 (touching) .. 30, possibly wrapping
        for _ in range(rng.choice([0, 1, 1, 2])):
            strand = rng.random() < 0.5
            p1, p2 = (fwd, crev) if strand else (rev, rc_tokens(fwd))
            e1, e2 = (ef, er) if strand else (er, ef)
            w1 = mutate(rng, p1, instance(rng, p1), rng.choice([0, 0, 1, e1, e1 + 1]))
            w2 = mutate(rng, p2, instance(rng, p2), rng.choice([0, 0, 1, e2, e2 + 1]))
            gap = rng.choice([0, 1, 2, 3, 5, 8, 13, 21, 30]) - (rng.choice([1, 2]) if rng.random() < 0.08 else 0)
            tot = len(w1) + max(gap, 0) + len(w2)
            if L < tot + 1:
                continue
            at = rng.choice([0, L - tot, rng.randrange(0, L - tot + 1)]) if not circular or rng.random() < 0.5 else rng.randrange(0, L)
            for q, x in enumerate(w1):
                if at + q < L or circular:
                    t[(at + q) % L] = x
            for q, x in enumerate(w2):
                k = at + len(w1) + gap + q
                if 0 <= k < L or circular:
                    t[k % L] = x
        templates.append("".join(t))
    r = rng.random()
    if r < 0.35:
        mn, mx = 0, 0
    elif r < 0.6:
        mn, mx = rng.choice([0, 1, 3, 8]), rng.choice([5, 10, 20, 50])
    elif r < 0.8:
        mn, mx = rng.choice([1, 2, 5, 10, 30]), 0
    else:
        mn, mx = 0, rng.choice([1, 2, 5, 10, 30, 100])
    r = rng.random()
    ext = -1 if r < 0.5 else rng.choice([0, 1, 2, 3, 5, 10, 40])
    full = rng.random() < 0.4
    mode = rng.choice(["sim", "slice", "slice", "worker"])
    c = dict(templates=templates, fwd=fwd_s, rev=rev_s, ef=ef, er=er, min=mn, max=mx, ext=ext, full=full,
             circular=circular, mode=mode)
    if inherit is None:
        inherit = rng.random() < 0.25
    if inherit:
        decorate(rng, c)
    return c


PM_KEYS = ["(%s:%02d)->(%s:%02d)" % (x, qa, y, qb) for x in "ACGT" for y in "ACGT" if x != y for (qa, qb) in ((30, 20), (7, 40), (12, 12))]


def decorate(rng, c):
    """what the templates carry besides their bases: Phred scores (some templates of the batch without), annotations -
    plain ones, the ones obipcr itself writes (a second PCR on amplicons), and pairing_mismatches as obipairing writes them
    (1-based positions; a few outside the template)"""
    ts = c["templates"]
    if rng.random() < 0.8:
        c["quals"] = [[rng.randrange(0, 61) for _ in t] if rng.random() < 0.85 else None for t in ts]
    if rng.random() < 0.8:
        c["annots"] = []
        for t in ts:
            a = {}
            if rng.random() < 0.7:
                a["count"] = rng.randrange(1, 50)
            if rng.random() < 0.4:
                a["sample"] = rng.choice(["s1", "x y", "A"])
            if rng.random() < 0.3:
                a.update(direction=rng.choice(["forward", "reverse"]), forward_match="tttt", forward_error=9, reverse_primer="zz")
            if t and rng.random() < 0.8:
                pm = {}
                for key in rng.sample(PM_KEYS, rng.choice([1, 1, 2, 3, 5])):
                    r = rng.random()
                    pm[key] = 1 if r < 0.1 else len(t) if r < 0.2 else rng.choice([0, len(t) + 1, len(t) + 70]) if r < 0.25 else rng.randrange(1, len(t) + 1)
                a["pairing_mismatches"] = pm
            c["annots"].append(a)
    return c


def gen_tiny_circle(rng):
    """Circular templates of 1..9 bases built from a repeated unit, primers cut from several turns of the same circle (so
    that a primer site goes around the circle more than once), flanks up to several turns."""
    u = rand_seq(rng, rng.randrange(1, 5))
    L = rng.randrange(1, 10)
    t = (u * 10)[:L]
    turns = t * 12
    a = rng.randrange(0, L)
    fl, rl = rng.choice([2, 3, 5, 8, 11]), rng.choice([2, 3, 4, 7, 12])
    fwd = turns[a:a + fl]
    b = rng.randrange(0, L)
    rev = rc(turns[b:b + rl])
    if rng.random() < 0.3:
        q = rng.randrange(len(fwd))
        fwd = fwd[:q] + rng.choice(BASES + "nry") + fwd[q + 1:]
    ef = rng.choice([0, 0, 1]) if fl > 2 else 0
    er = rng.choice([0, 0, 1]) if rl > 2 else 0
    templates = [t[r:] + t[:r] for r in sorted({0, rng.randrange(0, L), L - 1})]
    mn, mx = rng.choice([(0, 0), (0, 0), (1, 3), (2, 0), (0, 2 * L)])
    ext = rng.choice([-1, -1, 0, 1, L, 2 * L + 1, 13])
    c = dict(templates=templates, fwd=fwd, rev=rev, ef=ef, er=er, min=mn, max=mx, ext=ext, full=rng.random() < 0.3,
             circular=True, mode=rng.choice(["sim", "slice", "worker"]))
    if rng.random() < 0.3:
        decorate(rng, c)
    return c


def hand_cases():
    """Boundary cases written by hand + minimised defect witnesses (always first)."""
    base = dict(fwd="acgt", rev="ggcc", ef=0, er=0, min=0, max=0, ext=-1, full=False, circular=False, mode="slice")
    C = []

    def add(tag, **kw):
        C.append(dict(base, **kw, tag=tag))
    # crev of ggcc = ggcc
    add("plain", templates=["ttacgtaaaaaggcctt"])
    add("site-at-both-ends", templates=["acgtaaaaaggcc"])
    add("touching-primers", templates=["ttacgtggcctt"])
    add("overlapping-primers", fwd="acgg", rev="aacc", templates=["ttacggttcc", "ttacggtttt"])
    add("one-base-insert", templates=["acgtaggcc"])
    add("both-strands", templates=["acgtaaaggcc" + "tt" + "ggccaaaacgt"])
    add("reverse-only", templates=["ggcctttacgt"])
    add("two-forward-two-reverse", templates=["acgtacgtaaggccaggcc"])
    add("min-max-exact", min=5, max=5, templates=["acgtaaaaaggcc", "acgtaaaaggcc", "acgtaaaaaaggcc"])
    add("max-only", max=3, templates=["acgtaaaggccaaaaaaaaaggcc"])
    add("ext-clipped", ext=3, templates=["tacgtaaaaaggcctttt"])
    add("ext-full-rejected", ext=3, full=True, templates=["tacgtaaaaaggcctttt", "tttacgtaaaaaggcctttt"])
    add("ext-zero", ext=0, templates=["ttacgtaaaaaggcctt"])
    add("uppercase-primers", fwd="ACGT", rev="GGCC", templates=["ttacgtaaaaaggcctt", "ggcctttacgt"])
    add("uppercase-iupac-primers", fwd="ACRY", rev="NNSW", ef=1, templates=["ttacgtaaaaaaaccgatt"])
    add("iupac-primers", fwd="acry", rev="nnsw", templates=["ttacgtaaaaaaaccgatt", "acactttttggcc"])
    add("errors-e-and-e+1", fwd="acgtac", rev="ggccgg", ef=1, er=1,
        templates=["ttacgtacaaaaaccggcctt", "ttaggtacaaaaaccggcctt", "ttaggtaaaaaaaccggcctt", "ttacgtacaaaaaccgggatt", "ttacgtacaaaaaccaagctt"])
    add("empty-and-short", templates=["", "a", "acgt", "acgtggc"])
    # pattern syntax: [..] classes, ! negation (matches any other letter, n included), # obligatory positions
    add("syntax-class", fwd="ac[gt]t", rev="gg[ac]c", templates=["ttacgtaaaaaggcctt", "ttacttaaaaagtcctt", "ttacataaaaaggcctt", "ggcctttacgt"])
    add("syntax-negation", fwd="a!ggt", rev="gg!tc", templates=["ttacgtaaaaaggcctt", "ttaggtaaaaaggcctt", "ttangtaaaaagncctt", "ttacgtaaaaagacctt"])
    add("syntax-negated-class", fwd="a![ct]gt", rev="ggcc", templates=["ttaagtaaaaaggcctt", "ttacgtaaaaaggcctt", "ttangtaaaaaggcctt"])
    add("syntax-oblig-mismatch-rejected", fwd="ac#gtac", rev="gg#ccgg", ef=1, er=1,
        templates=["ttacgtacaaaaaccggcctt", "ttaggtacaaaaaccggcctt", "ttacctacaaaaaccggcctt", "ttacgtacaaaaaccgggctt", "ttacgtacaaaaaccgcactt",
                   "ttggccggtttttgtacgttt", "ttggccggtttttgtacctaa"])
    add("syntax-oblig-circular", circular=True, fwd="acg#tac", rev="ggc#", ef=1, er=1, templates=["gtacgt" + "t" * 20 + "ggc" + "aac", "gtaagt" + "t" * 20 + "ggc" + "aac", "gtacct" + "t" * 20 + "ggc" + "aac"])
    add("syntax-all", fwd="a#[ct]!ag#t", rev="!t#g[ca]c#", ef=2, er=2, templates=["ttacgtaaaaaggcctt", "ttatcgtaaaagtcgtt", "aaggcctttttacgtaa", "aagcccttttnacgtaa"])
    add("batch-recycled-long-then-short", templates=["ttacgtaaaaaggcctt" * 6, "acgtaggcc", "ggcctacgt", ""], mode="slice")
    add("batch-recycled-short-then-long", templates=["", "acgtaggcc", "ttacgtaaaaaggcctt" * 6], mode="worker")
    add("circular-plain", circular=True, templates=["ttacgtaaaaaggcctt" + "a" * 60])
    add("circular-origin-in-insert", circular=True, templates=["aaaggcctt" + "c" * 60 + "ttacgtaa"])
    add("circular-origin-in-forward-primer", circular=True, templates=["gtaaaaaggcctt" + "c" * 60 + "ttac"])
    add("circular-origin-in-reverse-primer", circular=True, templates=["cctt" + "c" * 60 + "ttacgtaaaaagg"])
    # witnesses of the circular defects repaired by the fix: commits (see known_findings.d/C11.json)
    add("fixed:circ-unequal-primers-amplicon-dropped", circular=True, fwd="acgtac", rev="ggc", templates=["gtacgt" + "t" * 66 + "ggc" + "aa"])
    add("fixed:circ-unequal-primers-escapes-max", circular=True, fwd="acgtac", rev="ggc", max=3, templates=["gtacgt" + "t" * 60 + "ggc" + "aaaaa"])
    add("fixed:circ-rotation-dependent", circular=True, fwd="acgt", rev="gtcc", templates=["ttggacgt" + "a" * 70, "gacgt" + "a" * 70 + "ttg"])
    add("fixed:circ-rotation-dependent-short", circular=True, fwd="acgt", rev="gtcc", templates=["ttggacgtaaaaaaa", "gacgtaaaaaaattg"])
    add("fixed:circ-flank-before-origin", circular=True, ext=3, templates=["tacgtaaaaaggcc" + "t" * 70])
    add("circ-flank-after-origin", circular=True, ext=3, templates=["t" * 70 + "tacgtaaaaaggcc"])
    add("fixed:circular-template-shorter-than-primer", circular=True, fwd="acgtacgta", rev="gta", templates=["acgt", "cgta", "gtac", "tacg"])
    add("fixed:circular-template-shorter-than-primer-flanks", circular=True, fwd="acgtacgta", rev="gta", ext=3, templates=["acgt", "a", "ac"])
    add("fixed:circular-flanked-amplicon-longer-than-circle", circular=True, ext=10,
        templates=["acgt" + "a" * 15 + "ggcc" + "t" * 7, "a" * 15 + "ggcc" + "t" * 7 + "acgt"])
    add("circular-flank-several-turns", circular=True, ext=40, templates=["acgtaggcct", "ggcctacgta"])
    add("circular-one-base-circle", circular=True, fwd="aaa", rev="ttt", ef=0, er=0, templates=["a", "t", "c"])
    add("fixed:reverse-window-longer-forward-primer", fwd="acgtacgtacgtacgtacgt", rev="ggc", max=6,
        templates=[rc("tt" + "acgtacgtacgtacgtacgt" + "a" * k + "gcc" + "tt") for k in (3, 4, 5, 6, 7)] + ["tt" + "acgtacgtacgtacgtacgt" + "a" * 6 + "gcc" + "tt"])
    add("circ-short-template", circular=True, templates=["gtaaaaaggccttttac", "cgtaaaaaggccttttta", "ccttttacgtaaaaagg"])
    # ---- round 3: what a record inherits from its template
    q17 = list(range(1, 18))
    add("qualities-both-strands", templates=["ttacgtaaaaaggcctt", "aaggcctttttacgtaa", "ttacgtaaaaaggcctt"], quals=[q17, q17, None])
    add("qualities-flanks-clipped", ext=3, templates=["tacgtaaaaaggcctttt", rc("tacgtaaaaaggcctttt")], quals=[list(range(18)), list(range(18))])
    add("qualities-circular-wrap", circular=True, ext=3, templates=["aaaggcctt" + "c" * 6 + "ttacgtaa", "gtaaaaaggcc" + "t" * 5 + "ac"],
        quals=[list(range(23)), list(range(18))])
    add("qualities-circular-several-turns", circular=True, ext=12, templates=["acgtaggcct", "ggcctacgta"], quals=[list(range(10, 20)), list(range(10))])
    pm17 = {"(A:30)->(C:20)": 8, "(G:11)->(T:22)": 2, "(T:01)->(A:02)": 11, "(C:40)->(G:40)": 7, "(A:05)->(T:06)": 17}
    add("fixed:pm-inherited-forward", templates=["ttacgtaaaaaggcctt"], annots=[dict(count=3, pairing_mismatches=pm17)])
    add("fixed:pm-inherited-reverse", templates=["aaggcctttttacgtaa"], annots=[dict(pairing_mismatches=pm17)], quals=[q17])
    add("fixed:pm-inherited-flanks", ext=2, templates=["ttacgtaaaaaggcctt", "aaggcctttttacgtaa"], annots=[dict(pairing_mismatches=pm17)] * 2)
    add("fixed:pm-inherited-circular", circular=True, ext=3, templates=["aaaggcctt" + "c" * 6 + "ttacgtaa"],
        annots=[dict(pairing_mismatches={"(A:30)->(C:20)": 1, "(G:11)->(T:22)": 23, "(T:01)->(A:02)": 12, "(C:40)->(G:40)": 18, "(A:05)->(T:06)": 5})])
    add("pm-circular-several-turns", circular=True, ext=12, templates=["acgtaggcct"], annots=[dict(pairing_mismatches={"(A:30)->(C:20)": 1, "(G:11)->(T:22)": 10})])
    add("pm-out-of-range-positions", templates=["ttacgtaaaaaggcctt"], annots=[dict(pairing_mismatches={"(A:30)->(C:20)": 0, "(G:11)->(T:22)": 18, "(T:01)->(A:02)": 9})])
    add("second-pcr-on-amplicons", templates=["ttacgtaaaaaggcctt", "aaggcctttttacgtaa"],
        annots=[dict(direction="reverse", forward_match="tttt", forward_error=5, reverse_match="cccc", reverse_error=4, forward_primer="nn", reverse_primer="nn", count=2)] * 2)
    add("iupac-template-letters", fwd="ac!gt", rev="ggcc", templates=["ttacrtaaaykaggcctt", "ttacntaaaaaggcctt", "aaggccttmttayytaa", "ttacgtarykmswbdhvnaggcctt"])
    # lead (reverse-orientation block): the two sites of a reverse-strand amplicon carry different numbers of mismatches
    f6, r6 = "acgtac", "ggccgg"
    add("reverse-strand-unequal-errors", fwd=f6, rev=r6, ef=1, er=2,
        templates=[rc("tt" + "acgaac" + "aaaaa" + rc(r6) + "tt"), rc("tt" + f6 + "aaaaa" + rc("gtccga") + "tt"), rc("tt" + "aagtac" + "aaaaa" + rc("ggacgg") + "tt"),
                   "tt" + "acgaac" + "aaaaa" + rc(r6) + "tt", "tt" + f6 + "aaaaa" + rc("gtccga") + "tt"])
    # lead (recycled C buffer): a SHORT template after a LONG one whose stale tail would complete the second site of the short
    # one (the scan must stop at seqlen (+ the circular extension), not at the size of the buffer); both orders, both strands
    long1 = "tt" + "acgt" + "aaaaa" + "ggcc" + "tt" + "c" * 80
    for cut in (12, 13, 14):
        for mode in ("slice", "worker"):
            add("batch-stale-tail-%d-%s" % (cut, mode), mode=mode, templates=[long1, long1[:cut], rc(long1), rc(long1)[:len(long1) - 6], long1[:cut], long1])
            add("batch-stale-tail-circular-%d-%s" % (cut, mode), mode=mode, circular=True, templates=[long1 + "g" * 70, long1[:cut], long1[:cut + 70]])
    add("batch-stale-tail-errors", fwd=f6, rev=r6, ef=1, er=1, ext=2, mode="slice",
        templates=["tt" + f6 + "aaaaa" + rc(r6) + "tt" + "a" * 30, "tt" + f6 + "aaaaa" + rc(r6)[:4], "tt" + f6 + "aaaaa" + rc(r6)[:5], "tt" + f6 + "aaaaa" + rc(r6)])
    add("batch-of-twelve", mode="worker", templates=["ttacgtaaaaaggcctt" * k for k in (6, 1, 5, 0, 4, 1, 3, 2, 2, 3, 1, 7)])
    # primers up to the 63 symbols the matcher holds
    p63 = ("acgtgcatgactcagt" * 4)[:63]
    add("primer-63-symbols", fwd=p63, rev="ggcc", ef=2, templates=["tt" + p63 + "aaaaa" + "ggcc" + "tt", rc("tt" + p63[:20] + "t" + p63[21:] + "aaaaa" + "ggcc" + "tt"), "tt" + p63[:62]])
    add("primer-63-symbols-circular", circular=True, fwd=p63, rev="ggcc", templates=[p63[30:] + "aaaaa" + "ggcc" + "tt" + p63[:30], p63[:40]])
    add("error-budget-3", fwd="acgtacgtac", rev="ggccggccgg", ef=3, er=3, templates=["tt" + "aagtaagtaa" + "ttttt" + "ccggacggcc" + "tt", "tt" + "aagtaagtaa" + "ttttt" + "caggacgacc" + "tt"])
    return C


# ------------------------------------------------------------------ running and judging
CASE_KEYS = ("templates", "fwd", "rev", "ef", "er", "min", "max", "ext", "full", "circular", "mode")


def to_vh_plain(c):
    return {k: c[k] for k in CASE_KEYS}


def to_vh(c):
    d = {k: c[k] for k in CASE_KEYS}
    for k in ("quals", "annots"):
        if c.get(k):
            d[k] = c[k]
    return d


def run_cases(ctx, cases):
    return ctx.vh_robust("c11", [to_vh(c) for c in cases], timeout=600, one_timeout=20)


def judge(c, o):
    """Direct oracle on one case: list of (template index, class, got, expected) for every template whose amplicon
    multiset is not the specified one; plus the number of templates outside the statement."""
    bad, unconstrained = [], 0
    if o["kind"] != "ok":
        return [(None, "fatal" if o["kind"] == "fatal" else "crash", o, None)], 0
    for ti, t in enumerate(c["templates"]):
        exp, unc = spec_pcr(t, c)
        got = canon(o["amps"][ti])
        if unc:
            unconstrained += 1
            if got != canon(exp):
                bad.append((ti, "circular-overlong", got, canon(exp)))
            continue
        if got != canon(exp):
            bad.append((ti, "circular" if c["circular"] else "linear", got, canon(exp)))
        else:
            for a in o["amps"][ti]:
                if a["fp"] != c["fwd"] or a["rp"] != c["rev"]:
                    bad.append((ti, "primer-annotation", [akey(a), a["fp"], a["rp"]], [c["fwd"], c["rev"]]))
                    break
            inh = judge_inherited(c, ti, exp, o["amps"][ti])
            if inh:
                bad.append((ti,) + inh)
    return bad, unconstrained


def single(c, ti):
    d = dict({k: c[k] for k in CASE_KEYS}, templates=[c["templates"][ti]], mode="sim")
    for k in ("quals", "annots"):
        if c.get(k) and ti < len(c[k]):
            d[k] = [c[k][ti]]
    return d


def report(ctx, name, klass, case, got, expected, extra=None):
    d = dict(property="C11", kind="direct-oracle", klass=klass, case=to_vh(case), implementation=got, expected=expected)
    if extra:
        d.update(extra)
    ctx.violation(name, d)


def amp_term(a):
    return '(%s, %s, %s, %d, %s, %d)' % (seq_term(a[0]), "true" if a[1] == "forward" else "false", seq_term(a[2]), a[3], seq_term(a[4]), a[5])


NUC = dict(a=0, c=1, g=2, t=3)
PMASK = {k: sum(1 << NUC[x] for x in v) for k, v in IUPAC.items()}


def seq_term(s):
    return "[" + ";".join(str(NUC.get(x, 4)) for x in s) + "]"


def primer_term(p):
    """one N per pattern position: bits 0..3 = a c g t accepted, bit 4 = '#', bit 5 = letters outside acgt accepted ('!')"""
    return "[" + ";".join(str(sum(1 << NUC[x] for x in k["set"]) + (16 if k["oblig"] else 0) + (32 if k["other"] else 0))
                          for k in parse_primer(p)) + "]"


def case_term(c, ti, amps):
    """One Coq correspondence case = one template of a batch with the amplicons observed for it."""
    return "mkc %s %s %d %d %d %d (%s) %s %s %s [%s]" % (
        primer_term(c["fwd"]), primer_term(c["rev"]), c["ef"], c["er"], c["min"], c["max"],
        "None" if c["ext"] < 0 else "Some %d" % c["ext"], "true" if c["full"] else "false",
        "true" if c["circular"] else "false", seq_term(c["templates"][ti]),
        "; ".join(amp_term(a) for a in canon(amps)))


IMPORTS = "From Coq Require Import NArith List. Import ListNotations. Open Scope N_scope.\nFrom OBI.C11 Require Import Model."
QIMPORTS = "From Coq Require Import ZArith NArith List. Import ListNotations.\nFrom OBI.C11 Require Import Model ModelQ.\nOpen Scope N_scope."


def qcase_term(c, ti, amps):
    """One Coq case of the provenance model: one template with its scores and pairing_mismatches, and the records observed
    for it with theirs (keys of mismatches replaced by their rank among the template's keys; 999 = a key the template has not)."""
    qs, an = c.get("quals") or [], c.get("annots") or []
    q = (qs[ti] if ti < len(qs) else None) or []
    src = sorted(((an[ti] if ti < len(an) else {}).get("pairing_mismatches") or {}).items())
    ids_f = {k.lower(): i for i, (k, _) in enumerate(src)}
    ids_r = {pm_rev_key(k).lower(): i for i, (k, _) in enumerate(src)}
    recs = []
    for a in sorted(amps, key=akey):
        ids = ids_f if a["dir"] == "forward" else ids_r
        pm = sorted((ids.get(k.lower(), 999), v) for k, v in (a.get("pm") or {}).items())
        recs.append("(%s, [%s], [%s])" % (amp_term(akey(a)), ";".join(str(x) for x in (a.get("qual") or [])),
                                         ";".join("(%d, (%d)%%Z)" % x for x in pm)))
    return "mkq %s %s %d %d %d %d (%s) %s %s %s [%s] [%s] [%s]" % (
        primer_term(c["fwd"]), primer_term(c["rev"]), c["ef"], c["er"], c["min"], c["max"],
        "None" if c["ext"] < 0 else "Some %d" % c["ext"], "true" if c["full"] else "false",
        "true" if c["circular"] else "false", seq_term(c["templates"][ti]),
        ";".join(str(x) for x in q), ";".join("(%d, (%d)%%Z)" % (i, p) for i, (_, p) in enumerate(src)), "; ".join(recs))


def evaluate(ctx, cases, broken, label, correspond=True, max_report=3):
    obs = run_cases(ctx, cases)
    nrep = {}
    stats = dict(templates=0, with_amplicons=0, amplicons=0, unconstrained=0, failing=0, provenance_model_cases=0)
    fails = []
    for i, (c, o) in enumerate(zip(cases, obs)):
        bad, unc = judge(c, o)
        stats["unconstrained"] += unc
        stats["templates"] += len(c["templates"])
        if o["kind"] == "ok":
            for a in o["amps"]:
                stats["amplicons"] += len(a)
                stats["with_amplicons"] += 1 if a else 0
        for (ti, klass, got, exp) in bad:
            stats["failing"] += 1
            fails.append((i, ti, klass))
            key = None          # no known finding left at this level (both circular findings of round 1 are repaired)
            if key and ctx.kf_match(key):
                ctx.known(key, ctx.kf_match(key)["what"])
                continue
            nrep[klass] = nrep.get(klass, 0) + 1
            if nrep[klass] <= max_report:
                wit, wgot, wexp = c, got, exp
                if ti is not None:
                    # reduce the batch to the failing template alone when it still fails alone
                    s = single(c, ti)
                    so = run_cases(ctx, [s])[0]
                    sb, _ = judge(s, so)
                    if sb:
                        wit, wgot, wexp = s, sb[0][2], sb[0][3]
                    else:
                        klass = "batch-dependent"
                report(ctx, "%s_%s_%d_%s" % (label, klass, i, ti), klass, wit, wgot, wexp, dict(tag=c.get("tag"), defect_class=key))
    mism = []
    if correspond:
        terms, where, qterms, qwhere = [], [], [], []
        for i, (c, o) in enumerate(zip(cases, obs)):
            if o["kind"] != "ok":
                continue
            for ti, t in enumerate(c["templates"]):
                if len(t) > 400 or len(o["amps"][ti]) > 60:
                    continue
                if c.get("quals") or c.get("annots"):
                    qterms.append(qcase_term(c, ti, o["amps"][ti]))
                    qwhere.append((i, ti))
                else:
                    terms.append(case_term(c, ti, o["amps"][ti]))
                    where.append((i, ti))
        bad, err = ctx.correspond(label, IMPORTS, terms, shard=120)
        qbad, qerr = ctx.correspond(label + "q", QIMPORTS, qterms, fn="qmismatches", shard=80)
        stats["provenance_model_cases"] = len(qterms)
        if bad is None or qbad is None:
            broken.append(dict(kind="correspondence", detail=err or qerr))
        else:
            mism = [where[k] for k in bad] + [qwhere[k] for k in qbad]
    return obs, fails, mism, stats


def relational(ctx, cases, obs, label):
    """Strand-symmetry, rotation-invariance and batch-independence clauses, implementation against implementation."""
    rng = ctx.rng
    derived, meta = [], []
    for i, (c, o) in enumerate(zip(cases, obs)):
        if o["kind"] != "ok" or not c["templates"]:
            continue
        # strand symmetry: reverse-complemented templates
        derived.append(dict(to_vh_plain(c), templates=[rc(t) for t in c["templates"]]))
        meta.append(("strand", i, None))
        # batch independence: reversed order through another entry point
        if len(c["templates"]) > 1:
            derived.append(dict(to_vh_plain(c), templates=list(reversed(c["templates"])), mode=rng.choice(["slice", "worker"])))
            meta.append(("batch", i, None))
        if c["circular"]:
            for ti, t in enumerate(c["templates"]):
                L = len(t)
                if L < 2:
                    continue
                rots = range(1, L) if L <= 24 else sorted({1, L - 1, L // 2, rng.randrange(1, L), rng.randrange(1, L)})
                derived.append(dict(to_vh_plain(c), templates=[t[r:] + t[:r] for r in rots]))
                meta.append(("rotation", i, ti))
    dobs = run_cases(ctx, derived)
    counts = dict(strand=0, rotation=0, batch=0)
    nrep = {}
    for (kind, i, ti), d, do in zip(meta, derived, dobs):
        c, o = cases[i], obs[i]
        fails = []
        if do["kind"] != "ok":
            fails.append((d, do, None))
        elif kind == "strand":
            for k, t in enumerate(c["templates"]):
                counts["strand"] += 1
                if sorted(flip(x) for x in canon(o["amps"][k])) != canon(do["amps"][k]):
                    fails.append((dict(d, templates=[t, rc(t)], mode="slice"), canon(o["amps"][k]), canon(do["amps"][k])))
        elif kind == "batch":
            n = len(c["templates"])
            for k, t in enumerate(c["templates"]):
                counts["batch"] += 1
                if canon(o["amps"][k]) != canon(do["amps"][n - 1 - k]):
                    fails.append((d, canon(o["amps"][k]), canon(do["amps"][n - 1 - k])))
        else:
            t = c["templates"][ti]
            for k, rt in enumerate(d["templates"]):
                counts["rotation"] += 1
                if canon(o["amps"][ti]) != canon(do["amps"][k]):       # multisets (C11_rotation_invariant_impl)
                    fails.append((dict(d, templates=[t, rt], mode="slice"), canon(o["amps"][ti]), canon(do["amps"][k])))
        for (wc, a, b) in fails:
            key = None
            if key and ctx.kf_match(key):
                ctx.known(key, ctx.kf_match(key)["what"])
                continue
            nrep[kind] = nrep.get(kind, 0) + 1
            if nrep[kind] <= 2:
                ctx.violation("%s_%s_%d_%d" % (label, kind, i, nrep[kind]), dict(property="C11", kind="relational:" + kind, case=wc,
                                                                 first=a, second=b, defect_class=key))
    return counts


# ------------------------------------------------------------------ command level: obipcr (option plumbing, --fragmented)
def parse_fasta_json(text):
    recs, cur = [], None
    for line in text.splitlines():
        if line.startswith(">"):
            head = line[1:]
            sp = head.find(" ")
            rid, rest = (head, "") if sp < 0 else (head[:sp], head[sp + 1:].strip())
            ann = {}
            if rest.startswith("{"):
                try:
                    ann = json.loads(rest)
                except ValueError:
                    ann = {}
            cur = dict(id=rid, ann=ann, seq="")
            recs.append(cur)
        elif cur is not None:
            cur["seq"] += line.strip()
    return recs


def parse_records(text, fmt):
    """records written by obipcr: fasta / fastq with JSON title-line annotations, or --json-output"""
    if fmt == "json":
        return [dict(id=r.get("id"), ann=r.get("annotations") or {}, seq=r.get("sequence", ""), qual=[ord(x) - 33 for x in r["qualities"]] if r.get("qualities") else None)
                for r in json.loads(text or "[]")]
    if fmt == "fasta":
        return [dict(r, qual=None) for r in parse_fasta_json(text)]
    recs, lines = [], text.splitlines()
    for k in range(0, len(lines) - 3, 4):
        head = lines[k][1:]
        sp = head.find(" ")
        rid, rest = (head, "") if sp < 0 else (head[:sp], head[sp + 1:].strip())
        ann = {}
        if rest.startswith("{"):
            try:
                ann = json.loads(rest)
            except ValueError:
                ann = {}
        recs.append(dict(id=rid, ann=ann, seq=lines[k + 1].strip(), qual=[ord(x) - 33 for x in lines[k + 3].strip()]))
    return recs


def run_obipcr(ctx, bindir, c, workdir, k, v=None):
    """One run of the obipcr command on the templates of c. v = plumbing variant: fastq (scores), stdin, gz (compressed input),
    files=n (templates spread over n files), no_order, batch_size, max_cpu, force_one_cpu, out = fasta|fastq|json, out_file, compress."""
    import os, subprocess, gzip
    v = v or {}
    qs, an = c.get("quals") or [], c.get("annots") or []
    fastq = bool(v.get("fastq") or any(qs))
    if fastq:            # a fastq file gives every record scores
        c["quals"] = [(qs[i] if i < len(qs) and qs[i] else [40] * len(t)) for i, t in enumerate(c["templates"])]
    nfiles = max(1, min(v.get("files", 1), len(c["templates"])))
    per = (len(c["templates"]) + nfiles - 1) // nfiles
    paths = []
    for fi in range(nfiles):
        path = os.path.join(workdir, "cli_%d_%d.%s%s" % (k, fi, "fastq" if fastq else "fasta", ".gz" if v.get("gz") else ""))
        out = []
        for i in range(fi * per, min(len(c["templates"]), (fi + 1) * per)):
            t = c["templates"][i]
            head = "t%d" % i + ((" " + json.dumps(an[i])) if i < len(an) and an[i] else "")
            if fastq:
                out.append("@%s\n%s\n+\n%s\n" % (head, t, "".join(chr(33 + x) for x in c["quals"][i])))
            else:
                out.append(">%s\n%s\n" % (head, t))
        data = "".join(out).encode()
        with (gzip.open(path, "wb") if v.get("gz") else open(path, "wb")) as f:
            f.write(data)
        paths.append(path)
    cmd = [os.path.join(bindir, "obipcr"), "--forward", c["fwd"], "--reverse", c["rev"], "-e", str(c["ef"]),
           "-l", str(c["min"]), "-L", str(c["max"]), "--no-progressbar"]
    if c["ext"] >= 0:
        cmd += ["--delta", str(c["ext"])]
    if c["full"]:
        cmd += ["--only-complete-flanking"]
    if c["circular"]:
        cmd += ["-c"]
    if c.get("fragmented"):
        cmd += ["--fragmented"]
    for opt, flag in (("batch_size", "--batch-size"), ("max_cpu", "--max-cpu")):
        if v.get(opt):
            cmd += [flag, str(v[opt])]
    if v.get("force_one_cpu"):
        cmd += ["--force-one-cpu"]
    if v.get("no_order"):
        cmd += ["--no-order"]
    fmt = v.get("out") or ("fastq" if fastq else "fasta")
    if v.get("out"):
        cmd += ["--%s-output" % v["out"]]
    outpath = os.path.join(workdir, "cli_%d.out" % k)
    if v.get("out_file"):
        cmd += ["-o", outpath]
    if v.get("compress"):
        cmd += ["-Z"]
    stdin = None
    if v.get("stdin"):
        stdin = open(paths[0], "rb").read()
        if v.get("gz"):
            stdin = gzip.decompress(stdin)
    else:
        cmd += paths
    try:
        p = subprocess.run(cmd, input=stdin, capture_output=True, timeout=120)
    except subprocess.TimeoutExpired:
        return None, "timeout"
    if p.returncode != 0:
        return None, "exit %d: %s" % (p.returncode, p.stderr.decode("utf8", "replace")[-300:])
    raw = open(outpath, "rb").read() if v.get("out_file") else p.stdout
    if v.get("compress"):
        try:
            raw = gzip.decompress(raw)
        except OSError as e:
            return None, "output is not gzip: %s" % e
    amps = [[] for _ in c["templates"]]
    try:
        recs = parse_records(raw.decode("utf8", "replace"), fmt)
    except ValueError as e:
        return None, "unreadable output: %s" % e
    for r in recs:
        m = r["id"].split("_sub")[0]
        if not (m.startswith("t") and m[1:].isdigit() and int(m[1:]) < len(amps)):
            return None, "amplicon with unknown id " + r["id"]
        a = r["ann"]
        amps[int(m[1:])].append(dict(seq=r["seq"], dir=a.get("direction"), fm=a.get("forward_match"), fe=a.get("forward_error"),
                                     rm=a.get("reverse_match"), re=a.get("reverse_error"), fp=a.get("forward_primer"), rp=a.get("reverse_primer"),
                                     qual=r["qual"], pm=a.get("pairing_mismatches"), extra={x: str(y) for x, y in a.items() if x not in OWN_KEYS}))
    return amps, None


PLUMBING = [dict(), dict(fastq=True), dict(stdin=True), dict(gz=True), dict(files=2), dict(files=3, no_order=True), dict(batch_size=1), dict(batch_size=2, max_cpu=1),
            dict(force_one_cpu=True), dict(out="json"), dict(out_file=True), dict(compress=True), dict(fastq=True, out="fasta"), dict(fastq=True, files=2, batch_size=3),
            dict(stdin=True, fastq=True, out="json", force_one_cpu=True)]


def cli_cases(rng):
    base = dict(fwd="acgt", rev="ggcc", ef=0, er=0, min=0, max=50, ext=-1, full=False, circular=False, mode="cli")
    cases = [
        dict(base, min=5, templates=["ttacgtaaaggcctt", "ttacgtaaaaaaggcctt", "ggccaaaaacgt"]),            # --min-length plumbing
        dict(base, max=4, templates=["ttacgtaaaggcctt", "ttacgtaaaaaaggcctt"]),                           # --max-length
        dict(base, ext=3, full=True, templates=["tacgtaaaaaggcctttt", "tttacgtaaaaaggcctttt"]),           # --only-complete-flanking
        dict(base, ext=3, templates=["tacgtaaaaaggcctttt", "tttacgtaaaaaggcctttt"]),                      # --delta, clipped
        dict(base, circular=True, templates=["aaaggcctt" + "c" * 60 + "ttacgtaa"]),                       # --circular
        dict(base, fwd="acgtac", rev="ggccgg", ef=1, er=1, templates=["ttaggtacaaaaaccggcctt", "ttaggtaaaaaaaccggcctt"]),   # -e
    ]
    for k in range(8):
        c = gen_case(rng, circular=(k % 4 == 3), small=(k % 2 == 0))
        c["er"] = c["ef"]
        c["templates"] = [t for t in c["templates"] if t]
        c["max"] = c["max"] or 50                      # -L is mandatory on the command line
        if c["templates"]:
            cases.append(c)
    # --fragmented: max=10 -> sequences above 10000 bp are cut in fragments of 1000 bp; the amplicon (two 20-base primers +
    # 10 bases) is planted at offsets around the fragment boundaries (960, 1920, ...) and far from them, on either strand
    fwd, rev = "acgtacgtacgtacgtacgt", "ggccggaaggccggaaggcc"
    w = fwd + "a" * 10 + rc(rev)
    ts = []
    for pos in [100, 930, 945, 951, 955, 959, 960, 970, 1915, 1925, 11940, 11950]:
        t = [rng.choice("ac") for _ in range(12000)]
        piece = w if pos % 2 == 0 else rc(w)
        t[pos:pos + len(piece)] = list(piece)
        ts.append("".join(t))
    cases.append(dict(templates=ts, fwd=fwd, rev=rev, ef=0, er=0, min=1, max=10, ext=-1, full=False, circular=False, fragmented=True, mode="cli"))
    # a short amplicon (8+3+8 bases, max 25) lying entirely inside the overlap of two fragments
    fwd2, rev2 = "acgtacgt", "ggccggaa"
    w2 = fwd2 + "aca" + rc(rev2)
    ts2 = []
    for pos in [500, 2470, 2475, 2490]:
        t = [rng.choice("ac") for _ in range(26000)]
        t[pos:pos + len(w2)] = list(w2)
        ts2.append("".join(t))
    cases.append(dict(templates=ts2, fwd=fwd2, rev=rev2, ef=0, er=0, min=1, max=25, ext=-1, full=False, circular=False, fragmented=True, mode="cli"))
    # --fragmented with flanks (--delta 20): the amplicon AND its flanks must be found whole in some fragment - amplicons
    # whose flank crosses a cut (fragments [0,1000), [1000-overlap, ...)), with and without --only-complete-flanking
    fwd3, rev3 = "acgtacgtggccaatt", "ggccggaattccttaa"
    w3 = fwd3 + "cccccccc" + rc(rev3)
    for full in (False, True):
        ts3 = []
        for pos in [300, 930, 945, 950, 957, 985, 1000, 1900, 1910]:
            t = [rng.choice("at") for _ in range(10600)]
            piece = w3 if pos % 2 == 0 else rc(w3)
            t[pos:pos + len(piece)] = list(piece)
            ts3.append("".join(t))
        cases.append(dict(templates=ts3, fwd=fwd3, rev=rev3, ef=0, er=0, min=1, max=10, ext=20, full=full, circular=False, fragmented=True, mode="cli"))
    return cases


def plumbing_case(rng):
    """One batch for every plumbing variant of the command: amplicons on both strands, sites with mismatches, templates without
    amplicon, the stale-tail shape of the recycled C buffer (a short template after a long one, see hand_cases), more templates
    than one batch of the command holds (--batch-size defaults to 10), annotations and pairing_mismatches in the title lines."""
    f6, r6 = "acgtac", "ggccgg"
    long1 = "tt" + f6 + "aaaaa" + rc(r6) + "tt" + "c" * 70
    ts = [long1, long1[:15], long1[:16], rc(long1), rc(long1)[:len(long1) - 6], "tt" + "acgaac" + "aaaaaaa" + rc(r6) + "tt", rc("tt" + f6 + "aaaa" + rc("gtccgg") + "tt"),
          "a" * 30, "tt" + f6 + rc(r6) + "tt", long1[:17], long1, "tt" + f6 + "a" * 60 + rc(r6), long1[:14], rc(long1)[:20]]
    for _ in range(4):
        ts.insert(rng.randrange(len(ts) + 1), rand_seq(rng, rng.randrange(20, 60)))
    an = []
    for t in ts:
        a = dict(count=rng.randrange(1, 9))
        if rng.random() < 0.7:
            a["pairing_mismatches"] = {key: rng.randrange(1, len(t) + 1) for key in rng.sample(PM_KEYS, 3)}
        an.append(a)
    return dict(templates=ts, annots=an, fwd=f6, rev=r6, ef=1, er=1, min=1, max=40, ext=rng.choice([-1, 2]), full=False, circular=False, mode="cli")


def rotation_cli_case(rng, full):
    """lead (emission guard of _Pcr): -c -D n with / without --only-complete-flanking on every rotation of one circle"""
    t = "acgtac" + "aaaaa" + rc("ggccgg") + rand_seq(rng, 13, "ct")
    return dict(templates=[t[r:] + t[:r] for r in range(len(t))], fwd="acgtac", rev="ggccgg", ef=0, er=0, min=0, max=30, ext=4, full=full, circular=True, mode="cli")


def cli_clause(ctx, broken):
    """obipcr itself (option parsing, readers: fasta / fastq / gzip / stdin / several files, batches, workers, IFragments,
    writers) against the same brute-force oracle, records with their inherited scores and annotations."""
    import tempfile
    bindir, err = ctx.build_cmds(["obipcr"])
    if bindir is None:
        broken.append(dict(kind="command-build", detail=err))
        return dict(runs=0)
    stats = dict(runs=0, templates=0, amplicons=0, fragmented_templates=0, plumbing_variants=0, records_with_scores=0)
    nrep = 0
    rng = ctx.rng
    jobs = [(c, {}) for c in cli_cases(rng)]
    for v in PLUMBING:
        jobs.append((plumbing_case(rng), v))
    jobs.append((rotation_cli_case(rng, False), dict(batch_size=4)))
    jobs.append((rotation_cli_case(rng, True), {}))
    for j in range(6 if ctx.quick else 60):          # random cases (with what templates carry) through random plumbing
        c = gen_case(rng, circular=(j % 3 == 2), small=(j % 2 == 0), inherit=True)
        c["er"] = c["ef"]
        c["max"] = c["max"] or 50
        keep = [i for i, t in enumerate(c["templates"]) if t]
        for key in ("templates", "quals", "annots"):
            if c.get(key):
                c[key] = [c[key][i] for i in keep]
        if c["templates"]:
            jobs.append((c, rng.choice(PLUMBING)))
    with tempfile.TemporaryDirectory(prefix="c11cli") as wd:
        for k, (c, v) in enumerate(jobs):
            amps, err = run_obipcr(ctx, bindir, c, wd, k, v)
            stats["runs"] += 1
            stats["plumbing_variants"] += 1 if v else 0
            if amps is None:
                ctx.violation("cli_%d_failed" % k, dict(property="C11", kind="obipcr-run", case=dict(to_vh(c), mode="cli"), plumbing=v, fragmented=bool(c.get("fragmented")), error=err))
                continue
            for ti, t in enumerate(c["templates"]):
                stats["templates"] += 1
                stats["amplicons"] += len(amps[ti])
                stats["records_with_scores"] += sum(1 for a in amps[ti] if a.get("qual"))
                stats["fragmented_templates"] += 1 if c.get("fragmented") else 0
                exp, unc = spec_pcr(t, c)
                got, want = canon(amps[ti]), canon(exp)
                extra = None
                if got == want:
                    inh = None
                    if v.get("out") == "fasta":          # a fasta output drops the scores
                        for a in amps[ti]:
                            a["qual"] = None
                        inh = judge_inherited(dict(c, quals=None), ti, exp, amps[ti])
                    elif not c.get("fragmented"):
                        inh = judge_inherited(c, ti, exp, amps[ti])
                    if inh is None and all(a["fp"] == c["fwd"] and a["rp"] == c["rev"] for a in amps[ti]):
                        continue
                    extra = dict(klass=inh[0] if inh else "primer-annotation", got=inh[1] if inh else None, want=inh[2] if inh else None)
                key = None
                if extra:
                    pass
                elif c.get("fragmented") and set(got) == set(want):
                    key = "fragmented-duplicates"
                elif c.get("fragmented") and c["ext"] >= 0 and set(want) <= set(got) and all(
                        any(x[1:] == w_[1:] and x[0] in w_[0] for w_ in want) for x in got if x not in want):
                    # every amplicon is there with its flanks; the extra records are second copies of amplicons, found in the
                    # neighbouring fragment, whose flanks are clipped at the fragment border
                    key = "fragmented-duplicates"
                if key and ctx.kf_match(key):
                    ctx.known(key, ctx.kf_match(key)["what"])
                    continue
                nrep += 1
                if nrep <= 3:
                    one = dict(to_vh(c), templates=[t], mode="cli", fragmented=bool(c.get("fragmented")))
                    for key2 in ("quals", "annots"):
                        if c.get(key2):
                            one[key2] = [c[key2][ti]]
                    ctx.violation("cli_%d_%d" % (k, ti), dict(property="C11", kind="obipcr-vs-oracle", fragmented=bool(c.get("fragmented")), plumbing=v,
                                                             case=one, implementation=got, expected=want, inherited=extra,
                                                             missing=[x for x in want if x not in got], unexpected=[x for x in got if x not in want],
                                                             note="replayed alone; if it only fails inside its batch, replay the batch: " + json.dumps(dict(to_vh(c), mode="cli"))[:2000] if len(c["templates"]) <= 30 else None))
    return stats


# ------------------------------------------------------------------ obiiter.IFragments (fragment arithmetic of --fragmented)
FRAG_IMPORTS = "From Coq Require Import ZArith List. Import ListNotations. Open Scope Z_scope.\nFrom OBI.C11 Require Import Model."


def frag_cases(rng, n):
    """(minsize, length, overlap) with 0 <= overlap < length (the hypothesis of the theorems; CLIPCR passes 1000*max, 100*max,
    max + both primer lengths) and sequence lengths around every boundary of the loop."""
    cases = [dict(lens=[0, 1, 99, 100, 101, 159, 160, 218, 219, 277, 300, 1000], minsize=100, length=100, overlap=41),   # -L 1, two 20-mers
             dict(lens=[2500, 2501, 4959, 4960, 7000, 26000], minsize=2500, length=2500, overlap=41),
             dict(lens=[10, 11, 12, 13, 14, 15, 16, 17, 18, 19, 20, 21, 22, 23, 24, 25], minsize=5, length=6, overlap=5),  # step 1
             dict(lens=[10, 11, 12, 13, 50], minsize=3, length=7, overlap=0)]                                             # no overlap
    for _ in range(n):
        length = rng.choice([2, 3, 5, 8, 13, 40, 100, 250])
        overlap = rng.randrange(0, length)
        step = length - overlap
        minsize = rng.choice([0, 1, length - 1, length, 2 * length, 10 * length])
        lens = []
        for _ in range(rng.randrange(1, 8)):
            k = rng.randrange(0, 12)
            lens.append(max(0, rng.choice([minsize, minsize + 1, k * step, k * step + 1, k * step + length, k * step + length - 1,
                                           k * step + length + step - 1, k * step + length + step, rng.randrange(0, 14 * length)])))
        cases.append(dict(lens=lens, minsize=minsize, length=length, overlap=overlap, batch=rng.choice([1, 2, 5]), workers=rng.choice([1, 1, 3])))
    return cases


def frag_clause(ctx, broken):
    """IFragments against (a) the direct statement: every interval not longer than the overlap lies inside a fragment, exactly
    one fragment owns it, fragments are well-formed; (b) the Coq model `fragments` (theorems of Fragments.v)."""
    cases = frag_cases(ctx.rng, 60 if ctx.quick else 1500)
    obs = ctx.vh_robust("c11frag", cases, timeout=300, one_timeout=20)
    stats = dict(cases=len(cases), sequences=0, fragments=0, cut_sequences=0, intervals_checked=0)
    terms, where, nrep = [], [], 0
    for ci, (c, o) in enumerate(zip(cases, obs)):
        if o["kind"] != "ok":
            ctx.violation("frag_%d_crash" % ci, dict(property="C11", kind="ifragments-run", case=c, implementation=o))
            continue
        step, ov = c["length"] - c["overlap"], c["overlap"]
        for si, N in enumerate(c["lens"]):
            fr = [tuple(f) for f in o["frags"][si]]
            stats["sequences"] += 1
            stats["fragments"] += len(fr)
            stats["cut_sequences"] += 1 if len(fr) > 1 else 0
            bad = None
            if N > 0 and not fr:
                bad = "no fragment"
            for (s, e) in fr:
                if not (0 <= s and (s < e or N == 0) and e <= N):
                    bad = "ill-formed fragment %s" % ((s, e),)
            if bad is None and N <= 4000:
                for a in range(N):
                    b = min(N, a + max(ov, 1))
                    stats["intervals_checked"] += 1
                    holders = [f for f in fr if f[0] <= a and b <= f[1]]
                    owners = [f for f in fr if f[0] <= a and (a < f[0] + step or f[1] == N)]
                    if not holders:
                        bad = "interval [%d,%d) (<= overlap) lies in no fragment" % (a, b)
                        break
                    if len(owners) != 1 or owners[0] not in holders:
                        bad = "interval starting at %d has owners %s" % (a, owners)
                        break
            if bad:
                nrep += 1
                if nrep <= 3:
                    ctx.violation("frag_%d_%d" % (ci, si), dict(property="C11", kind="ifragments-oracle", what=bad,
                                                                case=dict(c, lens=[N]), implementation=fr))
            terms.append("mkf %d %d %d %d [%s]" % (c["minsize"], c["length"], c["overlap"], N, "; ".join("(%d, %d)" % f for f in fr)))
            where.append((ci, si))
    bad, err = ctx.correspond("frag", FRAG_IMPORTS, terms, fn="frag_mismatches", shard=400)
    if bad is None:
        broken.append(dict(kind="correspondence", detail=err))
    elif bad and not ctx.violations:
        ci, si = where[bad[0]]
        broken.append(dict(kind="correspondence", name="corr:C11/fragments", n_diverging=len(bad),
                           first_diverging_case=dict(cases[ci], lens=[cases[ci]["lens"][si]]), implementation=obs[ci]["frags"][si]))
    stats["model_vs_impl_mismatches"] = len(bad or [])
    # outside the hypothesis overlap < length of the theorems: the loop of IFragments steps backwards (recorded known finding)
    neg = dict(lens=[300], minsize=100, length=10, overlap=11)
    no = ctx.vh_robust("c11frag", [neg], timeout=30)[0]
    if no["kind"] != "ok":
        k = ctx.kf_match("fragments-nonpositive-step")
        if k:
            ctx.known("fragments-nonpositive-step", k["what"])
        else:
            ctx.violation("frag_nonpositive_step", dict(property="C11", kind="ifragments-run", case=neg, implementation=no))
    stats["nonpositive_step_case"] = no["kind"]
    return stats


# ------------------------------------------------------------------ the pieces of _Pcr called directly (vh c11ops)
OPS_IMPORTS = "From Coq Require Import ZArith NArith List. Import ListNotations.\nFrom OBI.C11 Require Import Model ModelQ.\nOpen Scope N_scope."


def ops_cases(rng, n):
    """obiseq.Subsequence with every argument shape (error returns included: _Pcr is proved never to produce them, a
    changed _Pcr might), ReverseComplement (in place or not, direct or through its worker) with qualities, and the option set."""
    C = []
    for t in ["", "a", "acgtacgtaa", "ttacgtaaaaaggcctt"]:
        L = len(t)
        for circular in (False, True):
            for (a, b) in [(0, L), (0, 0), (0, 1), (1, 1), (2, 1), (-1, 2), (L - 1, L), (L, L + 1), (L - 1, L + 1), (0, L + 1), (L, L), (3, 3 + L), (3, 4 + L),
                           (L + 2, L + 4), (2 * L + 1, 3 * L), (5, 0), (1, 0), (-3, -1)]:
                C.append(dict(op="subseq", seq=t, **{"from": a, "to": b}, circular=circular))
    for _ in range(n):
        L = rng.choice([1, 2, 3, 7, 10, 20])
        t = rand_seq(rng, L, BASES + "n")
        a = rng.choice([0, 1, L - 1, L, rng.randrange(-2, 2 * L + 2)])
        b = rng.choice([a, a + 1, L, L + 1, a + L, a + L + 1, rng.randrange(-2, 3 * L + 2)])
        c = dict(op="subseq", seq=t, **{"from": a, "to": b}, circular=rng.random() < 0.6)
        if rng.random() < 0.5:
            c["qual"] = [rng.randrange(0, 61) for _ in t]
        if rng.random() < 0.6:
            c["pm"] = {key: rng.choice([1, L, rng.randrange(1, L + 1), rng.randrange(0, L + 3)]) for key in rng.sample(PM_KEYS, rng.choice([1, 2, 4]))}
        C.append(c)
    for t in ["", "a", "ac", "acg", "acgtnrykmswbdhv", "aacc", "acgt", "ac-g.t[ac]n", "a*c1g t", "-", "[", ".]"]:
        for inplace in (False, True):
            for worker in (False, True):
                C.append(dict(op="revcomp", seq=t, qual=list(range(1, len(t) + 1)) if len(t) % 2 else None, inplace=inplace, worker=worker))
    C.append(dict(op="revcomp_nil"))
    for _ in range(n // 2):
        t = rand_seq(rng, rng.randrange(0, 30), BASES * 3 + "nrykmswbdhv")
        C.append(dict(op="revcomp", seq=t, qual=[rng.randrange(0, 61) for _ in t] if rng.random() < 0.6 else None,
                      inplace=rng.random() < 0.5, worker=rng.random() < 0.3,
                      pm={key: rng.randrange(1, len(t) + 1) for key in rng.sample(PM_KEYS, rng.choice([1, 3]))} if t and rng.random() < 0.6 else None))
    for k in range(max(6, n // 6)):
        c = dict(op="options", fwd=rand_primer(rng, rng.randrange(3, 9)), rev=rand_primer(rng, rng.randrange(3, 9)), ef=rng.randrange(0, 3), er=rng.randrange(0, 3),
                 min=rng.randrange(0, 50), max=rng.randrange(0, 300), full=rng.random() < 0.5, circular=rng.random() < 0.5, order=rng.randrange(0, 9),
                 ext=rng.choice([None, -1, 0, 3, 40]), batch=rng.choice([None, 1, 10]), workers=rng.choice([None, 1, 5]))
        C.append(c)
    return C


def rc_any(s):
    """nucComplement on any byte: gaps stay, brackets are exchanged, letters outside the IUPAC alphabet and any other byte give n"""
    other = {".": ".", "-": "-", "[": "]", "]": "["}
    return "".join(TCOMP.get(x, other.get(x, "n")) for x in reversed(s))


def sub_expected(c):
    """The statement of Subsequence on the domain _Pcr / _Segment / IFragments use it: ('ok', bases), ('err',) or None (outside:
    only the model judges)."""
    t, a, b, L = c["seq"], c["from"], c["to"], len(c["seq"])
    if not c["circular"]:
        return ("ok", t[a:b], a, b - a) if 0 <= a < b <= L else ("err",)
    if a < 0:
        return ("err",)
    if L > 0 and a < b <= a + L:
        return ("ok", circ(t, a, b - a), a, b - a)
    return None


def ops_clause(ctx, broken):
    cases = ops_cases(ctx.rng, 120 if ctx.quick else 3000)
    obs = ctx.vh_robust("c11ops", cases, timeout=300, one_timeout=20)
    stats = dict(subseq=0, subseq_errors=0, subseq_outside_statement=0, revcomp=0, options=0)
    terms, where, nrep = [], [], 0

    def bad(k, what, c, o, exp):
        nonlocal nrep
        nrep += 1
        if nrep <= 3:
            ctx.violation("ops_%d_%s" % (k, what), dict(property="C11", kind="ops-oracle", what=what, case=c, implementation=o, expected=exp))
    for k, (c, o) in enumerate(zip(cases, obs)):
        if c["op"] == "subseq":
            stats["subseq"] += 1
            e = sub_expected(c)
            if e is None:
                stats["subseq_outside_statement"] += 1
            elif e[0] == "err":
                stats["subseq_errors"] += 1
                if o["kind"] == "ok":
                    bad(k, "subsequence-accepts-invalid-bounds", c, o, "an error")
            else:
                q = c.get("qual")
                eq = [q[(e[2] + j) % len(q)] for j in range(e[3])] if q else None
                if o["kind"] != "ok" or o["seq"] != e[1] or (o.get("qual") or None) != eq or o.get("arg_seq", "") != c["seq"]:
                    bad(k, "subsequence", c, o, dict(seq=e[1], qual=eq))
                elif c.get("pm"):
                    # a mismatch is kept iff the window shows its position; its new position designates the same base
                    L, want = len(c["seq"]), {}
                    for key, p in c["pm"].items():
                        occ = [j + 1 for j in range(e[3]) if (e[2] + j) % L == p - 1 and 1 <= p <= L]
                        if occ:
                            want[key] = occ
                    got = o.get("pm") or {}
                    if set(got) != set(want) or any(got[x] not in want[x] for x in want):
                        bad(k, "subsequence-pairing-mismatches", c, o, want)
            if o["kind"] == "ok" and c.get("pm") and len(c["seq"]) > 0 and c["from"] >= 0:
                L = len(c["seq"])
                for key, p in sorted(c["pm"].items()):
                    j = (o.get("pm") or {}).get(key)
                    terms.append("mkm (%d)%%Z (%d)%%Z (%d)%%Z (%d)%%Z (%s)" % (p, c["from"] % L, L, len(o["seq"]), "None" if j is None else "Some (%d)%%Z" % j))
                    where.append(k)
            # a negative end on a circular sequence makes the code slice with a negative bound (panic); the model is not meant
            # to be faithful there (no caller does it): observation only
            if o["kind"] in ("ok", "err", "panic") and not (c["circular"] and c["to"] < 0):
                terms.append("mks %s (%d)%%Z (%d)%%Z %s (%s)" % (seq_term(c["seq"]), c["from"], c["to"], "true" if c["circular"] else "false",
                                                         "Some " + seq_term(o["seq"]) if o["kind"] == "ok" else "None"))
                where.append(k)
        elif c["op"] == "revcomp_nil":
            if o["kind"] != "ok" or not o["same"]:
                bad(k, "reverse-complement-of-nil", c, o, "nil")
        elif c["op"] == "revcomp":
            stats["revcomp"] += 1
            q = c.get("qual") or None
            exp = dict(seq=rc_any(c["seq"]), qual=list(reversed(q)) if q else None)
            if o["kind"] != "ok" or o["seq"] != exp["seq"] or (o.get("qual") or None) != exp["qual"]:
                bad(k, "reverse-complement", c, o, exp)
            elif c["inplace"] and not (o["same"] and o.get("arg_seq", "") == exp["seq"]):
                bad(k, "reverse-complement-in-place-returns-another-object", c, o, exp)
            elif not c["inplace"] and (o["same"] or o.get("arg_seq", "") != c["seq"] or (o.get("arg_qual") or None) != q):
                bad(k, "reverse-complement-modifies-its-argument", c, o, exp)
            elif c.get("pm"):
                want = {pm_rev_key(key).lower(): len(c["seq"]) - p + 1 for key, p in c["pm"].items()}
                if {x.lower(): y for x, y in (o.get("pm") or {}).items()} != want:
                    bad(k, "reverse-complement-pairing-mismatches", c, o, want)
            if o["kind"] == "ok":
                terms.append("mkr %s %s" % (seq_term(c["seq"]), seq_term(o["seq"])))
                where.append(k)
                gp = {x.lower(): y for x, y in (o.get("pm") or {}).items()}
                for key, p in sorted((c.get("pm") or {}).items()):
                    terms.append("mkv (%d)%%Z (%d)%%Z (%s)" % (len(c["seq"]), p, "Some (%d)%%Z" % gp[pm_rev_key(key).lower()] if pm_rev_key(key).lower() in gp else "None"))
                    where.append(k)
        else:
            stats["options"] += 1
            if o["kind"] != "ok":
                bad(k, "options", c, o, "an option set")
                continue
            g = o["opt"]
            ext = c["ext"] if c["ext"] is not None else -1
            exp = dict(ef=c["ef"], er=c["er"], min=c["min"], max=c["max"], ext=ext, hasext=int(ext > -1), full=int(c["full"]), circular=int(c["circular"]),
                       batch=c["batch"] if c["batch"] is not None else 100, workers=c["workers"] if c["workers"] is not None else g["def_workers"],
                       def_batch=100, def_ext=-1, def_hasext=0, def_min=0, def_max=0, def_ef=0, def_er=0, def_circular=0, def_full=0)
            if any(g[x] != v for x, v in exp.items()):
                bad(k, "options", c, g, exp)
    badi, err = ctx.correspond("ops", OPS_IMPORTS, terms, fn="ops_mismatches", shard=400)
    if badi is None:
        broken.append(dict(kind="correspondence", detail=err))
    elif badi and not ctx.violations:
        k = where[badi[0]]
        broken.append(dict(kind="correspondence", name="corr:C11/" + cases[k]["op"], n_diverging=len(badi), first_diverging_case=cases[k], implementation=obs[k]))
    stats["model_vs_impl_mismatches"] = len(badi or [])
    return stats


BAD_PRIMERS = ["", "#acgt", "gg[cc", "ac[gt", "acg]t", "ac[]gt", "!", "acgt!", "acgt" * 16, "acgtgcatgactcagt" * 4 + "acgtacg", "ac gt", "ac1t"]


def bad_primer_clause(ctx):
    """Primers the pattern compiler must refuse (syntax errors, 64 symbols or more): OptionForwardPrimer / OptionReversePrimer
    end the run (log.Fatal) - never a result."""
    import itertools
    cases = []
    for p, side in itertools.product(BAD_PRIMERS, ("fwd", "rev")):
        c = dict(templates=["ttacgtaaaaaggcctt"], fwd="acgt", rev="ggcc", ef=0, er=0, min=0, max=0, ext=-1, full=False, circular=False, mode="slice")
        c[side] = p
        cases.append(c)
    obs = ctx.vh_robust("c11", cases, timeout=120, one_timeout=20)
    stats = dict(cases=len(cases), refused=0, accepted=0)
    for k, (c, o) in enumerate(zip(cases, obs)):
        if o["kind"] == "fatal":
            stats["refused"] += 1
        elif o["kind"] == "ok":
            stats["accepted"] += 1
            if True:
                ctx.violation("bad_primer_%d" % k, dict(property="C11", kind="malformed-primer-accepted", case=c, implementation=o, expected="log.Fatal"))
        else:
            ctx.violation("bad_primer_%d" % k, dict(property="C11", kind="malformed-primer-crash", case=c, implementation=o, expected="log.Fatal"))
    return stats


def run(ctx, broken):
    rng = ctx.rng
    nrand = 600 if ctx.quick else 12000
    cases = hand_cases()
    for k in range(nrand):
        cases.append(gen_case(rng, small=(k % 5 == 0)))
    for k in range(nrand // 10):
        cases.append(gen_tiny_circle(rng))
    # evaluated by chunks (one chunk in the quick tier) so that the thorough tier keeps a bounded memory footprint
    CH = 2000
    stats, rel, nontriv, dist, mism_first, n_mism, samples, classes = {}, {}, set(), {}, None, 0, [], {}
    nchunks = (len(cases) + CH - 1) // CH
    for ci in range(nchunks):
        chunk = cases[ci * CH:(ci + 1) * CH]
        sfx = "" if nchunks == 1 else str(ci)
        obs, fails, mism, st = evaluate(ctx, chunk, broken, "main" + sfx)
        rl = relational(ctx, chunk, obs, "rel" + sfx)
        for k, v in st.items():
            stats[k] = stats.get(k, 0) + v
        for k, v in rl.items():
            rel[k] = rel.get(k, 0) + v
        for c, o in zip(chunk, obs):
            if o["kind"] == "ok":
                for t, a in zip(c["templates"], o["amps"]):
                    if a:
                        nontriv.add((t,) + tuple(c[k] for k in CASE_KEYS[1:-1]))
            k = "%s/%s/%s/%s" % ("circular" if c["circular"] else "linear", "ext" if c["ext"] >= 0 else "noext", c["mode"], o["kind"])
            dist[k] = dist.get(k, 0) + 1
            for k, v in (("templates_with_scores", sum(1 for q in (c.get("quals") or []) if q)),
                         ("templates_with_pairing_mismatches", sum(1 for a in (c.get("annots") or []) if a.get("pairing_mismatches"))),
                         ("templates_with_own_pcr_annotations", sum(1 for a in (c.get("annots") or []) if "forward_match" in a)),
                         ("templates_with_iupac_letters", sum(1 for t in c["templates"] if set(t) - set("acgt"))),
                         ("batches_of_5_or_more", int(len(c["templates"]) >= 5)),
                         ("primers_over_20_symbols", int(max(plen(c["fwd"]), plen(c["rev"])) > 20)),
                         ("budgets_of_3_or_more", int(max(c["ef"], c["er"]) >= 3))):
                classes[k] = classes.get(k, 0) + v
        if ci == 0:
            samples += [dict(case=to_vh(c), implementation=o) for c, o in list(zip(chunk, obs))[:2]]
        if ci == nchunks - 1:
            samples += [dict(case=to_vh(c), implementation=o) for c, o in list(zip(chunk, obs))[-2:]]
        n_mism += len(mism)
        if mism and mism_first is None:
            i, ti = mism[0]
            mism_first = (single(chunk[i], ti), obs[i]["amps"][ti])
        del obs
    ctx.cov["evaluations"] = stats["templates"] + sum(rel.values())
    ctx.cov["distinct_nontrivial"] = len(nontriv)
    ctx.cov["rule"] = ("one evaluation = one template through PCRSim/PCRSlice/PCRSliceWorker judged against the brute-force pair enumeration "
                       "(+ relational clauses: reverse complement, rotations, reversed batch); non-trivial = at least one amplicon reported; "
                       "distinct = distinct (template, primers, budgets, min, max, flank, full, topology)")
    cli = cli_clause(ctx, broken)
    frag = frag_clause(ctx, broken)
    ops = ops_clause(ctx, broken)
    badp = bad_primer_clause(ctx)
    ctx.cov["distribution"] = dict(cases=dist, input_classes=classes, **stats, relational=rel, obipcr_command=cli, ifragments=frag,
                                   direct_calls=ops, malformed_primers=badp)
    ctx.samples = samples
    ctx.cov["model_vs_impl_mismatches"] = n_mism
    if n_mism and not ctx.violations:
        more = [gen_case(rng, small=(k % 3 == 0)) for k in range(4000)]
        evaluate(ctx, more, [], "search", correspond=False)
        if not ctx.violations:
            broken.append(dict(kind="correspondence", name="corr:C11/amplicons", first_diverging_case=mism_first[0],
                               implementation=mism_first[1], n_diverging=n_mism))
    elif n_mism:
        ctx.cov["note"] = "model and implementation diverge on %d templates (violations reported by the direct oracle)" % n_mism


def replay(ctx, rp):
    c = rp["case"]
    if "op" in c:
        o = ctx.vh_robust("c11ops", [c], timeout=60)[0]
        print("replay (%s called directly):" % c["op"], json.dumps(c))
        print(" implementation:", json.dumps(o), "| expected:", json.dumps(rp.get("expected")), "|", rp.get("what"))
        return
    if str(rp.get("kind", "")).startswith("malformed-primer"):
        o = ctx.vh_robust("c11", [to_vh(c)], timeout=60)[0]
        print("replay (malformed primer, must be refused with log.Fatal):", json.dumps(to_vh(c)))
        print(" implementation:", json.dumps(o)[:600], "|", "refused" if o["kind"] == "fatal" else "NOT refused")
        return
    if "lens" in c:
        o = ctx.vh_robust("c11frag", [c], timeout=60)[0]
        print("replay (IFragments):", json.dumps(c))
        print(" implementation:", json.dumps(o), "| recorded:", rp.get("what"))
        return
    if c.get("mode") == "cli":
        import tempfile
        bindir, err = ctx.build_cmds(["obipcr"])
        with tempfile.TemporaryDirectory(prefix="c11cli") as wd:
            amps, err = run_obipcr(ctx, bindir, c, wd, 0, rp.get("plumbing"))
        print("replay (obipcr%s):" % (" --fragmented" if c.get("fragmented") else ""), err or "")
        for ti, t in enumerate(c["templates"]):
            exp, unc = spec_pcr(t, c)
            print(" template %d: implementation %s expected %s" % (ti, canon(amps[ti]) if amps else None, canon(exp)))
        return
    c.setdefault("mode", "slice")
    obs, fails, mism, stats = evaluate(ctx, [c], [], "replay")
    print("replay:", json.dumps(to_vh(c)))
    print(" implementation:", json.dumps(obs[0]))
    for ti, t in enumerate(c["templates"]):
        exp, unc = spec_pcr(t, c)
        print(" template %d expected%s:" % (ti, " (outside the statement)" if unc else ""), canon(exp))
    print(" oracle:", "FAILS %s" % fails if fails else "holds", "| model:", "mismatch" if mism else "agrees")
