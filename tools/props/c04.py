"""C04 — writers emit every batch once, in order, as well-formed FASTA/FASTQ/JSON/CSV."""
import json, itertools, csv, io, gzip
from concurrent.futures import ThreadPoolExecutor

PROPS = ["C04/Props.v"]
META = dict(
    text="Rocq theorems over an executable transcription of the re-sequencing writer loop shared by WriteSeqFileChunk (FASTA/FASTQ), WriteJSON and WriteCSV: for every list of formatted chunks (empty ones included) and EVERY arrival permutation the device receives concat(chunks) (FASTA/FASTQ), '[\\n' + join ',\\n' (non-empty chunks) + '\\n]\\n' (JSON) or header + rows (CSV), followed by exactly one Close. The model is tied to the code on every run: the real WriteFasta/WriteFastq/WriteJSON/WriteCSV are driven with one formatting worker and an input iterator delivering the batches in every permutation of <=5 (thorough <=6, sampled 7) batch numbers x every subset of empty batches into an in-memory io.WriteCloser counting Close; bytes and close count are compared with the model evaluated by vm_compute, and a Python oracle checks the bytes, the record ids, json.loads / encoding/json validity and the CSV rows.",
    note="Trusted: Coq kernel + vm_compute; harness and generators; the Wfile/bufio layer is a pass-through in this model (its failure behaviour is C18); the record formatters (FormatFastaBatch, FormatJSONBatch, FormatCVSBatch) are taken as the source of the chunks, not modelled (that a chunk is a ',\\n'-joined list of JSON objects is checked by parsing, not proved). With several formatting workers the arrival order is not observable: those cases are compared with the model under the identity arrival (the theorems say the result does not depend on it). The unrepaired WriteJSON is kept as json_writer_orig with C04_json_orig_refuted.")
TRUSTED = ["record formatters FormatFastaBatch/FormatFastqBatch/FormatJSONBatch/FormatCVSBatch produce the chunks (not modelled); JSON validity of the framed output is checked by json.loads and encoding/json on every run"]

WRITERS = ["fasta", "fastq", "json", "csv"]
KIND = dict(fasta="KFasta", fastq="KFastq", json="KJson", csv="KCsv")
IMPORTS = ("From Coq Require Import NArith List. Import ListNotations.\n"
           "From OBI.C04 Require Import Model.\n")

# corpus: hand-written boundary cases and the minimised witnesses of the WriteJSON defect (always first)
CORPUS = [
    dict(writer="json", sizes=[1, 1], arrival=[1, 0], workers=1, tag="fixed:json-no-separator-between-drained-chunks"),
    dict(writer="json", sizes=[1, 0, 1], arrival=[0, 1, 2], workers=1, tag="fixed:json-stray-separator-empty-batch"),
    dict(writer="json", sizes=[0, 1], arrival=[0, 1], workers=1, tag="fixed:json-leading-separator"),
    dict(writer="json", sizes=[1, 1, 1], arrival=[1, 0, 2], workers=1, tag="fixed:json-drain"),
    dict(writer="json", sizes=[1, 1, 1], arrival=[2, 1, 0], workers=1),
    dict(writer="json", sizes=[], arrival=[], workers=1),
    dict(writer="json", sizes=[0], arrival=[0], workers=1),
    dict(writer="json", sizes=[0, 0, 0], arrival=[2, 0, 1], workers=1),
    dict(writer="json", sizes=[2, 3], arrival=[1, 0], workers=1),
    dict(writer="csv", sizes=[], arrival=[], workers=1),
    dict(writer="csv", sizes=[0], arrival=[0], workers=1),
    dict(writer="csv", sizes=[0, 2], arrival=[1, 0], workers=1),
    dict(writer="csv", sizes=[2, 1, 2], arrival=[2, 1, 0], workers=1),
    dict(writer="fasta", sizes=[], arrival=[], workers=1),
    dict(writer="fasta", sizes=[2, 0, 3, 1], arrival=[3, 1, 2, 0], workers=1),
    dict(writer="fastq", sizes=[2, 0, 3, 1], arrival=[1, 3, 0, 2], workers=1),
    dict(writer="fastq", sizes=[], arrival=[], workers=1),
]


def exhaustive(n, writers=WRITERS):
    for w in writers:
        for perm in itertools.permutations(range(n)):
            for mask in range(1 << n):
                yield dict(writer=w, sizes=[0 if (mask >> i) & 1 else 1 for i in range(n)], arrival=list(perm), workers=1)


def random_case(rng, nmax=7, workers=None):
    n = rng.randrange(0, nmax + 1)
    arr = list(range(n))
    wk = workers if workers is not None else (1 if rng.random() < 0.6 else rng.randrange(2, 9))
    if wk == 1:
        rng.shuffle(arr)
    return dict(writer=rng.choice(WRITERS), sizes=[rng.choice([0, 0, 1, 1, 2, 3]) for _ in range(n)], arrival=arr, workers=wk,
                compressed=(rng.random() < 0.1))


def to_vh(c):
    return dict(writer=c["writer"], sizes=c["sizes"], arrival=c["arrival"], workers=c.get("workers", 1), compressed=bool(c.get("compressed")))


def run_impl(ctx, cases, nproc=8):
    """Run the real writers; the cases are split over a few harness processes."""
    vc = [to_vh(c) for c in cases]
    if len(vc) < 400:
        return ctx.vh_robust("c04", vc, timeout=300, one_timeout=15)
    k = (len(vc) + nproc - 1) // nproc
    parts = [vc[i:i + k] for i in range(0, len(vc), k)]
    with ThreadPoolExecutor(max_workers=nproc) as ex:
        res = list(ex.map(lambda p: ctx.vh_robust("c04", p, timeout=900, one_timeout=15), parts))
    return [o for r in res for o in r]


def out_bytes(c, o):
    b = bytes.fromhex(o.get("out") or "")
    if c.get("compressed"):
        try:
            return gzip.decompress(b) if b else b""
        except Exception:
            return None
    return b


def check(c, o):
    """Direct oracle: the statement of C04 evaluated on what the implementation did. Returns None or a reason."""
    if o.get("kind") != "ok":
        return "writer did not terminate / crashed: %s" % (o.get("err") or o.get("kind"))
    if o["closes"] != 1:
        return "output closed %d times" % o["closes"]
    if o.get("late_writes"):
        return "write after Close"
    out = out_bytes(c, o)
    if out is None:
        return "compressed output is not a valid gzip stream"
    chunks = [bytes.fromhex(x) for x in (o.get("chunks") or [])]
    ids = o.get("ids") or []
    w = c["writer"]
    if w in ("fasta", "fastq"):
        if out != b"".join(chunks):
            return "bytes differ from the concatenation of the batches in order"
        lines = out.decode("latin1").split("\n")
        if w == "fasta":
            got = [l[1:].split(" ")[0] for l in lines if l.startswith(">")]
        else:
            got = [l[1:].split(" ")[0] for l in lines[0::4] if l]
        if got != ids:
            return "record ids %r instead of %r" % (got, ids)
        return None
    if w == "json":
        try:
            v = json.loads(out.decode("utf8"))
        except Exception as e:
            return "output is not valid JSON (%s)" % e
        if not isinstance(v, list) or [r.get("id") if isinstance(r, dict) else None for r in v] != ids:
            return "JSON array does not hold one object per record in order"
        if not c.get("compressed") and (not o.get("json_ok") or o.get("json_ids") != ids):
            return "encoding/json rejects the output or reads other ids"
        if out != b"[\n" + b",\n".join(x for x in chunks if x) + b"\n]\n":
            return "bytes differ from '[\\n' + join(',\\n', non-empty batches) + '\\n]\\n'"
        return None
    if w == "csv":
        if len(c["sizes"]) == 0:
            return None   # no batch: the statement only demands the single Close
        header = bytes.fromhex(o.get("header") or "")
        rows = list(csv.reader(io.StringIO(out.decode("utf8"))))
        if not rows or rows[0] != ["id", "sequence"]:
            return "first line is not the header"
        if [r[0] for r in rows[1:]] != ids:
            return "rows %r instead of %r" % ([r[0] for r in rows[1:]], ids)
        if out != header + b"".join(chunks):
            return "bytes differ from header + rows of the batches in order"
        return None
    return "unknown writer"


class Table:
    """chunk bytes -> name of a Gallina definition (keeps the generated files small)"""
    def __init__(self):
        self.names = {}

    def ref(self, b):
        if not b:
            return "[]"
        if b not in self.names:
            self.names[b] = "K%d" % len(self.names)
        return self.names[b]

    def defs(self):
        return "".join("Definition %s : list N := [%s]%%N.\n" % (n, ";".join(str(x) for x in b)) for b, n in self.names.items())


def nlist(b):
    return "[" + ";".join(str(x) for x in b) + "]%N" if b else "[]"


def case_term(tab, c, o):
    chunks = [bytes.fromhex(x) for x in (o.get("chunks") or [])]
    arrival = c["arrival"] if c.get("workers", 1) == 1 else list(range(len(c["sizes"])))
    return "mkc %s %s [%s] [%s] %s %d" % (
        KIND[c["writer"]], tab.ref(bytes.fromhex(o.get("header") or "")), "; ".join(tab.ref(x) for x in chunks),
        "; ".join(str(i) for i in arrival), nlist(out_bytes(c, o) or b""), o["closes"])


def evaluate(ctx, cases, broken, label, corr_idx=None, fn="mismatches"):
    obs = run_impl(ctx, cases)
    fails = []
    for i, (c, o) in enumerate(zip(cases, obs)):
        why = check(c, o)
        if why:
            fails.append((i, why))
    for i, why in fails[:3]:
        ctx.violation("%s_oracle_%d" % (label, i), dict(property="C04", kind="direct-oracle", case=cases[i], why=why,
                                                      implementation=dict(obs[i], out_text=(out_bytes(cases[i], obs[i]) or b"").decode("latin1")),
                                                      expected="every batch once, in order, framed; closed once"))
    idx = [i for i in (corr_idx if corr_idx is not None else range(len(cases))) if obs[i].get("kind") == "ok" and out_bytes(cases[i], obs[i]) is not None]
    tab = Table()
    terms = [case_term(tab, cases[i], obs[i]) for i in idx]
    bad, err = ctx.correspond(label, IMPORTS + tab.defs(), terms, fn=fn, shard=400)
    if bad is None:
        broken.append(dict(kind="correspondence", detail=err))
        return obs, fails, []
    return obs, fails, [idx[i] for i in bad]


def nontrivial(c):
    return c["arrival"] != sorted(c["arrival"]) or 0 in c["sizes"] or c.get("workers", 1) > 1


def run(ctx, broken):
    rng = ctx.rng
    nmax = 5 if ctx.quick else 6
    cases = list(CORPUS)
    for n in range(0, nmax + 1):
        cases += list(exhaustive(n))
    n_exh = len(cases)
    if not ctx.quick:
        # 7 batches: every permutation x a sample of the subsets of empty batches
        for w in WRITERS:
            for perm in itertools.permutations(range(7)):
                for mask in {0, 127, rng.randrange(128), rng.randrange(128), 1 << rng.randrange(7)}:
                    cases.append(dict(writer=w, sizes=[0 if (mask >> i) & 1 else 1 for i in range(7)], arrival=list(perm), workers=1))
    n_rand = 400 if ctx.quick else 6000
    cases += [random_case(rng) for _ in range(n_rand)]
    # model evaluation: everything up to 4 batches, the corpus, the random cases, a sample of the rest
    small = [i for i, c in enumerate(cases) if len(c["sizes"]) <= (4 if ctx.quick else 5) or i < len(CORPUS) or i >= len(cases) - n_rand]
    rest = [i for i in range(len(cases)) if len(cases[i]["sizes"]) > (4 if ctx.quick else 5) and len(CORPUS) <= i < len(cases) - n_rand]
    corr_idx = sorted(small + rng.sample(rest, min(len(rest), 800 if ctx.quick else 6000)))
    obs, fails, mism = evaluate(ctx, cases, broken, "main", corr_idx)
    ctx.cov["evaluations"] = len(cases)
    ctx.cov["exhaustive"] = "all arrival permutations of <=%d batches x all subsets of empty batches x 4 writers (%d histories)%s" % (
        nmax, n_exh - len(CORPUS), "" if ctx.quick else "; 7 batches: all 5040 permutations x sampled subsets")
    ctx.cov["distinct_nontrivial"] = len({json.dumps(to_vh(c), sort_keys=True) for c in cases if nontrivial(c)})
    ctx.cov["rule"] = ("non-trivial = the arrival order is not the identity (a chunk is buffered and later drained), or a batch is empty, "
                       "or several formatting workers race; distinct = distinct (writer, sizes, arrival, workers, compressed)")
    dist = {}
    for c in cases:
        k = "%s/n=%d/%s" % (c["writer"], len(c["sizes"]), "w1" if c.get("workers", 1) == 1 else "wN")
        dist[k] = dist.get(k, 0) + 1
    ctx.cov["distribution"] = dist
    ctx.cov["compressed_cases"] = sum(1 for c in cases if c.get("compressed"))
    ctx.cov["observation_sink_closed_when_result_iterator_ended"] = "%d of %d runs (not part of C04: the commands wait for obiiter.WaitForLastPipe; a library caller that only drains the returned iterator can see the file not yet closed)" % (
        sum(1 for o in obs if o.get("closed_at_iter_end")), len(obs))
    ctx.cov["oracle_failures"] = len(fails)
    ctx.cov["model_vs_impl_mismatches"] = len(mism)
    ctx.samples = [dict(case=c, out=(out_bytes(c, o) or b"").decode("latin1"), closes=o.get("closes")) for c, o in
                   [(cases[i], obs[i]) for i in (0, 1, len(CORPUS) + 40, len(cases) - 1)]]
    if mism and not ctx.violations:
        more = [random_case(rng, 8) for _ in range(5000)]
        evaluate(ctx, more, [], "search", corr_idx=[])
        if not ctx.violations:
            i = mism[0]
            broken.append(dict(kind="correspondence", name="corr:C04/%s/bytes+closes" % cases[i]["writer"], first_diverging_case=cases[i],
                               implementation=obs[i], n_diverging=len(mism)))
    elif mism:
        ctx.cov["note"] = "model and implementation diverge on %d cases (violations reported by the direct oracle)" % len(mism)


def replay(ctx, rp):
    c = rp.get("case") or rp.get("first_diverging_case")
    obs, fails, mism = evaluate(ctx, [c], [], "replay")
    print("replay:", c, "->", (out_bytes(c, obs[0]) or b"").decode("latin1").__repr__(), "closes", obs[0].get("closes"),
          "| oracle:", fails[0][1] if fails else "ok", "| model:", "mismatch" if mism else "agrees")
