"""C04 — writers emit every batch once, in order, as well-formed FASTA/FASTQ/JSON/CSV."""
import json, itertools, csv, io, gzip, os, subprocess
from concurrent.futures import ThreadPoolExecutor
import vlib

PROPS = ["C04/Props.v"]
META = dict(
    text="Rocq theorems over an executable transcription of the re-sequencing writer loop shared by WriteSeqFileChunk (FASTA/FASTQ), WriteJSON and WriteCSV: for every list of formatted chunks (empty ones included) and EVERY arrival permutation the device receives concat(chunks) (FASTA/FASTQ), '[\\n' + join ',\\n' (non-empty chunks) + '\\n]\\n' (JSON) or header + rows (CSV), followed by exactly one Close. Round 2, over RECORDS: FormatJSONBatch and FormatCVSBatch are inside the model; C04_json_is_array: if every record is a serialised JSON object (executable RFC 8259 recogniser written as a pushdown automaton, Json.v) then for every batch partition and arrival permutation the output is ONE grammatical JSON text, an array whose elements are exactly the records of all batches in order; C04_csv_rows / C04_csv_rows_decodable: header line (inside batch 0) + one encoding/csv line per record in order, and a reader of that line syntax gets header and rows back; completion order: the result iterator ends only after the sink is closed (closing-script LTS; C04_iter_end_implies_sink_closed, refuted for the unrepaired order). Tied to the code on every run: the real writers are driven with one formatting worker and an input iterator delivering the batches in every permutation of <=5 (thorough <=6, sampled 7) batch numbers x every subset of empty batches into an in-memory io.WriteCloser counting Close (also: slow sink, OptionDontCloseFile, chunk sizes of exactly 4095/4096/4097 bytes and beyond, records with quotes/commas/newlines/leading blanks/non-ASCII/control characters); bytes, close count and 'sink closed when the result iterator ended' are compared with the model (vm_compute) and a Python oracle (json.loads / encoding/json / csv.reader); the real JSONRecord/CSVRecord outputs are fed to the Coq recogniser and formatter models (records are objects, FormatJSONBatch/FormatCVSBatch = model, output = array of the records / decodable rows); the recogniser is compared with json.loads on ~1500 valid and mutated texts; obicsv and obiconvert --json-output are run to stdout and to -o FILE.",
    note="Trusted: Coq kernel + vm_compute; harness and generators; the Wfile/bufio layer is a pass-through in this model (its failure behaviour is C18). JSONRecord (go-json MarshalIndent + unescaping) and CSVRecord are not modelled: that each record is a JSON object is the HYPOTHESIS of C04_json_is_array, discharged per run by evaluating the recogniser on the real records (and by json.loads); FormatFastaBatch/FormatFastqBatch are taken as the source of the chunks. The recogniser does not check UTF-8 well-formedness and json_array_objects only accepts arrays of objects/arrays. The CSV line model follows encoding/csv's Writer (Comma=',', UseCRLF=false; unicode.IsSpace of the first rune transcribed); the CSV reader of the round-trip theorem is the model's own (Go's reader skips empty lines and rewrites CRLF inside quotes: not claimed). Completion order: goroutines are abstracted to the closing script [ChanClose; WaitWriter; IterClose] - Go channel/WaitGroup semantics are the LTS primitives; the tie is the harness observation on every run (slow sink included). With several formatting workers the arrival order is not observable: those cases are compared with the model under the identity arrival. OptionDontCloseFile runs are checked by the oracle only. The unrepaired WriteJSON is kept as json_writer_orig with C04_json_orig_refuted.")
TRUSTED = ["JSONRecord / CSVRecord / FormatFastaBatch / FormatFastqBatch produce the records resp. chunks (not modelled); 'every record is a JSON object' is a hypothesis discharged on the real records on every run (Coq recogniser + json.loads)",
           "JSON recogniser Json.v written by hand from RFC 8259 (no UTF-8 validation), compared with Python's json.loads on valid and mutated texts on every run",
           "encoding/csv Writer line syntax transcribed by hand (Csv.v), tied by the correspondence run on the real FormatCVSBatch",
           "completion order: Go channel / WaitGroup semantics abstracted to a 3-action closing script"]

WRITERS = ["fasta", "fastq", "json", "csv"]
KIND = dict(fasta="KFasta", fastq="KFastq", json="KJson", csv="KCsv")
IMPORTS = ("From Coq Require Import NArith List. Import ListNotations.\n"
           "From OBI.C04 Require Import Model.\n")

# corpus: hand-written boundary cases and the minimised witnesses of the WriteJSON defect (always first)
CORPUS = [
    dict(writer="json", sizes=[1, 1], arrival=[1, 0], workers=1, tag="fixed:json-no-separator-between-drained-chunks"),
    dict(writer="json", sizes=[1, 0, 1], arrival=[0, 1, 2], workers=1, tag="fixed:json-stray-separator-empty-batch"),
    dict(writer="json", sizes=[0, 1], arrival=[0, 1], workers=1, tag="fixed:json-leading-separator"),
    dict(writer="json", sizes=[1, 1, 1], arrival=[1, 0, 2], workers=1, tag="fixed:json-drain"),
    dict(writer="json", sizes=[1, 1, 1], arrival=[2, 1, 0], workers=1),
    dict(writer="json", sizes=[], arrival=[], workers=1),
    dict(writer="json", sizes=[0], arrival=[0], workers=1),
    dict(writer="json", sizes=[0, 0, 0], arrival=[2, 0, 1], workers=1),
    dict(writer="json", sizes=[2, 3], arrival=[1, 0], workers=1),
    dict(writer="csv", sizes=[], arrival=[], workers=1),
    dict(writer="csv", sizes=[0], arrival=[0], workers=1),
    dict(writer="csv", sizes=[0, 2], arrival=[1, 0], workers=1),
    dict(writer="csv", sizes=[2, 1, 2], arrival=[2, 1, 0], workers=1),
    dict(writer="fasta", sizes=[], arrival=[], workers=1),
    dict(writer="fasta", sizes=[2, 0, 3, 1], arrival=[3, 1, 2, 0], workers=1),
    dict(writer="fastq", sizes=[2, 0, 3, 1], arrival=[1, 3, 0, 2], workers=1),
    dict(writer="fastq", sizes=[], arrival=[], workers=1),
    # round 2 --- records with quotes / commas / newlines / leading blanks / non-ASCII text (FormatJSONBatch, FormatCVSBatch modelled)
    dict(writer="json", sizes=[3, 0, 4, 2], arrival=[3, 1, 0, 2], workers=1, rich=True),
    dict(writer="csv", sizes=[3, 0, 4, 2], arrival=[3, 1, 0, 2], workers=1, rich=True),
    dict(writer="csv", sizes=[0, 0, 5], arrival=[2, 0, 1], workers=1, rich=True),
    dict(writer="json", sizes=[8, 8, 8], arrival=[2, 1, 0], workers=1, rich=True),
    dict(writer="csv", sizes=[8, 8, 8], arrival=[2, 1, 0], workers=1, rich=True),
    dict(writer="fasta", sizes=[3, 2], arrival=[1, 0], workers=1, rich=True),
    # JSONRecord's unescaping step: control characters and backslash-u in the data
    dict(writer="json", sizes=[1], arrival=[0], workers=1, rich=True, ctl=True, tag="fixed:json-record-unescape (definition C:\\users\\me: panic)"),
    dict(writer="json", sizes=[0, 1], arrival=[0, 1], workers=1, rich=True, ctl=True, tag="fixed:json-record-unescape (raw control character inside a string)"),
    dict(writer="json", sizes=[0, 0, 1], arrival=[0, 1, 2], workers=1, rich=True, ctl=True, tag="fixed:json-record-unescape (backslash-u-0041 in the data becomes the invalid escape backslash-A)"),
    dict(writer="csv", sizes=[2, 2], arrival=[1, 0], workers=1, rich=True, ctl=True),
    # completion order: a slow sink makes 'the result iterator ended before the sink was closed' deterministic
    dict(writer="fasta", sizes=[1, 1], arrival=[1, 0], workers=1, slow_ms=15, tag="fixed:result-iterator-ends-before-sink-closed"),
    dict(writer="fastq", sizes=[1, 1], arrival=[0, 1], workers=1, slow_ms=15, tag="fixed:result-iterator-ends-before-sink-closed"),
    dict(writer="json", sizes=[1, 1], arrival=[0, 1], workers=1, slow_ms=15, tag="fixed:result-iterator-ends-before-sink-closed"),
    dict(writer="csv", sizes=[1, 1], arrival=[1, 0], workers=1, slow_ms=15, tag="fixed:result-iterator-ends-before-sink-closed"),
    dict(writer="fasta", sizes=[], arrival=[], workers=1, slow_ms=15),
    dict(writer="json", sizes=[2, 1, 1], arrival=[0, 1, 2], workers=3, slow_ms=5),
    # OptionDontCloseFile: every byte must still reach the sink, which stays open
    dict(writer="fasta", sizes=[1, 1], arrival=[0, 1], workers=1, no_close=True, tag="fixed:dont-close-never-flushes"),
    dict(writer="fastq", sizes=[2, 0, 1], arrival=[2, 1, 0], workers=1, no_close=True, tag="fixed:dont-close-never-flushes"),
    dict(writer="json", sizes=[1, 1], arrival=[1, 0], workers=1, no_close=True),
    dict(writer="csv", sizes=[1, 1], arrival=[1, 0], workers=1, no_close=True),
    dict(writer="fasta", bytes=[5000, 4096], arrival=[1, 0], workers=1, no_close=True, tag="fixed:dont-close-never-flushes"),
    dict(writer="fasta", sizes=[2, 1], arrival=[1, 0], workers=1, no_close=True, compressed=True, tag="fixed:dont-close-never-flushes (gzip trailer)"),
]
# chunk sizes around the 4096-byte buffer of bufio: per chunk and in total; chunks larger than the
# buffer arriving when it is empty; zero-length chunks everywhere
BOUNDARY = [
    ([4095], [0]), ([4096], [0]), ([4097], [0]), ([0, 4096, 0], [2, 1, 0]), ([0, 0, 4097], [2, 0, 1]),
    ([4095, 4096, 4097, 0], [3, 1, 0, 2]), ([2048, 2047], [1, 0]), ([2048, 2048], [1, 0]), ([2048, 2049], [0, 1]),
    ([4000, 95], [0, 1]), ([4000, 96, 0], [1, 0, 2]), ([4000, 97], [1, 0]), ([100, 3996, 1], [2, 1, 0]),
    ([9000], [0]), ([0, 9000, 0, 100], [0, 1, 2, 3]), ([100, 9000], [1, 0]), ([8192, 0, 8193], [2, 1, 0]),
    ([1365, 1365, 1366], [2, 0, 1]), ([4096, 4096], [1, 0]), ([60, 0, 0, 4036], [3, 2, 1, 0]),
]


def boundary_cases():
    for w in WRITERS:
        for sizes, arr in BOUNDARY:
            if w == "csv" and sizes[0] and sizes[0] < 40:
                continue
            yield dict(writer=w, bytes=sizes, arrival=arr, workers=1)


def exhaustive(n, writers=WRITERS):
    for w in writers:
        for perm in itertools.permutations(range(n)):
            for mask in range(1 << n):
                yield dict(writer=w, sizes=[0 if (mask >> i) & 1 else 1 for i in range(n)], arrival=list(perm), workers=1)


def random_case(rng, nmax=7, workers=None):
    n = rng.randrange(0, nmax + 1)
    arr = list(range(n))
    wk = workers if workers is not None else (1 if rng.random() < 0.6 else rng.randrange(2, 9))
    if wk == 1:
        rng.shuffle(arr)
    c = dict(writer=rng.choice(WRITERS), sizes=[rng.choice([0, 0, 1, 1, 2, 3]) for _ in range(n)], arrival=arr, workers=wk,
             compressed=(rng.random() < 0.1))
    if rng.random() < 0.35:
        c["rich"] = True
    if rng.random() < 0.08:
        c["slow_ms"] = rng.choice([1, 3, 8])
    if rng.random() < 0.05:
        c["no_close"] = True
    if rng.random() < 0.12 and n:
        # chunk sizes in bytes around the 4096-byte buffer, zero-length chunks anywhere
        c["bytes"] = [rng.choice([0, 0, 60, 1000, 2048, 4095, 4096, 4097, 4100, 8191, 8192, 8193, rng.randrange(40, 9000)]) for _ in range(n)]
        if c["writer"] == "csv" and 0 < c["bytes"][0] < 40:
            c["bytes"][0] = 60
        c.pop("rich", None)
    return c


def nbatches(c):
    return len(c["bytes"]) if c.get("bytes") else len(c["sizes"])


def to_vh(c):
    d = dict(writer=c["writer"], sizes=c.get("sizes") or [], arrival=c["arrival"], workers=c.get("workers", 1), compressed=bool(c.get("compressed")))
    for k in ("bytes", "rich", "ctl", "slow_ms", "no_close", "want_recs"):
        if c.get(k):
            d[k] = c[k]
    return d


def run_impl(ctx, cases, nproc=8, post=None):
    """Run the real writers; the cases are split over a few harness processes. [post(i, case, obs)] is applied
    to every observation as soon as its part is back (oracle + dropping of the bulky fields: memory)."""
    vc = [to_vh(c) for c in cases]

    def part(lo, hi, tmo):
        r = ctx.vh_robust("c04", vc[lo:hi], timeout=tmo, one_timeout=15)
        if post:
            r = [post(lo + j, cases[lo + j], o) for j, o in enumerate(r)]
        return r
    if len(vc) < 400:
        return part(0, len(vc), 300)
    k = 4000 if len(vc) > 32000 else (len(vc) + nproc - 1) // nproc
    bounds = [(i, min(i + k, len(vc))) for i in range(0, len(vc), k)]
    with ThreadPoolExecutor(max_workers=nproc) as ex:
        res = list(ex.map(lambda b: part(b[0], b[1], 900), bounds))
    return [o for r in res for o in r]


def out_bytes(c, o):
    b = bytes.fromhex(o.get("out") or "")
    if c.get("compressed"):
        try:
            return gzip.decompress(b) if b else b""
        except Exception:
            return None
    return b


def check(c, o):
    """Direct oracle: the statement of C04 evaluated on what the implementation did. Returns None or a reason."""
    if o.get("kind") == "skip":
        return None       # a chunk of exactly that many bytes cannot be formed (counted in the coverage)
    if o.get("kind") != "ok":
        return "writer did not terminate / crashed: %s" % (o.get("err") or o.get("kind"))
    if c.get("no_close"):
        if o["closes"] != 0:
            return "OptionDontCloseFile: the sink was closed %d times" % o["closes"]
    else:
        if o["closes"] != 1:
            return "output closed %d times" % o["closes"]
        if not o.get("closed_at_iter_end"):
            return "the result iterator ended before the sink was closed (a caller draining the returned iterator finds an incomplete, open output)"
    if o.get("late_writes"):
        return "write after Close"
    out = out_bytes(c, o)
    if out is None:
        return "compressed output is not a valid gzip stream"
    chunks = [bytes.fromhex(x) for x in (o.get("chunks") or [])]
    ids = o.get("ids") or []
    w = c["writer"]
    if w in ("fasta", "fastq"):
        if out != b"".join(chunks):
            return "bytes differ from the concatenation of the batches in order"
        lines = out.decode("latin1").split("\n")
        if w == "fasta":
            got = [l[1:].split(" ")[0] for l in lines if l.startswith(">")]
        else:
            got = [l[1:].split(" ")[0] for l in lines[0::4] if l]
        if got != ids:
            return "record ids %r instead of %r" % (got, ids)
        return None
    if w == "json":
        try:
            v = json.loads(out.decode("utf8"))
        except Exception as e:
            return "output is not valid JSON (%s)" % e
        if not isinstance(v, list) or [r.get("id") if isinstance(r, dict) else None for r in v] != ids:
            return "JSON array does not hold one object per record in order"
        recs = [bytes.fromhex(x) for b in (o.get("recs") or []) for x in b]
        try:
            if o.get("recs") is not None and [json.loads(r.decode("utf8")) for r in recs] != v:
                return "the elements of the JSON array are not the serialised records in order"
        except Exception as e:
            return "a serialised record is not valid JSON (%s)" % e
        if not c.get("compressed") and (not o.get("json_ok") or o.get("json_ids") != ids):
            return "encoding/json rejects the output or reads other ids"
        if out != b"[\n" + b",\n".join(x for x in chunks if x) + b"\n]\n":
            return "bytes differ from '[\\n' + join(',\\n', non-empty batches) + '\\n]\\n'"
        return None
    if w == "csv":
        if nbatches(c) == 0:
            return None   # no batch: the statement only demands the single Close
        header = bytes.fromhex(o.get("header") or "")
        rows = list(csv.reader(io.StringIO(out.decode("utf8"), newline="")))
        hdr = [bytes.fromhex(x).decode("utf8") for x in (o.get("hdr_fields") or [])]
        if not rows or rows[0] != hdr or hdr[:1] != ["id"]:
            return "first line is not the header"
        if [r[0] for r in rows[1:]] != ids:
            return "rows %r instead of %r" % ([r[0] for r in rows[1:]], ids)
        want = [[bytes.fromhex(x).decode("utf8") for x in r] for b in (o.get("fields") or []) for r in b]
        if rows[1:] != want:
            return "the rows read back by a CSV reader are not the fields of the records in order"
        if out != header + b"".join(chunks):
            return "bytes differ from header + rows of the batches in order"
        return None
    return "unknown writer"


class Table:
    """chunk bytes -> name of a Gallina definition (keeps the generated files small)"""
    def __init__(self):
        self.names = {}

    def ref(self, b):
        if not b:
            return "[]"
        if b not in self.names:
            self.names[b] = "K%d" % len(self.names)
        return self.names[b]

    def defs(self):
        return "".join("Definition %s : list N := %s.\n" % (n, packed(b)) for b, n in self.names.items())


def nlist(b):
    return "[" + ";".join(str(x) for x in b) + "]%N" if b else "[]"


def packed(b):
    """Gallina term for a byte string; long periodic runs (sequence / quality lines) as [cyc n pattern]"""
    if len(b) < 200:
        return nlist(b)
    segs, lit, i, n = [], [], 0, len(b)
    while i < n:
        best = None
        if n - i >= 60:
            for per in (1, 4, 20, 61):
                if i + 2 * per > n or b[i:i + per] != b[i + per:i + 2 * per]:
                    continue
                run = 2 * per
                while i + run < n and b[i + run] == b[i + run - per]:
                    run += 1
                if run >= 60 and (best is None or run > best[1]):
                    best = (per, run)
        if best:
            if lit:
                segs.append(nlist(bytes(lit))); lit = []
            segs.append("cyc %d %s" % (best[1], nlist(b[i:i + best[0]])))
            i += best[1]
        else:
            lit.append(b[i]); i += 1
    if lit:
        segs.append(nlist(bytes(lit)))
    return "(" + " ++ ".join(segs) + ")" if segs else "[]"


def out_term(tab, c, o):
    """the bytes received by the sink; when they are the expected framing of the chunks, written with the chunk names"""
    out = out_bytes(c, o) or b""
    if len(out) < 200:
        return nlist(out)
    chunks = [bytes.fromhex(x) for x in (o.get("chunks") or [])]
    w = c["writer"]
    if w == "json":
        parts = []
        for x in chunks:
            if x:
                parts += ([b",\n"] if parts else []) + [x]
        parts = [b"[\n"] + parts + [b"\n]\n"]
    else:
        parts = ([bytes.fromhex(o.get("header") or "")] if w == "csv" and chunks else []) + chunks
    if b"".join(parts) == out:
        return "(" + " ++ ".join(tab.ref(x) for x in parts if x) + ")"
    return tab.ref(out)


def case_term(tab, c, o):
    chunks = [bytes.fromhex(x) for x in (o.get("chunks") or [])]
    arrival = c["arrival"] if c.get("workers", 1) == 1 else list(range(nbatches(c)))
    return "mkc %s %s [%s] [%s] %s %d" % (
        KIND[c["writer"]], tab.ref(bytes.fromhex(o.get("header") or "")), "; ".join(tab.ref(x) for x in chunks),
        "; ".join(str(i) for i in arrival), out_term(tab, c, o), o["closes"])


def evaluate(ctx, cases, broken, label, corr_idx=None, fn="mismatches"):
    keep = set(corr_idx) if corr_idx is not None else None

    def post(i, c, o):
        why = check(c, o)
        if (why is None and keep is not None and i not in keep and not c.get("rich") and not c.get("want_recs")
                and 300 < i < len(cases) - 1):
            o = dict(kind=o.get("kind"), closes=o.get("closes"), closed_at_iter_end=o.get("closed_at_iter_end"))   # the rest is not looked at again
        o["_why"] = why
        return o
    obs = run_impl(ctx, cases, post=post)
    fails = [(i, o["_why"]) for i, o in enumerate(obs) if o.get("_why")]
    shown = set()
    for i, why in fails:
        key = (cases[i]["writer"], why[:30])
        if key in shown or len(shown) >= 8:
            continue
        shown.add(key)
        ob = dict(obs[i], out_text=(out_bytes(cases[i], obs[i]) or b"").decode("latin1")[:3000])
        for k in ("out", "chunks", "fchunks", "recs", "fields"):
            if len(json.dumps(ob.get(k) or "")) > 6000:
                ob[k] = "(%d bytes of hex omitted)" % len(json.dumps(ob[k]))
        ctx.violation("%s_oracle_%d" % (label, i), dict(property="C04", kind="direct-oracle", case=cases[i], why=why, implementation=ob,
                                                      expected="every batch once, in order, framed; closed once, before the result iterator ends"))
    idx = [i for i in (corr_idx if corr_idx is not None else range(len(cases)))
           if obs[i].get("kind") == "ok" and out_bytes(cases[i], obs[i]) is not None and not cases[i].get("no_close")]
    tab = Table()
    terms = [case_term(tab, cases[i], obs[i]) for i in idx]
    bad, err = ctx.correspond(label, IMPORTS + tab.defs(), terms, fn=fn, shard=400)
    if bad is None:
        broken.append(dict(kind="correspondence", detail=err))
        return obs, fails, []
    return obs, fails, [idx[i] for i in bad]


def nontrivial(c):
    return c["arrival"] != sorted(c["arrival"]) or 0 in (c.get("bytes") or c["sizes"]) or c.get("workers", 1) > 1


# ---------------------------------------------------------------- round 2: records, grammar, rows
def hexs(xs):
    return "[" + "; ".join(packed(bytes.fromhex(x)) for x in xs) + "]"


def fcase_term(c, o):
    out = out_bytes(c, o) or b""
    if c["writer"] == "json":
        return "FJson [%s] %s %s" % ("; ".join(hexs(b) for b in (o.get("recs") or [])), hexs(o.get("chunks") or []), packed(out))
    return "FCsv %s [%s] %s %s" % (hexs(o.get("hdr_fields") or []),
                                   "; ".join("[" + "; ".join(hexs(r) for r in b) + "]" for b in (o.get("fields") or [])),
                                   hexs(o.get("fchunks") or []), packed(out))


def rand_json_value(rng, depth=0):
    k = rng.randrange(9 if depth < 3 else 6)
    if k == 0:
        return rng.choice([0, -0.0, 1, -12, 3.5, 1e22, -2.5e-7, 10, 120, 0.001])
    if k == 1:
        return rng.choice([True, False, None])
    if k in (2, 3):
        return "".join(rng.choice(['a', 'Z', ' ', '"', '\\', '/', '\n', '\t', '\x01', 'é', '☃', '\u2028', '{', ']', ',', ':', 'u', '0']) for _ in range(rng.randrange(0, 6)))
    if k in (4, 5):
        return rng.choice([[], {}, "", 0, [[]], [{}], {"": {}}])
    if k in (6, 7):
        return [rand_json_value(rng, depth + 1) for _ in range(rng.randrange(0, 4))]
    return {rng.choice(["k", "", "a b", 'q"', "é", "\\"]) + str(i): rand_json_value(rng, depth + 1) for i in range(rng.randrange(0, 4))}


def json_texts(rng, n):
    """(text, accepted by the reference parser json.loads): valid documents in several layouts and byte-level mutants."""
    hand = ['', ' ', '[]', '{}', '[1,]', '[,1]', '{"a":1,}', '{"a"}', '{"a":}', '{1:2}', '01', '-', '-0', '0.', '.5', '1e', '1e+', '1e+5', '1E-05', '1.0e5',
            '"a', '"\\u12G4"', '"\\u1234"', '"\\x"', '"\\/"', 'tru', 'true', 'truee', 'nul', 'null ', ' null', 'false', '[1 2]', '[1,2', '1 2', '[]]', '[[]', '{}}',
            '"\t"', '"\x7f"', '[\n\n]\n', '[\n  {},\n  {}\n]\n', '{"a":[1,{"b":null}],"c":"d"}', '[-]', '[1.5e3,-0.0e-0]', '"\\ud800"', '[true,false,null]', '\ufeff[]',
            '[1,\n2\r,\t3 ]', '{"a" : 1 , "b" : [ ] }', '/**/1', "'a'", '[1]x', 'x', '{"a":1 "b":2}', '{"a":1,,"b":2}', '[1,,2]', '00', '-01', '1.e1', '+1', '[+1]', '"\\"', '"\\\\"']
    res = []
    for t in hand:
        res.append(t.encode("utf8"))
    while len(res) < n:
        v = rand_json_value(rng)
        kw = rng.choice([dict(), dict(indent=2), dict(separators=(",", ":")), dict(ensure_ascii=False), dict(indent=1, ensure_ascii=False)])
        t = json.dumps(v, **kw)
        if rng.random() < 0.3:
            t = rng.choice(["", " ", "\n", "\t \r"]) + t + rng.choice(["", " ", "\n"])
        b = bytearray(t.encode("utf8"))
        if rng.random() < 0.6 and b:
            for _ in range(rng.randrange(1, 3)):
                i = rng.randrange(len(b))
                r = rng.random()
                if r < 0.35:
                    del b[i]
                elif r < 0.7:
                    b.insert(i, rng.choice(b' ,:"\\[]{}0123456789.eE+-tfn/u\n\x01a'))
                else:
                    b[i] = rng.choice(b' ,:"\\[]{}0123456789.eE+-tfn/u\n\x01a')
                if not b:
                    break
        res.append(bytes(b))
    out = []
    for b in res:
        try:
            t = b.decode("utf8")
        except UnicodeDecodeError:
            continue            # the recogniser does not check UTF-8 well-formedness
        if "N" in t or "I" in t:
            continue            # json.loads accepts NaN / Infinity, RFC 8259 does not
        try:
            json.loads(t)
            ok = True
        except Exception:
            ok = False
        out.append((b, ok))
    return out


def records_check(ctx, cases, obs, broken, rng):
    """FormatJSONBatch / FormatCVSBatch = model on the real records; the real output is one JSON text whose
    elements are the records (Coq recogniser), CSV rows decode to the fields; the recogniser itself agrees
    with json.loads on valid texts and mutants."""
    idx = [i for i, (c, o) in enumerate(zip(cases, obs)) if c["writer"] in ("json", "csv") and o.get("kind") == "ok"
           and not c.get("compressed") and (c.get("rich") or c.get("want_recs"))
           and len(o.get("out") or "") < 60000]
    rich = [i for i in idx if cases[i].get("rich")]
    plain = [i for i in idx if not cases[i].get("rich")]
    pick = rich[:400 if ctx.quick else 4000] + rng.sample(plain, min(len(plain), 300 if ctx.quick else 3000))
    terms = [fcase_term(cases[i], obs[i]) for i in pick]
    texts = json_texts(rng, 1500 if ctx.quick else 20000)
    terms += ["FText %s %s" % (nlist(b), "true" if ok else "false") for b, ok in texts]
    bad, err = ctx.correspond("records", IMPORTS, terms, fn="fmismatches", shard=250)
    ctx.cov["record_level_cases"] = len(pick)
    ctx.cov["recogniser_vs_json_loads_texts"] = "%d texts (%d valid)" % (len(texts), sum(1 for _, ok in texts if ok))
    if bad is None:
        broken.append(dict(kind="correspondence", detail=err))
        return
    for k in bad[:3]:
        if k < len(pick):
            i = pick[k]
            o = obs[i]
            broken.append(dict(kind="correspondence", name="corr:C04/%s/records" % cases[i]["writer"], first_diverging_case=cases[i],
                               implementation=dict(out_text=(out_bytes(cases[i], o) or b"").decode("latin1")[:2000], recs=o.get("recs"), fields=o.get("fields"),
                                                   hdr_fields=o.get("hdr_fields"), fchunks=o.get("fchunks")), n_diverging=len(bad)))
        else:
            b, ok = texts[k - len(pick)]
            broken.append(dict(kind="correspondence", name="corr:C04/json-recogniser-vs-json.loads",
                               first_diverging_case=dict(text=b.decode("utf8"), json_loads_accepts=ok), n_diverging=len(bad)))
    ctx.cov["record_level_mismatches"] = len(bad)


def run(ctx, broken):
    rng = ctx.rng
    nmax = 5 if ctx.quick else 6
    cases = list(CORPUS) + list(boundary_cases())
    n_corpus = len(cases)
    for n in range(0, nmax + 1):
        cases += list(exhaustive(n))
    n_exh = len(cases)
    if not ctx.quick:
        # 7 batches: every permutation x a sample of the subsets of empty batches
        for w in WRITERS:
            for perm in itertools.permutations(range(7)):
                for mask in {0, 127, rng.randrange(128), rng.randrange(128), 1 << rng.randrange(7)}:
                    cases.append(dict(writer=w, sizes=[0 if (mask >> i) & 1 else 1 for i in range(7)], arrival=list(perm), workers=1))
    n_rand = 400 if ctx.quick else 6000
    cases += [random_case(rng) for _ in range(n_rand)]
    # model evaluation: everything up to 4 batches, the corpus, the random cases, a sample of the rest
    small = [i for i, c in enumerate(cases) if nbatches(c) <= (4 if ctx.quick else 5) or i < n_corpus or i >= len(cases) - n_rand]
    rest = [i for i in range(len(cases)) if nbatches(cases[i]) > (4 if ctx.quick else 5) and n_corpus <= i < len(cases) - n_rand]
    corr_idx = sorted(small + rng.sample(rest, min(len(rest), 800 if ctx.quick else 6000)))
    plain = [i for i, c in enumerate(cases) if c["writer"] in ("json", "csv") and not c.get("rich") and not c.get("compressed") and not c.get("no_close")]
    for i in rng.sample(plain, min(len(plain), 300 if ctx.quick else 3000)):
        cases[i] = dict(cases[i], want_recs=True)
    obs, fails, mism = evaluate(ctx, cases, broken, "main", corr_idx)
    records_check(ctx, cases, obs, broken, rng)
    cli_check(ctx, broken)
    ctx.cov["evaluations"] = len(cases)
    ctx.cov["chunk_sizes_not_reachable"] = sum(1 for o in obs if o.get("kind") == "skip")
    ctx.cov["boundary_cases"] = "%d cases with chunk sizes given in bytes (4095/4096/4097 per chunk and in total, chunks > buffer on an empty buffer, zero-length chunks)" % sum(1 for c in cases if c.get("bytes"))
    ctx.cov["exhaustive"] = True
    ctx.cov["exhaustive_scope"] = "all arrival permutations of <=%d batches x all subsets of empty batches x 4 writers (%d histories)%s" % (
        nmax, n_exh - n_corpus, "" if ctx.quick else "; 7 batches: all 5040 permutations x sampled subsets")
    ctx.cov["distinct_nontrivial"] = len({json.dumps(to_vh(c), sort_keys=True) for c in cases if nontrivial(c)})
    ctx.cov["rule"] = ("non-trivial = the arrival order is not the identity (a chunk is buffered and later drained), or a batch is empty, "
                       "or several formatting workers race; distinct = distinct (writer, sizes, arrival, workers, compressed)")
    dist = {}
    for c in cases:
        k = "%s/n=%d/%s" % (c["writer"], nbatches(c), "w1" if c.get("workers", 1) == 1 else "wN")
        dist[k] = dist.get(k, 0) + 1
    ctx.cov["distribution"] = dist
    ctx.cov["compressed_cases"] = sum(1 for c in cases if c.get("compressed"))
    ctx.cov["sink_closed_when_result_iterator_ended"] = "%d of %d closing runs (required in every run; %d runs on a slow sink)" % (
        sum(1 for c, o in zip(cases, obs) if o.get("closed_at_iter_end") and not c.get("no_close")), sum(1 for c in cases if not c.get("no_close")),
        sum(1 for c in cases if c.get("slow_ms")))
    ctx.cov["oracle_failures"] = len(fails)
    ctx.cov["model_vs_impl_mismatches"] = len(mism)
    ctx.samples = [dict(case=c, out=(out_bytes(c, o) or b"").decode("latin1"), closes=o.get("closes")) for c, o in
                   [(cases[i], obs[i]) for i in (0, 1, len(CORPUS) - 30, n_corpus + 40, len(cases) - 1)]]
    if mism and not ctx.violations:
        more = [random_case(rng, 8) for _ in range(5000)]
        evaluate(ctx, more, [], "search", corr_idx=[])
        if not ctx.violations:
            i = mism[0]
            broken.append(dict(kind="correspondence", name="corr:C04/%s/bytes+closes" % cases[i]["writer"], first_diverging_case=cases[i],
                               implementation=obs[i], n_diverging=len(mism)))
    elif mism:
        ctx.cov["note"] = "model and implementation diverge on %d cases (violations reported by the direct oracle)" % len(mism)


# ---------------------------------------------------------------- the built commands (observe_at: obiconvert --json-output, obicsv)
def cli_check(ctx, broken):
    """obicsv / obiconvert --json-output, to stdout and to -o FILE (FILE exists already and is longer than the result):
    the file / stdout holds exactly one header + one row per record, resp. one JSON array of the records, in order."""
    bindir, err = ctx.build_cmds(["obiconvert", "obicsv"])
    if bindir is None:
        broken.append(dict(kind="cmd-build", detail=err))
        return
    d = os.path.join(vlib.BUILD, "c04_cli")
    os.makedirs(d, exist_ok=True)
    n = 7
    ids = ["s%d" % i for i in range(n)]
    fa = os.path.join(d, "in.fasta")
    with open(fa, "w") as f:
        f.write("".join(">%s\n%s\n" % (x, "acgt" * (3 + i)) for i, x in enumerate(ids)))
    runs = 0
    for cmd, kind in ((["obicsv", "-i", "-s"], "csv"), (["obiconvert", "--json-output"], "json")):
        for mode in ("stdout", "-o"):
            out = os.path.join(d, "out.%s.%s" % (kind, mode.strip("-")))
            with open(out, "wb") as f:
                f.write(b"X" * 20000)          # an older, longer result
            argv = [os.path.join(bindir, cmd[0]), "--no-progressbar", "--max-cpu", "2", "--batch-size", "2"] + cmd[1:] + [fa]
            try:
                if mode == "-o":
                    p = subprocess.run(argv + ["-o", out], stdout=subprocess.PIPE, stderr=subprocess.PIPE, timeout=60)
                    stdout = p.stdout
                else:
                    with open(out, "wb") as f:
                        p = subprocess.run(argv, stdout=f, stderr=subprocess.PIPE, timeout=60)
                    stdout = b""
                rc = p.returncode
            except subprocess.TimeoutExpired:
                rc, stdout = 124, b""
            runs += 1
            data = open(out, "rb").read()
            why = None
            if rc != 0:
                why = "exit status %d" % rc
            elif mode == "-o" and stdout.strip():
                why = "-o FILE is ignored: the result went to stdout (%d bytes)" % len(stdout)
            elif kind == "csv":
                try:
                    rows = list(csv.reader(io.StringIO(data.decode("utf8"), newline="")))
                except Exception as e:
                    rows = None
                if not rows or rows[0] != ["id", "sequence"] or [r[0] for r in rows[1:]] != ids:
                    why = "the output is not the header line followed by one row per record in order"
            else:
                try:
                    v = json.loads(data.decode("utf8"))
                    if not isinstance(v, list) or [r.get("id") for r in v] != ids:
                        why = "the JSON array does not hold one object per record in order"
                except Exception as e:
                    why = "the output is not valid JSON (%s)" % e
            if why:
                ctx.violation("cli_%s_%s" % (kind, mode.strip("-")), dict(property="C04", kind="cli", case=dict(argv=cmd, mode=mode), why=why, exit=rc,
                                                                          output_head=data[:300].decode("latin1"), output_tail=data[-120:].decode("latin1"),
                                                                          expected="header + %d rows / array of %d objects, nothing else" % (n, n)))
    ctx.cov["cli_runs"] = runs


def replay(ctx, rp):
    if rp.get("kind") == "cli":
        cli_check(ctx, [])
        print("replay: cli runs done; violations:", len(ctx.violations))
        return
    c = rp.get("case") or rp.get("first_diverging_case")
    obs, fails, mism = evaluate(ctx, [c], [], "replay")
    print("replay:", c, "->", (out_bytes(c, obs[0]) or b"").decode("latin1").__repr__(), "closes", obs[0].get("closes"),
          "| oracle:", fails[0][1] if fails else "ok", "| model:", "mismatch" if mism else "agrees")
