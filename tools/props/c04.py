"""C04 — writers emit every batch once, in order, as well-formed FASTA/FASTQ/JSON/CSV."""
import json, itertools, csv, io, gzip, os, subprocess
from concurrent.futures import ThreadPoolExecutor
import vlib

PROPS = ["C04/Props.v"]
META = dict(
    text="Rocq theorems over an executable transcription of the re-sequencing writer loop shared by WriteSeqFileChunk (FASTA/FASTQ), WriteJSON and WriteCSV: for every list of formatted chunks (empty ones included) and EVERY arrival permutation the device receives concat(chunks) (FASTA/FASTQ), '[\\n' + join ',\\n' (non-empty chunks) + '\\n]\\n' (JSON) or header + rows (CSV), followed by exactly one Close. Over RECORDS (round 2): FormatJSONBatch and FormatCVSBatch are inside the model; C04_json_is_array: if every record is a serialised JSON object (executable RFC 8259 recogniser written as a pushdown automaton, Json.v) then for every batch partition and arrival permutation the output is ONE grammatical JSON text, an array whose elements are exactly the records of all batches in order; C04_csv_rows / C04_csv_rows_decodable; completion order (C04_iter_end_implies_sink_closed). Round 3, the glue (Glue.v): WriteSeqFileChunk driven with arbitrary chunks closing or not closing its sink (C04_chunk_writer_any_permutation); the *ToFile entry points: the file holds afterwards exactly the framed batches, after its former content iff appending (C04_file_truncated_or_appended, C04_paired_files for the mates' file); the universal writer WriteSequence, whose format is read off the first batch WITH SEQUENCE DATA that arrives: on a stream whose reads agree about qualities the output is that format's chunks in order for every arrival order and every set of empty batches, zero-length reads included (C04_universal_homogeneous, C04_universal_fastq_stream; the unrepaired decision is refuted: C04_universal_orig_first_record_refuted) and an input without any batch is still closed once (C04_universal_no_batch_closes); CSVHeader/CSVRecord under every column option give a rectangular table that decodes to header + one row per record (C04_csv_rectangular, C04_csv_table); obicsv --auto proposes the keys of batch 0, sorted, without duplicates, independent of the arrival order (C04_auto_columns_arrival_independent, C04_auto_columns_sorted). Tied to the code on every run: the real writers are driven with one formatting worker and an input iterator delivering the batches in every permutation of <=5 (thorough <=6, sampled 7) batch numbers x every subset of empty batches into an in-memory io.WriteCloser counting Close (also: slow sink, OptionDontCloseFile, chunk sizes around the 4096-byte buffer, records with quotes/commas/newlines/non-ASCII/control characters/percent signs/many attribute types/qualities/zero-length sequences/taxonomic annotations, batch 0 arriving after 7..11 others, 150-batch streams through 8 workers); WriteSeqFileChunk and the universal writer with every permutation of <=4 batches x every subset of empty ones; WriteFasta/Fastq/JSON/CSV/SequencesToFile and ...ToStdout in process (existing longer file, append, paired, compressed; the files are read when the result iterator ends); OpenWritingFile; all 2^8 combinations of the CSV column options and --auto under every permutation of <=3 batches. Bytes, close counts, file contents, header and rows are compared with the models (vm_compute) and with a Python oracle (json.loads / encoding/json / csv.reader / an independent computation of the CSV columns). 65 command-line runs (obiconvert in its four output formats and obicsv with four option sets; stdout, -o over an existing longer file, --compress, 1..4 CPUs, --paired-with, empty input) must give identical bytes within each (input, format) group, holding the records in order with the columns asked for.",
    note="Trusted: Coq kernel + vm_compute; harness and generators; the Wfile/bufio layer is a pass-through in this model (its failure behaviour is C18). JSONRecord (go-json MarshalIndent + unescaping) is not modelled: that each record is a JSON object is the HYPOTHESIS of C04_json_is_array, discharged per run by evaluating the recogniser on the real records (and by json.loads); FormatFastaBatch/FormatFastqBatch are taken as the source of the chunks (with OptionsSkipEmptySequence a zero-length sequence contributes nothing: checked by the oracle on the ids). CSVRecord/CSVHeader are modelled over the string form of the values (fmt %v is the harness's). The recogniser does not check UTF-8 well-formedness and json_array_objects only accepts arrays of objects/arrays. The CSV line model follows encoding/csv's Writer; the CSV reader of the round-trip theorem is the model's own (Go's reader skips empty lines: a table with ONE column and an empty value is written as a blank line, which most readers skip - observation, outside the statement). Completion order: goroutines are abstracted to the closing script [ChanClose; WaitWriter; IterClose]. With several formatting workers the arrival order is not observable: those cases are compared with the model under the identity arrival; for paired files the model takes the arrival order of the second writer equal to the first one's (one worker). OptionDontCloseFile runs are checked by the oracle only. Outside the property: a stream mixing records with and without qualities makes the universal writer's format depend on the arrival order (no command produces one); the re-sequencing map has no size limit (observation: memory, not output). Not exercised: the log.Fatalf branches after a failed Write/Close/OpenFile in WriteSeqFileChunkDone, WriteJSON, WriteCSV and the *ToFile functions (failing devices are C18's subject); FormatFasta on a nil or zero-length sequence (FormatFastaBatch never passes one), FormatFastq (no caller), the log.Fatalf of FormatFastaBatch/FormatFastqBatch on a zero-length sequence without --skip-empty (terminates the command: no output to judge), the two log.Panicf of JSONRecord (go-json failing on a map of strings: unreachable with the values SetAttribute accepts). The readers drop zero-length reads, so those reach the writers only in process. The unrepaired WriteJSON is kept as json_writer_orig with C04_json_orig_refuted.")
TRUSTED = ["JSONRecord / FormatFastaBatch / FormatFastqBatch produce the records resp. chunks (not modelled); 'every record is a JSON object' is a hypothesis discharged on the real records on every run (Coq recogniser + json.loads)",
           "JSON recogniser Json.v written by hand from RFC 8259 (no UTF-8 validation), compared with Python's json.loads on valid and mutated texts on every run",
           "encoding/csv Writer line syntax transcribed by hand (Csv.v), tied by the correspondence run on the real FormatCVSBatch; CSVHeader/CSVRecord transcribed (Glue.v) over stringified values, tied by the correspondence on the real functions under all column options",
           "completion order: Go channel / WaitGroup semantics abstracted to a 3-action closing script",
           "os.OpenFile flags modelled as truncate-or-append of a byte list (Glue.file_after); SortBatches (obicsv --auto) modelled as the proved resequencer Common/Reseq"]

WRITERS = ["fasta", "fastq", "json", "csv"]
KIND = dict(fasta="KFasta", fastq="KFastq", json="KJson", csv="KCsv")
IMPORTS = ("From Coq Require Import NArith List. Import ListNotations.\n"
           "From OBI.C04 Require Import Model.\n")

# corpus: hand-written boundary cases and the minimised witnesses of the WriteJSON defect (always first)
CORPUS = [
    dict(writer="json", sizes=[1, 1], arrival=[1, 0], workers=1, tag="fixed:json-no-separator-between-drained-chunks"),
    dict(writer="json", sizes=[1, 0, 1], arrival=[0, 1, 2], workers=1, tag="fixed:json-stray-separator-empty-batch"),
    dict(writer="json", sizes=[0, 1], arrival=[0, 1], workers=1, tag="fixed:json-leading-separator"),
    dict(writer="json", sizes=[1, 1, 1], arrival=[1, 0, 2], workers=1, tag="fixed:json-drain"),
    dict(writer="json", sizes=[1, 1, 1], arrival=[2, 1, 0], workers=1),
    dict(writer="json", sizes=[], arrival=[], workers=1),
    dict(writer="json", sizes=[0], arrival=[0], workers=1),
    dict(writer="json", sizes=[0, 0, 0], arrival=[2, 0, 1], workers=1),
    dict(writer="json", sizes=[2, 3], arrival=[1, 0], workers=1),
    dict(writer="csv", sizes=[], arrival=[], workers=1),
    dict(writer="csv", sizes=[0], arrival=[0], workers=1),
    dict(writer="csv", sizes=[0, 2], arrival=[1, 0], workers=1),
    dict(writer="csv", sizes=[2, 1, 2], arrival=[2, 1, 0], workers=1),
    dict(writer="fasta", sizes=[], arrival=[], workers=1),
    dict(writer="fasta", sizes=[2, 0, 3, 1], arrival=[3, 1, 2, 0], workers=1),
    dict(writer="fastq", sizes=[2, 0, 3, 1], arrival=[1, 3, 0, 2], workers=1),
    dict(writer="fastq", sizes=[], arrival=[], workers=1),
    # round 2 --- records with quotes / commas / newlines / leading blanks / non-ASCII text (FormatJSONBatch, FormatCVSBatch modelled)
    dict(writer="json", sizes=[3, 0, 4, 2], arrival=[3, 1, 0, 2], workers=1, rich=True),
    dict(writer="csv", sizes=[3, 0, 4, 2], arrival=[3, 1, 0, 2], workers=1, rich=True),
    dict(writer="csv", sizes=[0, 0, 5], arrival=[2, 0, 1], workers=1, rich=True),
    dict(writer="json", sizes=[8, 8, 8], arrival=[2, 1, 0], workers=1, rich=True),
    dict(writer="csv", sizes=[8, 8, 8], arrival=[2, 1, 0], workers=1, rich=True),
    dict(writer="fasta", sizes=[3, 2], arrival=[1, 0], workers=1, rich=True),
    # JSONRecord's unescaping step: control characters and backslash-u in the data
    dict(writer="json", sizes=[1], arrival=[0], workers=1, rich=True, ctl=True, tag="fixed:json-record-unescape (definition C:\\users\\me: panic)"),
    dict(writer="json", sizes=[0, 1], arrival=[0, 1], workers=1, rich=True, ctl=True, tag="fixed:json-record-unescape (raw control character inside a string)"),
    dict(writer="json", sizes=[0, 0, 1], arrival=[0, 1, 2], workers=1, rich=True, ctl=True, tag="fixed:json-record-unescape (backslash-u-0041 in the data becomes the invalid escape backslash-A)"),
    dict(writer="csv", sizes=[2, 2], arrival=[1, 0], workers=1, rich=True, ctl=True),
    # completion order: a slow sink makes 'the result iterator ended before the sink was closed' deterministic
    dict(writer="fasta", sizes=[1, 1], arrival=[1, 0], workers=1, slow_ms=15, tag="fixed:result-iterator-ends-before-sink-closed"),
    dict(writer="fastq", sizes=[1, 1], arrival=[0, 1], workers=1, slow_ms=15, tag="fixed:result-iterator-ends-before-sink-closed"),
    dict(writer="json", sizes=[1, 1], arrival=[0, 1], workers=1, slow_ms=15, tag="fixed:result-iterator-ends-before-sink-closed"),
    dict(writer="csv", sizes=[1, 1], arrival=[1, 0], workers=1, slow_ms=15, tag="fixed:result-iterator-ends-before-sink-closed"),
    dict(writer="fasta", sizes=[], arrival=[], workers=1, slow_ms=15),
    dict(writer="json", sizes=[2, 1, 1], arrival=[0, 1, 2], workers=3, slow_ms=5),
    # OptionDontCloseFile: every byte must still reach the sink, which stays open
    dict(writer="fasta", sizes=[1, 1], arrival=[0, 1], workers=1, no_close=True, tag="fixed:dont-close-never-flushes"),
    dict(writer="fastq", sizes=[2, 0, 1], arrival=[2, 1, 0], workers=1, no_close=True, tag="fixed:dont-close-never-flushes"),
    dict(writer="json", sizes=[1, 1], arrival=[1, 0], workers=1, no_close=True),
    dict(writer="csv", sizes=[1, 1], arrival=[1, 0], workers=1, no_close=True),
    dict(writer="fasta", bytes=[5000, 4096], arrival=[1, 0], workers=1, no_close=True, tag="fixed:dont-close-never-flushes"),
    dict(writer="fasta", sizes=[2, 1], arrival=[1, 0], workers=1, no_close=True, compressed=True, tag="fixed:dont-close-never-flushes (gzip trailer)"),
]
# chunk sizes around the 4096-byte buffer of bufio: per chunk and in total; chunks larger than the
# buffer arriving when it is empty; zero-length chunks everywhere
BOUNDARY = [
    ([4095], [0]), ([4096], [0]), ([4097], [0]), ([0, 4096, 0], [2, 1, 0]), ([0, 0, 4097], [2, 0, 1]),
    ([4095, 4096, 4097, 0], [3, 1, 0, 2]), ([2048, 2047], [1, 0]), ([2048, 2048], [1, 0]), ([2048, 2049], [0, 1]),
    ([4000, 95], [0, 1]), ([4000, 96, 0], [1, 0, 2]), ([4000, 97], [1, 0]), ([100, 3996, 1], [2, 1, 0]),
    ([9000], [0]), ([0, 9000, 0, 100], [0, 1, 2, 3]), ([100, 9000], [1, 0]), ([8192, 0, 8193], [2, 1, 0]),
    ([1365, 1365, 1366], [2, 0, 1]), ([4096, 4096], [1, 0]), ([60, 0, 0, 4036], [3, 2, 1, 0]),
]


def boundary_cases():
    for w in WRITERS:
        for sizes, arr in BOUNDARY:
            if w == "csv" and sizes[0] and sizes[0] < 40:
                continue
            yield dict(writer=w, bytes=sizes, arrival=arr, workers=1)


def exhaustive(n, writers=WRITERS):
    for w in writers:
        for perm in itertools.permutations(range(n)):
            for mask in range(1 << n):
                yield dict(writer=w, sizes=[0 if (mask >> i) & 1 else 1 for i in range(n)], arrival=list(perm), workers=1)


def random_case(rng, nmax=7, workers=None):
    n = rng.randrange(0, nmax + 1)
    arr = list(range(n))
    wk = workers if workers is not None else (1 if rng.random() < 0.6 else rng.randrange(2, 9))
    if wk == 1:
        rng.shuffle(arr)
    c = dict(writer=rng.choice(WRITERS), sizes=[rng.choice([0, 0, 1, 1, 2, 3]) for _ in range(n)], arrival=arr, workers=wk,
             compressed=(rng.random() < 0.1))
    if rng.random() < 0.35:
        c["rich"] = True
    if rng.random() < 0.08:
        c["slow_ms"] = rng.choice([1, 3, 8])
    if rng.random() < 0.05:
        c["no_close"] = True
    if rng.random() < 0.12 and n:
        # chunk sizes in bytes around the 4096-byte buffer, zero-length chunks anywhere
        c["bytes"] = [rng.choice([0, 0, 60, 1000, 2048, 4095, 4096, 4097, 4100, 8191, 8192, 8193, rng.randrange(40, 9000)]) for _ in range(n)]
        if c["writer"] == "csv" and 0 < c["bytes"][0] < 40:
            c["bytes"][0] = 60
        c.pop("rich", None)
    return c


def nbatches(c):
    if c.get("raw_chunks") is not None:
        return len(c["raw_chunks"])
    return len(c["bytes"]) if c.get("bytes") else len(c["sizes"])


def eff_writer(c):
    """the format the universal writer must choose: FASTQ iff the records carry qualities"""
    if c.get("writer") == "auto":
        return "fastq" if c.get("qual") else "fasta"
    return c.get("writer")


def to_vh(c):
    d = dict(writer=c.get("writer", ""), sizes=c.get("sizes") or [], arrival=c["arrival"], workers=c.get("workers", 1), compressed=bool(c.get("compressed")))
    for k in ("bytes", "rich", "ctl", "slow_ms", "no_close", "want_recs", "mode", "qual", "empty_seq", "tax", "var", "csv",
              "append", "paired", "old", "raw_chunks", "to_be_closed"):
        if c.get(k):
            d[k] = c[k]
    return d


def run_impl(ctx, cases, nproc=8, post=None):
    """Run the real writers; the cases are split over a few harness processes. [post(i, case, obs)] is applied
    to every observation as soon as its part is back (oracle + dropping of the bulky fields: memory)."""
    vc = [to_vh(c) for c in cases]

    def part(lo, hi, tmo):
        r = ctx.vh_robust("c04", vc[lo:hi], timeout=tmo, one_timeout=15)
        if post:
            r = [post(lo + j, cases[lo + j], o) for j, o in enumerate(r)]
        return r
    if len(vc) < 400:
        return part(0, len(vc), 300)
    k = 4000 if len(vc) > 32000 else (len(vc) + nproc - 1) // nproc
    bounds = [(i, min(i + k, len(vc))) for i in range(0, len(vc), k)]
    with ThreadPoolExecutor(max_workers=nproc) as ex:
        res = list(ex.map(lambda b: part(b[0], b[1], 900), bounds))
    return [o for r in res for o in r]


def out_bytes(c, o):
    b = bytes.fromhex(o.get("out") or "")
    if c.get("compressed"):
        try:
            return gzip.decompress(b) if b else b""
        except Exception:
            return None
    return b


def gunzip(b):
    try:
        return gzip.decompress(b) if b else b""
    except Exception:
        return None


def py_csv_header(c):
    f = c.get("csv") or ""
    keys = (["k", "n", "absent"] if c.get("rich") else []) + (["n", "f", "ok", "absent", "scientific_name", "k"] if "k" in f else [])
    return f, keys


def check_csv_records(c, o, hdr, want):
    """independent oracle of CSVHeader / CSVRecord: the columns the options ask for, in the documented order;
    one value per column in every row (map-valued attributes: not compared)."""
    f, keys = py_csv_header(c)
    h = lambda x: bytes.fromhex(x).decode("utf8")
    info = [r for b in (o.get("info") or []) for r in b]
    if "a" in f:
        b0 = (o.get("info") or [[]])[0] if o.get("info") else []
        auto = sorted({h(k) for r in b0 for k in r["attrs"] if k not in r["maps"]}, key=lambda x: x.encode("utf8"))
        keys = keys + auto
    na = "-" if "N" in f else "NA"
    cols = ([] if "i" in f else ["id"]) + (["count"] if "c" in f or c.get("rich") else []) + (["taxid", "scientific_name"] if "t" in f else []) + \
           (["definition"] if "d" in f or c.get("rich") else []) + keys + ([] if "s" in f else ["sequence"]) + (["quality"] if "q" in f else [])
    if hdr != cols:
        return "CSV header %r instead of %r" % (hdr, cols)
    if len(info) != len(want):
        return None
    for r, row in zip(info, want):
        if len(row) != len(cols):
            return "a CSV row has %d fields, the header %d" % (len(row), len(cols))
        exp = []
        if "i" not in f:
            exp.append(h(r["id"]))
        if "c" in f or c.get("rich"):
            exp.append(str(r["count"]))
        if "t" in f:
            exp += [str(r["taxid"]), h(r["sn"]) if r["has_sn"] else ("root" if r["taxid"] == 1 else na)]
        if "d" in f or c.get("rich"):
            exp.append(h(r["def"]))
        for k in keys:
            hk = k.encode("utf8").hex()
            exp.append(None if hk in r["maps"] else (h(r["attrs"][hk]) if hk in r["attrs"] else na))
        if "s" not in f:
            exp.append(h(r["seq"]))
        if "q" in f:
            exp.append(h(r["qual"]) if r["has_q"] else na)
        for a, b in zip(exp, row):
            if a is not None and a != b:
                return "CSV row %r instead of %r" % (row, exp)
    return None


def check_content(c, o, w, out, chunks, ids, header, main=True):
    """the bytes [out] are the framing of [chunks] for writer [w]; main: the record-level clauses as well"""
    if w in ("fasta", "fastq"):
        if out != b"".join(chunks):
            return "bytes differ from the concatenation of the batches in order"
        lines = out.decode("utf8", "replace").split("\n")
        if w == "fasta":
            got = [l[1:].split(" ")[0] for l in lines if l.startswith(">")]
        else:
            got = [l[1:].split(" ")[0] for l in lines[0::4] if l]
        if main and got != ids:
            return "record ids %r instead of %r" % (got, ids)
        if main and o.get("recs") is not None and out != b"".join(bytes.fromhex(x) for rl in o["recs"] for x in rl):
            return "the output is not the text of every record that has a sequence, once, in order"
        return None
    if w == "json":
        try:
            v = json.loads(out.decode("utf8"))
        except Exception as e:
            return "output is not valid JSON (%s)" % e
        if not isinstance(v, list) or (main and [r.get("id") if isinstance(r, dict) else None for r in v] != ids):
            return "JSON array does not hold one object per record in order"
        recs = [bytes.fromhex(x) for b in (o.get("recs") or []) for x in b]
        try:
            if main and o.get("recs") is not None and [json.loads(r.decode("utf8")) for r in recs] != v:
                return "the elements of the JSON array are not the serialised records in order"
        except Exception as e:
            return "a serialised record is not valid JSON (%s)" % e
        if main and not c.get("mode") and not c.get("compressed") and (not o.get("json_ok") or o.get("json_ids") != ids):
            return "encoding/json rejects the output or reads other ids"
        if out != b"[\n" + b",\n".join(x for x in chunks if x) + b"\n]\n":
            return "bytes differ from '[\\n' + join(',\\n', non-empty batches) + '\\n]\\n'"
        return None
    if w == "csv":
        if nbatches(c) == 0:
            return None if not out else "no batch, yet %d bytes were written" % len(out)
        rows = list(csv.reader(io.StringIO(out.decode("utf8"), newline="")))
        hdr = [bytes.fromhex(x).decode("utf8") for x in (o.get("hdr_fields") or [])]
        if len(hdr) == 1:
            rows = [r if r else [""] for r in rows]     # encoding/csv writes a lone empty field as a blank line (observation, see META)
        if not main and "a" in str(c.get("csv") or ""):
            # --auto columns of the file of the mates are proposed from ITS batch 0 (the mates carry other attribute sets than
            # the forward reads): the harness cannot precompute them; demanded here: one header line, every row as wide, one
            # row per mate (C04_csv_rectangular / C04_csv_table on the mates' own column set)
            nrec = sum(len(b) for b in (o.get("info") or []))
            if not rows or any(len(r) != len(rows[0]) for r in rows) or len(rows) - 1 != nrec:
                return "auto columns: the file is not one header line plus one row of the same width per mate"
            return None
        if not rows or rows[0] != hdr:
            return "first line is not the header"
        if main and hdr[:1] == ["id"] and [r[0] if r else None for r in rows[1:]] != ids:
            return "rows %r instead of %r" % ([r[0] if r else None for r in rows[1:]], ids)
        want = [[bytes.fromhex(x).decode("utf8") for x in r] for b in (o.get("fields") or []) for r in b]
        if main and rows[1:] != want:
            return "the rows read back by a CSV reader are not the fields of the records in order"
        if main:
            why = check_csv_records(c, o, hdr, want)
            if why:
                return why
        if out != header + b"".join(chunks):
            return "bytes differ from header + rows of the batches in order"
        return None
    return "unknown writer"


def file_bodies(c, o):
    """file / stdout mode: [(what, body bytes or None, chunks)] for the forward (and reverse) file, the old content
    stripped when appending; a reason instead when a file is not old ++ new / new"""
    res = []
    olds = [bytes.fromhex(x) for x in (o.get("old_hex") or [])]
    for k, hx in enumerate(o.get("files_final") or []):
        data = bytes.fromhex(hx)
        what = "reverse file" if k else "file"
        if (o.get("files") or [None, None])[k] != hx:
            return "the %s was not complete when the result iterator ended (%d bytes then, %d after the last pipe)" % (
                what, len((o.get("files") or ["", ""])[k]) // 2, len(data))
        old = olds[k] if k < len(olds) else b""
        if c.get("append"):
            if data[:len(old)] != old:
                return "append: the %s does not start with its former content" % what
            data = data[len(old):]
        if c.get("compressed"):
            data = gunzip(data)
            if data is None:
                return "the %s is not a valid gzip stream (an older, longer content left in place?)" % what
        res.append((what, data, [bytes.fromhex(x) for x in (o.get("rchunks" if k else "chunks") or [])]))
    return res


def check(c, o):
    """Direct oracle: the statement of C04 evaluated on what the implementation did. Returns None or a reason."""
    if o.get("kind") == "skip":
        return None       # a chunk of exactly that many bytes cannot be formed (counted in the coverage)
    if o.get("kind") != "ok":
        return "writer did not terminate / crashed: %s" % (o.get("err") or o.get("kind"))
    mode = c.get("mode")
    if mode == "chunks":
        if o["closes"] != (1 if c.get("to_be_closed") else 0):
            return "WriteSeqFileChunk(toBeClosed=%s): the sink was closed %d times" % (bool(c.get("to_be_closed")), o["closes"])
        if o.get("late_writes"):
            return "write after Close"
        if bytes.fromhex(o.get("out") or "") != b"".join(bytes.fromhex(x) for x in c["raw_chunks"]):
            return "bytes differ from the concatenation of the chunks in order"
        return None
    if mode == "wfile":
        data = bytes.fromhex((o.get("files") or [""])[0])
        old = bytes.fromhex((o.get("old_hex") or [""])[0])
        if o.get("err"):
            return "OpenWritingFile/Write/Close error: " + o["err"]
        if c.get("append"):
            if data[:len(old)] != old:
                return "append: the file does not start with its former content"
            data = data[len(old):]
        if c.get("compressed"):
            data = gunzip(data)
            if data is None:
                return "the file is not a valid gzip stream (an older, longer content left in place?)"
        if data != b"".join(bytes.fromhex(c["raw_chunks"][k]) for k in c["arrival"]):
            return "the file does not hold exactly the bytes written (an existing file is not truncated?)"
        return None
    ids = o.get("ids") or []
    w = eff_writer(c)
    if w in ("fasta", "fastq") and o.get("empty_ids"):
        ids = [x for x in ids if x not in set(o["empty_ids"])]     # OptionsSkipEmptySequence
    header = bytes.fromhex(o.get("header") or "")
    if mode in ("file", "stdout"):
        fb = file_bodies(c, o)
        if isinstance(fb, str):
            return fb
        if len(fb) != (2 if c.get("paired") else 1):
            return "%d output files" % len(fb)
        for k, (what, body, chunks) in enumerate(fb):
            why = check_content(c, o, w, body, chunks, ids, header, main=(k == 0))
            if why:
                return "%s: %s" % (what, why)
        return None
    if c.get("no_close"):
        if o["closes"] != 0:
            return "OptionDontCloseFile: the sink was closed %d times" % o["closes"]
    else:
        if o["closes"] != 1:
            return "output closed %d times" % o["closes"]
        if not o.get("closed_at_iter_end"):
            return "the result iterator ended before the sink was closed (a caller draining the returned iterator finds an incomplete, open output)"
    if o.get("late_writes"):
        return "write after Close"
    out = out_bytes(c, o)
    if out is None:
        return "compressed output is not a valid gzip stream"
    chunks = [bytes.fromhex(x) for x in (o.get("chunks") or [])]
    return check_content(c, o, w, out, chunks, ids, header)


class Table:
    """chunk bytes -> name of a Gallina definition (keeps the generated files small)"""
    def __init__(self):
        self.names = {}

    def ref(self, b):
        if not b:
            return "[]"
        if b not in self.names:
            self.names[b] = "K%d" % len(self.names)
        return self.names[b]

    def defs(self):
        return "".join("Definition %s : list N := %s.\n" % (n, packed(b)) for b, n in self.names.items())


def nlist(b):
    return "[" + ";".join(str(x) for x in b) + "]%N" if b else "[]"


def packed(b):
    """Gallina term for a byte string; long periodic runs (sequence / quality lines) as [cyc n pattern]"""
    if len(b) < 200:
        return nlist(b)
    segs, lit, i, n = [], [], 0, len(b)
    while i < n:
        best = None
        if n - i >= 60:
            for per in (1, 4, 20, 61):
                if i + 2 * per > n or b[i:i + per] != b[i + per:i + 2 * per]:
                    continue
                run = 2 * per
                while i + run < n and b[i + run] == b[i + run - per]:
                    run += 1
                if run >= 60 and (best is None or run > best[1]):
                    best = (per, run)
        if best:
            if lit:
                segs.append(nlist(bytes(lit))); lit = []
            segs.append("cyc %d %s" % (best[1], nlist(b[i:i + best[0]])))
            i += best[1]
        else:
            lit.append(b[i]); i += 1
    if lit:
        segs.append(nlist(bytes(lit)))
    return "(" + " ++ ".join(segs) + ")" if segs else "[]"


def out_term(tab, c, o):
    """the bytes received by the sink; when they are the expected framing of the chunks, written with the chunk names"""
    out = out_bytes(c, o) or b""
    if len(out) < 200:
        return nlist(out)
    chunks = [bytes.fromhex(x) for x in (o.get("chunks") or [])]
    w = c["writer"]
    if w == "json":
        parts = []
        for x in chunks:
            if x:
                parts += ([b",\n"] if parts else []) + [x]
        parts = [b"[\n"] + parts + [b"\n]\n"]
    else:
        parts = ([bytes.fromhex(o.get("header") or "")] if w == "csv" and chunks else []) + chunks
    if b"".join(parts) == out:
        return "(" + " ++ ".join(tab.ref(x) for x in parts if x) + ")"
    return tab.ref(out)


def case_term(tab, c, o):
    chunks = [bytes.fromhex(x) for x in (o.get("chunks") or [])]
    arrival = c["arrival"] if c.get("workers", 1) == 1 else list(range(nbatches(c)))
    return "mkc %s %s [%s] [%s] %s %d" % (
        KIND[c["writer"]], tab.ref(bytes.fromhex(o.get("header") or "")), "; ".join(tab.ref(x) for x in chunks),
        "; ".join(str(i) for i in arrival), out_term(tab, c, o), o["closes"])


def evaluate(ctx, cases, broken, label, corr_idx=None, fn="mismatches"):
    keep = set(corr_idx) if corr_idx is not None else None

    def post(i, c, o):
        try:
            why = check(c, o)
        except Exception as e:
            why = "the output cannot be analysed (%r)" % e
        if (why is None and keep is not None and i not in keep and not c.get("rich") and not c.get("want_recs") and not is_glue(c)
                and 300 < i < len(cases) - 1):
            o = dict(kind=o.get("kind"), closes=o.get("closes"), closed_at_iter_end=o.get("closed_at_iter_end"))   # the rest is not looked at again
        o["_why"] = why
        return o
    import time
    t0 = time.time()
    obs = run_impl(ctx, cases, post=post)
    ctx.cov.setdefault("impl_wall_s", round(time.time() - t0, 1))
    fails = [(i, o["_why"]) for i, o in enumerate(obs) if o.get("_why")]
    shown = set()
    for i, why in fails:
        key = (cases[i].get("writer") or cases[i].get("mode"), why[:30])
        if key in shown or len(shown) >= 8:
            continue
        shown.add(key)
        ob = dict(obs[i], out_text=(out_bytes(cases[i], obs[i]) or b"").decode("latin1")[:3000])
        for k in ("out", "chunks", "fchunks", "recs", "fields"):
            if len(json.dumps(ob.get(k) or "")) > 6000:
                ob[k] = "(%d bytes of hex omitted)" % len(json.dumps(ob[k]))
        ctx.violation("%s_oracle_%d" % (label, i), dict(property="C04", kind="direct-oracle", case=cases[i], why=why, implementation=ob,
                                                      expected="every batch once, in order, framed; closed once, before the result iterator ends"))
    idx = [i for i in (corr_idx if corr_idx is not None else range(len(cases)))
           if obs[i].get("kind") == "ok" and out_bytes(cases[i], obs[i]) is not None and not cases[i].get("no_close")
           and not cases[i].get("mode") and cases[i].get("writer") in KIND]
    tab = Table()
    terms = [case_term(tab, cases[i], obs[i]) for i in idx]
    bad, err = ctx.correspond(label, IMPORTS + tab.defs(), terms, fn=fn, shard=400)
    if bad is None:
        broken.append(dict(kind="correspondence", detail=err))
        return obs, fails, []
    return obs, fails, [idx[i] for i in bad]


def nontrivial(c):
    if c.get("raw_chunks") is not None:
        return c["arrival"] != sorted(c["arrival"]) or "" in c["raw_chunks"] or bool(c.get("old"))
    return c["arrival"] != sorted(c["arrival"]) or 0 in (c.get("bytes") or c["sizes"]) or c.get("workers", 1) > 1 or bool(c.get("old"))


# ---------------------------------------------------------------- round 2: records, grammar, rows
def hexs(xs):
    return "[" + "; ".join(packed(bytes.fromhex(x)) for x in xs) + "]"


def fcase_term(c, o):
    out = out_bytes(c, o) or b""
    if c["writer"] == "json":
        return "FJson [%s] %s %s" % ("; ".join(hexs(b) for b in (o.get("recs") or [])), hexs(o.get("chunks") or []), packed(out))
    return "FCsv %s [%s] %s %s" % (hexs(o.get("hdr_fields") or []),
                                   "; ".join("[" + "; ".join(hexs(r) for r in b) + "]" for b in (o.get("fields") or [])),
                                   hexs(o.get("fchunks") or []), packed(out))


def rand_json_value(rng, depth=0):
    k = rng.randrange(9 if depth < 3 else 6)
    if k == 0:
        return rng.choice([0, -0.0, 1, -12, 3.5, 1e22, -2.5e-7, 10, 120, 0.001])
    if k == 1:
        return rng.choice([True, False, None])
    if k in (2, 3):
        return "".join(rng.choice(['a', 'Z', ' ', '"', '\\', '/', '\n', '\t', '\x01', 'é', '☃', '\u2028', '{', ']', ',', ':', 'u', '0']) for _ in range(rng.randrange(0, 6)))
    if k in (4, 5):
        return rng.choice([[], {}, "", 0, [[]], [{}], {"": {}}])
    if k in (6, 7):
        return [rand_json_value(rng, depth + 1) for _ in range(rng.randrange(0, 4))]
    return {rng.choice(["k", "", "a b", 'q"', "é", "\\"]) + str(i): rand_json_value(rng, depth + 1) for i in range(rng.randrange(0, 4))}


def json_texts(rng, n):
    """(text, accepted by the reference parser json.loads): valid documents in several layouts and byte-level mutants."""
    hand = ['', ' ', '[]', '{}', '[1,]', '[,1]', '{"a":1,}', '{"a"}', '{"a":}', '{1:2}', '01', '-', '-0', '0.', '.5', '1e', '1e+', '1e+5', '1E-05', '1.0e5',
            '"a', '"\\u12G4"', '"\\u1234"', '"\\x"', '"\\/"', 'tru', 'true', 'truee', 'nul', 'null ', ' null', 'false', '[1 2]', '[1,2', '1 2', '[]]', '[[]', '{}}',
            '"\t"', '"\x7f"', '[\n\n]\n', '[\n  {},\n  {}\n]\n', '{"a":[1,{"b":null}],"c":"d"}', '[-]', '[1.5e3,-0.0e-0]', '"\\ud800"', '[true,false,null]', '\ufeff[]',
            '[1,\n2\r,\t3 ]', '{"a" : 1 , "b" : [ ] }', '/**/1', "'a'", '[1]x', 'x', '{"a":1 "b":2}', '{"a":1,,"b":2}', '[1,,2]', '00', '-01', '1.e1', '+1', '[+1]', '"\\"', '"\\\\"']
    res = []
    for t in hand:
        res.append(t.encode("utf8"))
    while len(res) < n:
        v = rand_json_value(rng)
        kw = rng.choice([dict(), dict(indent=2), dict(separators=(",", ":")), dict(ensure_ascii=False), dict(indent=1, ensure_ascii=False)])
        t = json.dumps(v, **kw)
        if rng.random() < 0.3:
            t = rng.choice(["", " ", "\n", "\t \r"]) + t + rng.choice(["", " ", "\n"])
        b = bytearray(t.encode("utf8"))
        if rng.random() < 0.6 and b:
            for _ in range(rng.randrange(1, 3)):
                i = rng.randrange(len(b))
                r = rng.random()
                if r < 0.35:
                    del b[i]
                elif r < 0.7:
                    b.insert(i, rng.choice(b' ,:"\\[]{}0123456789.eE+-tfn/u\n\x01a'))
                else:
                    b[i] = rng.choice(b' ,:"\\[]{}0123456789.eE+-tfn/u\n\x01a')
                if not b:
                    break
        res.append(bytes(b))
    out = []
    for b in res:
        try:
            t = b.decode("utf8")
        except UnicodeDecodeError:
            continue            # the recogniser does not check UTF-8 well-formedness
        if "N" in t or "I" in t:
            continue            # json.loads accepts NaN / Infinity, RFC 8259 does not
        try:
            json.loads(t)
            ok = True
        except Exception:
            ok = False
        out.append((b, ok))
    return out


def records_check(ctx, cases, obs, broken, rng):
    """FormatJSONBatch / FormatCVSBatch = model on the real records; the real output is one JSON text whose
    elements are the records (Coq recogniser), CSV rows decode to the fields; the recogniser itself agrees
    with json.loads on valid texts and mutants."""
    idx = [i for i, (c, o) in enumerate(zip(cases, obs)) if c.get("writer") in ("json", "csv") and o.get("kind") == "ok" and not c.get("mode")
           and not c.get("compressed") and not c.get("no_close") and (c.get("rich") or c.get("want_recs"))
           and len(o.get("out") or "") < 60000]
    rich = [i for i in idx if cases[i].get("rich")]
    plain = [i for i in idx if not cases[i].get("rich")]
    pick = rich[:400 if ctx.quick else 4000] + rng.sample(plain, min(len(plain), 300 if ctx.quick else 3000))
    terms = [fcase_term(cases[i], obs[i]) for i in pick]
    texts = json_texts(rng, (100 if os.environ.get("VERIF_C04_FAST") else 1500) if ctx.quick else 20000)
    terms += ["FText %s %s" % (nlist(b), "true" if ok else "false") for b, ok in texts]
    bad, err = ctx.correspond("records", IMPORTS, terms, fn="fmismatches", shard=250)
    ctx.cov["record_level_cases"] = len(pick)
    ctx.cov["recogniser_vs_json_loads_texts"] = "%d texts (%d valid)" % (len(texts), sum(1 for _, ok in texts if ok))
    if bad is None:
        broken.append(dict(kind="correspondence", detail=err))
        return
    for k in bad[:3]:
        if k < len(pick):
            i = pick[k]
            o = obs[i]
            broken.append(dict(kind="correspondence", name="corr:C04/%s/records" % cases[i]["writer"], first_diverging_case=cases[i],
                               implementation=dict(out_text=(out_bytes(cases[i], o) or b"").decode("latin1")[:2000], recs=o.get("recs"), fields=o.get("fields"),
                                                   hdr_fields=o.get("hdr_fields"), fchunks=o.get("fchunks")), n_diverging=len(bad)))
        else:
            b, ok = texts[k - len(pick)]
            broken.append(dict(kind="correspondence", name="corr:C04/json-recogniser-vs-json.loads",
                               first_diverging_case=dict(text=b.decode("utf8"), json_loads_accepts=ok), n_diverging=len(bad)))
    ctx.cov["record_level_mismatches"] = len(bad)



# ---------------------------------------------------------------- round 3: the glue around the writers
GIMPORTS = IMPORTS + "From OBI.C04 Require Import Csv Glue.\n"
RAW_ALPHABET = [b"", b"", b"a", b"\n", b">x\nac\n", b"\x00\xff\x80", b"[\n", b",\n", b"\"q\",\"\"\n", bytes(range(250, 256)) * 3, b"@r\nac\n+\nII\n"]


def glue_corpus():
    """file / stdout entry points, the universal writer, WriteSeqFileChunk driven directly, OpenWritingFile,
    CSV column options and --auto, qualities, zero-length sequences (always run, first)"""
    cs = []
    perms3 = [[0, 1, 2], [2, 1, 0], [1, 2, 0], [2, 0, 1]]
    for w in ("fasta", "fastq", "json", "csv", "auto"):
        for k, (old, app) in enumerate(((0, False), (3000, False), (700, True))):
            cs.append(dict(writer=w, sizes=[2, 0, 1], arrival=perms3[(k + len(w)) % 4], workers=1, mode="file", old=old, append=app,
                           qual=(w == "auto" and k != 1), tag="round3:file-%s-old%d-%s" % (w, old, "append" if app else "truncate")))
        cs.append(dict(writer=w, sizes=[1, 2, 2], arrival=[2, 0, 1], workers=1, mode="file", old=2500, paired=True, qual=(w == "auto")))
        cs.append(dict(writer=w, sizes=[0, 2, 1], arrival=[1, 0, 2], workers=1, mode="file", old=40, append=True, paired=True))
        cs.append(dict(writer=w, sizes=[2, 1], arrival=[1, 0], workers=1, mode="file", old=5000, compressed=True))
        cs.append(dict(writer=w, sizes=[0, 0, 2, 1], arrival=[1, 0, 3, 2], workers=1, mode="file", old=200, paired=True, qual=(w == "auto"),
                       tag="round3:paired-stream-with-leading-empty-batches"))
        cs.append(dict(writer=w, sizes=[], arrival=[], workers=1, mode="file", old=300, tag="round3:file-no-batch-truncates"))
        cs.append(dict(writer=w, sizes=[2, 0, 2], arrival=[2, 1, 0], workers=1, mode="stdout", qual=(w == "auto")))
        cs.append(dict(writer=w, sizes=[1, 1, 1, 1], arrival=[3, 2, 1, 0], workers=3, mode="file", old=100))
    # the universal writer: the format is read off the first NON-EMPTY batch that arrives
    for q in (False, True):
        cs.append(dict(writer="auto", sizes=[0, 0, 2], arrival=[1, 0, 2], workers=1, qual=q, tag="round3:universal-leading-empty-batches"))
        cs.append(dict(writer="auto", sizes=[2, 0, 0], arrival=[1, 2, 0], workers=1, qual=q))
        cs.append(dict(writer="auto", sizes=[0, 0], arrival=[1, 0], workers=1, qual=q))
        cs.append(dict(writer="auto", sizes=[], arrival=[], workers=1, qual=q, tag="fixed:universal-writer-no-batch-never-closes"))
        cs.append(dict(writer="auto", sizes=[], arrival=[], workers=1, qual=q, compressed=True, tag="fixed:universal-writer-no-batch-never-closes (0-byte .gz)"))
        cs.append(dict(writer="auto", sizes=[1, 2, 0, 1], arrival=[2, 3, 1, 0], workers=1, qual=q, empty_seq=True))
        cs.append(dict(writer="auto", sizes=[3, 2], arrival=[1, 0], workers=1, qual=q, empty_seq=True,
                       tag="fixed:universal-writer-format-read-off-a-zero-length-read (first batch to arrive starts with one: FASTQ stream written as FASTA)"))
        cs.append(dict(writer="auto", sizes=[3, 2], arrival=[0, 1], workers=1, qual=q, empty_seq=True))
        cs.append(dict(writer="auto", sizes=[0, 3, 2], arrival=[0, 2, 1], workers=1, qual=q, empty_seq=True, mode="file", old=900))
    # OpenWritingFile / Wfile.WriteString
    raw = [x.hex() for x in (b">a\nacgt\n", b"", b"\x00\xff\n", b"tail")]
    for old, app, gz in ((0, False, False), (200, False, False), (200, True, False), (300, False, True), (0, True, True)):
        cs.append(dict(mode="wfile", raw_chunks=raw, arrival=[0, 1, 2, 3], old=old, append=app, compressed=gz,
                       tag="fixed:OpenWritingFile-does-not-truncate" if old and not app else None))
    # zero-length sequences, qualities in JSON / CSV, taxonomic columns, many attribute types
    for w in ("fasta", "fastq", "json", "csv"):
        cs.append(dict(writer=w, sizes=[3, 3, 1], arrival=[2, 0, 1], workers=1, empty_seq=True, want_recs=True))
        cs.append(dict(writer=w, sizes=[3, 0, 2], arrival=[1, 2, 0], workers=1, var=True, rich=True))
    cs.append(dict(writer="fasta", sizes=[1, 3], arrival=[1, 0], workers=1, empty_seq=True, tag="round3:batch-of-empty-sequences-gives-an-empty-chunk"))
    for w in ("json", "csv"):
        cs.append(dict(writer=w, sizes=[2, 2], arrival=[1, 0], workers=1, qual=True, tax=True, want_recs=True, csv="ctq" if w == "csv" else ""))
    cs.append(dict(writer="json", sizes=[0, 0, 0, 1], arrival=[3, 0, 2, 1], workers=1, rich=True, ctl=True,
                   tag="round3:json-record-unescape (escaped backslash followed by u00e9)"))
    # every subset of the CSV column options (never all columns off)
    letters = "ictdksqN"
    for m in range(256):
        f = "".join(l for i, l in enumerate(letters) if (m >> i) & 1)
        if "i" in f and "s" in f and not (set(f) & set("ctdkq")):
            continue
        cs.append(dict(writer="csv", sizes=[2, 0, 2], arrival=[[2, 1, 0], [0, 1, 2], [1, 2, 0]][m % 3], workers=1, csv=f, tax=True, qual=(m % 4 != 1),
                       rich=(m % 5 == 0), var=(m % 7 == 0), want_recs=True))
    # --auto: the columns are the sorted non-map keys of batch 0, whatever arrives first (odd batches carry one more key)
    for n in range(0, 4):
        for perm in itertools.permutations(range(n)):
            for f in ("a", "ack"):
                cs.append(dict(writer="csv", sizes=[(2 if i != 1 else 3) for i in range(n)], arrival=list(perm), workers=1, csv=f, var=True, rich=(len(f) > 1),
                               want_recs=True))
    cs.append(dict(writer="csv", sizes=[0, 2], arrival=[1, 0], workers=1, csv="a", var=True, tag="round3:auto-with-empty-batch-0"))
    cs.append(dict(writer="csv", sizes=[2, 3, 2], arrival=[0, 1, 2], workers=4, csv="a", var=True, mode="file"))
    # batch 0 arrives last after many others (a formatting buffer reused while a chunk waits in the map)
    for w in WRITERS:
        for n in (8, 12):
            cs.append(dict(writer=w, sizes=[1 + (i * 7) % 3 for i in range(n)], arrival=list(range(1, n)) + [0], workers=1, rich=(n == 8)))
            cs.append(dict(writer=w, sizes=[1 + (i * 5) % 3 for i in range(n)], arrival=[n - 1] + list(range(1, n - 1)) + [0], workers=1))
    # long streams of tiny batches through several formatting workers
    for w in WRITERS + ["auto"]:
        cs.append(dict(writer=w, sizes=[(i * 3) % 4 for i in range(150)], arrival=list(range(150)), workers=8, qual=(w == "auto")))
    return [{k: v for k, v in c.items() if v is not None} for c in cs]


def glue_exhaustive(nmax):
    """WriteSeqFileChunk driven directly and the universal writer: every arrival permutation x every subset of empty chunks"""
    for n in range(0, nmax + 1):
        for perm in itertools.permutations(range(n)):
            for mask in range(1 << n):
                raw = [b"" if (mask >> i) & 1 else RAW_ALPHABET[2 + (i * 3 + mask + len(perm)) % (len(RAW_ALPHABET) - 2)] for i in range(n)]
                yield dict(mode="chunks", raw_chunks=[x.hex() for x in raw], arrival=list(perm), to_be_closed=bool((mask + n + perm.index(0) if n else 0) % 2 == 0))
                yield dict(writer="auto", sizes=[0 if (mask >> i) & 1 else 1 + i % 2 for i in range(n)], arrival=list(perm), workers=1, qual=bool((mask + sum(perm[:1])) % 2))


def glue_random(rng):
    r = rng.random()
    n = rng.randrange(0, 7)
    arr = list(range(n))
    rng.shuffle(arr)
    if r < 0.2:
        return dict(mode="chunks", raw_chunks=[bytes(rng.randrange(256) for _ in range(rng.choice([0, 0, 1, 3, 17]))).hex() for _ in range(n)],
                    arrival=arr, to_be_closed=rng.random() < 0.5)
    if r < 0.25:
        return dict(mode="wfile", raw_chunks=[bytes(rng.randrange(256) for _ in range(rng.choice([0, 1, 30]))).hex() for _ in range(n)],
                    arrival=arr, old=rng.choice([0, 10, 500]), append=rng.random() < 0.4, compressed=rng.random() < 0.3)
    w = rng.choice(WRITERS + ["auto"])
    wk = 1 if rng.random() < 0.7 else rng.randrange(2, 6)
    c = dict(writer=w, sizes=[rng.choice([0, 0, 1, 2, 3]) for _ in range(n)], arrival=arr if wk == 1 else list(range(n)), workers=wk)
    if r < 0.6:
        c.update(mode=rng.choice(["file", "file", "stdout"]))
        if c["mode"] == "file":
            c.update(old=rng.choice([0, 0, 30, 4000]), append=rng.random() < 0.3, paired=rng.random() < 0.3)
        c["compressed"] = rng.random() < 0.15
    for k, pr in (("qual", 0.4), ("empty_seq", 0.25), ("tax", 0.3), ("var", 0.3), ("rich", 0.3)):
        if rng.random() < pr:
            c[k] = True
    if w == "csv":
        f = "".join(l for l in "ictdksqNa" if rng.random() < 0.3)
        if "i" in f and "s" in f and not (set(f) & set("ctdkq")):
            f = f.replace("i", "")
        c.update(csv=f, want_recs=True)
    return c


GTAB = None      # names for the byte strings of the generated glue cases (shared chunks are written once)


def hx(x):
    b = bytes.fromhex(x)
    if GTAB is not None and len(b) > 6:
        return GTAB.ref(b)
    return packed(b)


def hxl(xs):
    return "[" + "; ".join(hx(x) for x in xs) + "]"


def nats(xs):
    return "[" + "; ".join(str(i) for i in xs) + "]"


def glue_terms(c, o):
    """Gallina terms (Glue.gcase) tying one observation to the model of the glue"""
    if o.get("kind") != "ok":
        return []
    b = lambda v: "true" if v else "false"
    mode = c.get("mode")
    n = nbatches(c)
    order = c["arrival"] if c.get("workers", 1) == 1 else list(range(n))
    if mode == "chunks":
        return ["GChunks %s %s %s %s %d" % (b(c.get("to_be_closed")), hxl(c["raw_chunks"]), nats(order), hx(o.get("out") or ""), o["closes"])]
    if mode == "wfile":
        data = bytes.fromhex(o["files"][0])
        old = bytes.fromhex((o.get("old_hex") or [""])[0])
        if c.get("compressed"):
            keep = len(old) if c.get("append") else 0
            body = gunzip(data[keep:])
            if body is None:
                return []
            data = data[:keep] + body
        written = [c["raw_chunks"][k] for k in c["arrival"]]
        return ["GFile KFasta %s %s [] %s %s %s" % (b(c.get("append")), packed(old), hxl(written), nats(range(len(written))), packed(data))]
    w = eff_writer(c)
    terms = []
    if mode in ("file", "stdout"):
        olds = [bytes.fromhex(x) for x in (o.get("old_hex") or [])]
        for k, hxf in enumerate(o.get("files_final") or []):
            if k and w == "csv" and "a" in str(c.get("csv") or ""):
                continue      # --auto: the file of the mates has its own proposed columns, which the harness cannot precompute (judged by the oracle)
            data = bytes.fromhex(hxf)
            old = olds[k] if k < len(olds) else b""
            if c.get("compressed"):
                keep = len(old) if c.get("append") else 0
                body = gunzip(data[keep:])
                if body is None:
                    continue
                data = data[:keep] + body
            terms.append("GFile %s %s %s %s %s %s %s" % (KIND[w], b(c.get("append")), packed(old), hx(o.get("header") or ""),
                                                      hxl(o.get("rchunks" if k else "chunks") or []), nats(order), packed(data)))
    elif c.get("writer") == "auto" and not c.get("compressed") and not c.get("no_close"):
        quals = "[" + "; ".join(dict(empty="BEmpty", qual="BQual", noqual="BNoQual")[x] for x in (o.get("bq") or [])) + "]"
        ch = hxl(o.get("chunks") or [])
        # the chunks of the format that was NOT to be chosen are not formed: a wrong choice shows as other bytes
        terms.append("GAuto %s %s %s %s %s %d" % (quals, "[]" if c.get("qual") else ch, ch if c.get("qual") else "[]", nats(order), hx(o.get("out") or ""), o["closes"]))
    if w in ("fasta", "fastq") and o.get("recs") is not None and not mode and not c.get("compressed") and not c.get("no_close"):
        recs = "[" + "; ".join("[" + "; ".join("(%s, %s)" % (b(bool(x)), hx(x)) for x in rl) + "]" for rl in o["recs"]) + "]"
        terms.append("GFastx %s %s %s" % (recs, hxl(o.get("chunks") or []), hx(o.get("out") or "")))
    if c.get("writer") == "csv" and o.get("info") and o.get("fields") is not None and not c.get("compressed"):
        f, keys = py_csv_header(c)
        hdr = o.get("hdr_fields") or []
        lead = (0 if "i" in f else 1) + (1 if "c" in f or c.get("rich") else 0) + (2 if "t" in f else 0) + (1 if "d" in f or c.get("rich") else 0)
        trail = (0 if "s" in f else 1) + (1 if "q" in f else 0)
        kcols = hdr[lead:len(hdr) - trail]
        opts = "(mkco %s %s %s %s %s %s %s %s)" % (b("i" not in f), b("c" in f or c.get("rich")), b("t" in f), b("d" in f or c.get("rich")), hxl(kcols),
                                                  b("s" not in f), b("q" in f), nlist(b"-" if "N" in f else b"NA"))
        recs = [(r, row) for bi, rows in zip(o["info"], o["fields"]) for r, row in zip(bi, rows)]
        for r, row in recs[:3]:
            attrs = "[" + "; ".join("(%s, %s)" % (hx(k), hx(v)) for k, v in sorted(r["attrs"].items())) + "]"
            rec = "(mkcr %s %s %s %s %s %s %s %s %s)" % (hx(r["id"]), nlist(str(r["count"]).encode()), nlist(str(r["taxid"]).encode()), b(r["taxid"] == 1),
                                                       ("(Some %s)" % hx(r["sn"])) if r["has_sn"] else "None", hx(r["def"]), attrs, hx(r["seq"]),
                                                       ("(Some %s)" % hx(r["qual"])) if r["has_q"] else "None")
            terms.append("GCsvRec %s %s %s %s" % (opts, rec, hxl(hdr), hxl(row)))
        if "a" in f and not mode:
            out = out_bytes(c, o) or b""
            rows = list(csv.reader(io.StringIO(out.decode("utf8"), newline="")))
            if rows:
                real = rows[0][lead:len(rows[0]) - trail]
                bkeys = "[" + "; ".join(hxl(sorted({k for r in bi for k in r["attrs"] if k not in r["maps"]}, reverse=True)) for bi in o["info"]) + "]"
                terms.append("GAutoCols %s %s %s %s" % (hxl([k.encode().hex() for k in keys]), bkeys, nats(order), hxl([x.encode("utf8").hex() for x in real])))
    return terms


def glue_check(ctx, cases, obs, broken):
    """correspondence of the glue model (Glue.v) on the observations of the round-3 cases; every shard of generated
    cases names its own byte strings (shared chunks are written once)"""
    global GTAB
    todo = [i for i, (c, o) in enumerate(zip(cases, obs)) if is_glue(c) and not o.get("_why")]
    shards, cur, tab = [], [], Table()
    GTAB = tab
    for i in todo:
        for t in glue_terms(cases[i], obs[i]):
            if len(t) < 60000:
                cur.append((i, t))
        if len(cur) >= 300:
            shards.append((cur, tab.defs()))
            cur, tab = [], Table()
            GTAB = tab
    if cur:
        shards.append((cur, tab.defs()))
    GTAB = None
    ctx.cov["glue_model_evaluations"] = sum(len(sh) for sh, _ in shards)

    def one(k):
        sh, defs = shards[k]
        return ctx.correspond("glue%d" % k, GIMPORTS + defs, [t for _, t in sh], fn="gmismatches", shard=len(sh))
    with ThreadPoolExecutor(max_workers=8) as ex:
        res = list(ex.map(one, range(len(shards))))
    nbad = 0
    for (sh, _), (bad, err) in zip(shards, res):
        if bad is None:
            broken.append(dict(kind="correspondence", detail=err))
            return
        for k in bad:
            nbad += 1
            if nbad <= 3:
                i, t = sh[k]
                broken.append(dict(kind="correspondence", name="corr:C04/glue/%s" % t.split(" ")[0], first_diverging_case=cases[i], term=t[:1500]))
    ctx.cov["glue_model_mismatches"] = nbad


def is_glue(c):
    return bool((c.get("writer") in ("fasta", "fastq") and (c.get("want_recs") or c.get("rich") or c.get("empty_seq"))) or c.get("mode") or c.get("writer") == "auto" or c.get("csv") is not None or c.get("tax") or c.get("var"))


def run(ctx, broken):
    rng = ctx.rng
    nmax = 5 if ctx.quick else 6
    fast = bool(os.environ.get("VERIF_C04_FAST"))     # development aid (mutation testing): a subset of the quick tier
    if fast:
        nmax = 3
    cases = list(CORPUS) + glue_corpus() + list(boundary_cases())
    n_corpus = len(cases)
    for n in range(0, nmax + 1):
        cases += list(exhaustive(n))
    n_exh = len(cases)
    if not ctx.quick:
        # 7 batches: every permutation x a sample of the subsets of empty batches
        for w in WRITERS:
            for perm in itertools.permutations(range(7)):
                for mask in {0, 127, rng.randrange(128), rng.randrange(128), 1 << rng.randrange(7)}:
                    cases.append(dict(writer=w, sizes=[0 if (mask >> i) & 1 else 1 for i in range(7)], arrival=list(perm), workers=1))
    cases += list(glue_exhaustive(4 if ctx.quick else 5))
    n_rand = 400 if ctx.quick else 6000
    n_grand = 300 if ctx.quick else 5000
    if fast:
        n_rand, n_grand = 100, 150
    cases += [glue_random(rng) for _ in range(n_grand)]
    cases += [random_case(rng) for _ in range(n_rand)]
    # model evaluation: everything up to 4 batches, the corpus, the random cases, a sample of the rest
    small = [i for i, c in enumerate(cases) if nbatches(c) <= (4 if ctx.quick else 5) or i < n_corpus or i >= len(cases) - n_rand]
    rest = [i for i in range(len(cases)) if nbatches(cases[i]) > (4 if ctx.quick else 5) and n_corpus <= i < len(cases) - n_rand]
    corr_idx = sorted(small + rng.sample(rest, min(len(rest), 800 if ctx.quick else 6000)))
    plain = [i for i, c in enumerate(cases) if c.get("writer") in ("json", "csv") and not c.get("rich") and not c.get("compressed") and not c.get("no_close")
             and not is_glue(c)]
    for i in rng.sample(plain, min(len(plain), 300 if ctx.quick else 3000)):
        cases[i] = dict(cases[i], want_recs=True)
    plainx = [i for i, c in enumerate(cases) if c.get("writer") in ("fasta", "fastq") and not c.get("bytes") and not c.get("compressed") and not c.get("no_close")
              and not c.get("mode") and not is_glue(c)]
    for i in rng.sample(plainx, min(len(plainx), 200 if ctx.quick else 2000)):
        cases[i] = dict(cases[i], want_recs=True)
    import time
    t0 = time.time()
    obs, fails, mism = evaluate(ctx, cases, broken, "main", corr_idx)
    t1 = time.time()
    records_check(ctx, cases, obs, broken, rng)
    t2 = time.time()
    glue_check(ctx, cases, obs, broken)
    t3 = time.time()
    cli_check(ctx, broken)
    ctx.cov["phase_wall_s"] = dict(writers_and_main_correspondence=round(t1 - t0, 1), records=round(t2 - t1, 1), glue=round(t3 - t2, 1), cli=round(time.time() - t3, 1))
    ctx.cov["evaluations"] = len(cases)
    ctx.cov["chunk_sizes_not_reachable"] = sum(1 for o in obs if o.get("kind") == "skip")
    ctx.cov["boundary_cases"] = "%d cases with chunk sizes given in bytes (4095/4096/4097 per chunk and in total, chunks > buffer on an empty buffer, zero-length chunks)" % sum(1 for c in cases if c.get("bytes"))
    ctx.cov["exhaustive"] = True
    ctx.cov["exhaustive_scope"] = "all arrival permutations of <=%d batches x all subsets of empty batches x 4 writers (%d histories)%s" % (
        nmax, n_exh - n_corpus, "" if ctx.quick else "; 7 batches: all 5040 permutations x sampled subsets") + \
        "; WriteSeqFileChunk driven directly and the universal writer: all permutations of <=%d batches x all subsets of empty ones" % (4 if ctx.quick else 5)
    ctx.cov["distinct_nontrivial"] = len({json.dumps(to_vh(c), sort_keys=True) for c in cases if nontrivial(c)})
    ctx.cov["rule"] = ("non-trivial = the arrival order is not the identity (a chunk is buffered and later drained), or a batch is empty, "
                       "or several formatting workers race; distinct = distinct (writer, sizes, arrival, workers, compressed)")
    dist = {}
    for c in cases:
        k = "%s/n=%d/%s" % (c.get("mode") or c.get("writer"), nbatches(c), "w1" if c.get("workers", 1) == 1 else "wN")
        dist[k] = dist.get(k, 0) + 1
    ctx.cov["distribution"] = dist
    cls = {}
    for c in cases:
        for k in ("mode", "qual", "empty_seq", "tax", "var", "rich", "ctl", "append", "paired", "old", "compressed", "slow_ms", "no_close", "bytes", "to_be_closed"):
            if c.get(k):
                kk = "%s=%s" % (k, c[k]) if k == "mode" else k
                cls[kk] = cls.get(kk, 0) + 1
        if c.get("writer") == "auto":
            cls["universal writer"] = cls.get("universal writer", 0) + 1
        if c.get("csv") is not None:
            for l in c["csv"]:
                cls["csv option " + l] = cls.get("csv option " + l, 0) + 1
        if nbatches(c) >= 8:
            cls["8 batches or more"] = cls.get("8 batches or more", 0) + 1
    ctx.cov["input_classes"] = cls
    ctx.cov["classes_not_generated"] = ("batch numbers with gaps or duplicates (outside the quantifier: arrival histories are permutations of 0..n-1); "
                                        "records read from files with zero-length reads (the readers do not deliver them); streams mixing records with and without "
                                        "qualities (the universal writer's format then depends on the arrival order: observation, see note); write errors (C18)")
    ctx.cov["compressed_cases"] = sum(1 for c in cases if c.get("compressed"))
    ctx.cov["sink_closed_when_result_iterator_ended"] = "%d of %d closing runs (required in every run; %d runs on a slow sink)" % (
        sum(1 for c, o in zip(cases, obs) if o.get("closed_at_iter_end") and not c.get("no_close")), sum(1 for c in cases if not c.get("no_close")),
        sum(1 for c in cases if c.get("slow_ms")))
    ctx.cov["oracle_failures"] = len(fails)
    ctx.cov["model_vs_impl_mismatches"] = len(mism)
    ctx.samples = [dict(case=c, out=(out_bytes(c, o) or b"").decode("latin1"), closes=o.get("closes")) for c, o in
                   [(cases[i], obs[i]) for i in (0, 1, len(CORPUS) - 30, n_corpus + 40, len(cases) - 1)]]
    if mism and not ctx.violations:
        more = [random_case(rng, 8) for _ in range(300 if fast else 5000)] + [glue_random(rng) for _ in range(300 if fast else 3000)]
        evaluate(ctx, more, [], "search", corr_idx=[])
        if not ctx.violations:
            i = mism[0]
            broken.append(dict(kind="correspondence", name="corr:C04/%s/bytes+closes" % cases[i].get("writer"), first_diverging_case=cases[i],
                               implementation=obs[i], n_diverging=len(mism)))
    elif mism:
        ctx.cov["note"] = "model and implementation diverge on %d cases (violations reported by the direct oracle)" % len(mism)


# ---------------------------------------------------------------- the built commands (observe_at: obiconvert --json-output, obicsv)
def cli_inputs(d):
    """the input files of the command-level runs; returns the record ids per file"""
    n = 7
    ids = ["s%d" % i for i in range(n)]
    w = lambda name, text: open(os.path.join(d, name), "w").write(text)
    w("in.fasta", "".join(">%s {\"count\":%d,\"k\":\"v %d\"} def %d\n%s\n" % (x, i + 1, i, i, "acgt" * (3 + i)) for i, x in enumerate(ids)))
    # (the readers do not deliver zero-length reads from files: those are exercised in process only)
    seqs = ["acgt" * (2 + i) for i in range(n)]
    w("in.fastq", "".join("@%s {\"taxid\":%d}\n%s\n+\n%s\n" % (x, 9606 + i, q, "I" * len(q)) for i, (x, q) in enumerate(zip(ids, seqs))))
    w("p1.fastq", "".join("@%s\n%s\n+\n%s\n" % (x, "acgt" * (2 + i), "I" * (8 + 4 * i)) for i, x in enumerate(ids)))
    w("p2.fastq", "".join("@%s\n%s\n+\n%s\n" % (x, "ttga" * (1 + i), "F" * (4 + 4 * i)) for i, x in enumerate(ids)))
    w("empty.fasta", "")
    return ids, seqs


def cli_ids(kind, data):
    """record ids of a FASTA / FASTQ / JSON / CSV text, or a reason (str starting with '!')"""
    try:
        t = data.decode("utf8")
        if kind == "fasta":
            return [l[1:].split(" ")[0] for l in t.split("\n") if l.startswith(">")]
        if kind == "fastq":
            ls = t.split("\n")
            if ls[-1] != "" or (len(ls) - 1) % 4 or any(not l.startswith("@") for l in ls[0:-1:4]) or any(l != "+" for l in ls[2:-1:4]):
                return "!the output is not a sequence of 4-line FASTQ records"
            return [l[1:].split(" ")[0] for l in ls[0:-1:4]]
        if kind == "json":
            v = json.loads(t)
            if not isinstance(v, list) or any(not isinstance(r, dict) for r in v):
                return "!the output is not a JSON array of objects"
            return [r.get("id") for r in v]
        if kind == "csv":
            rows = list(csv.reader(io.StringIO(t, newline="")))
            return [r[0] if r else None for r in rows[1:]]
    except Exception as e:
        return "!the output cannot be read as %s (%s)" % (kind, e)


def cli_check(ctx, broken):
    """The built commands (obiconvert with every output format, obicsv): to stdout, to -o FILE (FILE exists already
    and is longer than the result), compressed, paired, with one or several CPUs. Every variant of one (input, format)
    must give the SAME bytes, holding the records in order (FASTQ stays FASTQ, zero-length reads skipped when asked,
    one JSON array, header with the columns asked for + one row per record); an empty input gives a complete empty output."""
    bindir, err = ctx.build_cmds(["obiconvert", "obicsv"])
    if bindir is None:
        broken.append(dict(kind="cmd-build", detail=err))
        return
    d = os.path.join(vlib.BUILD, "c04_cli")
    os.makedirs(d, exist_ok=True)
    ids, seqs = cli_inputs(d)
    nonempty = [x for x, q in zip(ids, seqs) if q]
    jobs = []     # (group, kind, expected ids, expected csv header or None, argv, dest: stdout | file | gz | paired)
    for fmt, kind in ((None, None), ("--fasta-output", "fasta"), ("--fastq-output", "fastq"), ("--json-output", "json")):
        for inp in ("in.fasta", "in.fastq"):
            k = kind or inp[3:]
            exp = ids if (inp == "in.fasta" or k == "json") else nonempty
            base = ["obiconvert", "--skip-empty"] + ([fmt] if fmt else [])
            g = "obiconvert %s %s" % (fmt or "(default)", inp)
            jobs += [(g, k, exp, None, base + ["--max-cpu", "1"], inp, "stdout"), (g, k, exp, None, base + ["--max-cpu", "3"], inp, "file"),
                     (g, k, exp, None, base + ["--max-cpu", "4"], inp, "stdout"), (g, k, exp, None, base + ["--max-cpu", "2", "--compress"], inp, "gz")]
    for fl, hdr in ((["-i", "-s"], ["id", "sequence"]), (["-i", "-s", "-q", "--count"], ["id", "count", "sequence", "quality"]),
                    (["-i", "--taxon", "-d", "-k", "k", "--na-value", "nd"], ["id", "taxid", "scientific_name", "definition", "k"]),
                    (["-i", "--auto"], None)):
        for inp in ("in.fasta", "in.fastq"):
            g = "obicsv %s %s" % (" ".join(fl), inp)
            h = hdr if hdr is not None else (["id", "count", "definition", "k"] if inp == "in.fasta" else ["id", "taxid"])
            base = ["obicsv"] + fl
            jobs += [(g, "csv", ids, h, base + ["--max-cpu", "1"], inp, "stdout"), (g, "csv", ids, h, base + ["--max-cpu", "3"], inp, "file"),
                     (g, "csv", ids, h, base + ["--max-cpu", "4", "--compress"], inp, "gz")]
    for k, fmt in (("fastq", None), ("fasta", "--fasta-output"), ("json", "--json-output")):
        jobs.append(("obiconvert paired %s" % (fmt or "(default)"), k, ids, None, ["obiconvert", "--max-cpu", "3", "--paired-with", os.path.join(d, "p2.fastq")] + ([fmt] if fmt else []),
                     "p1.fastq", "paired"))
    for extra, dest in (([], "stdout"), ([], "file"), (["--compress"], "gz"), (["--fastq-output", "--compress"], "gz"), (["--json-output"], "file")):
        jobs.append(("obiconvert empty input %s" % " ".join(extra), "json" if "--json-output" in extra else "fasta", [], None, ["obiconvert"] + extra, "empty.fasta", dest))
    jobs.append(("obicsv empty input", "csv", [], None, ["obicsv", "-i", "-s"], "empty.fasta", "file"))

    def one(jn):
        n, (g, kind, exp, hdr, argv, inp, dest) = jn
        out = os.path.join(d, "out%d.%s" % (n, "dat"))
        outs = [out]
        if dest == "paired":
            outs = [os.path.join(d, "out%d_R1.dat" % n), os.path.join(d, "out%d_R2.dat" % n)]
        for o_ in outs:
            with open(o_, "wb") as f:
                f.write(b"X" * 20000)          # an older, longer result
        cmd = [os.path.join(bindir, argv[0]), "--no-progressbar", "--batch-size", "2"] + argv[1:] + [os.path.join(d, inp)]
        try:
            if dest == "stdout":
                with open(out, "wb") as f:
                    p = subprocess.run(cmd, stdout=f, stderr=subprocess.PIPE, timeout=90)
                stdout = b""
            else:
                p = subprocess.run(cmd + ["-o", out], stdout=subprocess.PIPE, stderr=subprocess.PIPE, timeout=90)
                stdout = p.stdout
            rc = p.returncode
        except subprocess.TimeoutExpired:
            rc, stdout = 124, b""
        datas = [open(o_, "rb").read() for o_ in outs]
        return rc, stdout, datas

    with ThreadPoolExecutor(max_workers=6) as ex:
        res = list(ex.map(one, enumerate(jobs)))
    groups = {}
    nviol = 0
    for n, ((g, kind, exp, hdr, argv, inp, dest), (rc, stdout, datas)) in enumerate(zip(jobs, res)):
        why = None
        bodies = []
        if rc != 0:
            why = "exit status %d" % rc
        elif dest != "stdout" and stdout.strip():
            why = "-o FILE is ignored: the result went to stdout (%d bytes)" % len(stdout)
        else:
            for data in datas:
                if "--compress" in argv:
                    data = gunzip(data)
                    if data is None:
                        why = "the compressed output is not a valid gzip stream"
                        break
                bodies.append(data)
        if why is None:
            for k, body in enumerate(bodies):
                got = cli_ids(kind, body)
                if isinstance(got, str):
                    why = got[1:]
                elif got != exp:
                    why = "records %r instead of %r%s" % (got, exp, " (reverse file)" if k else "")
                elif kind == "csv" and exp and hdr is not None and list(csv.reader(io.StringIO(body.decode("utf8"), newline="")))[0] != hdr:
                    why = "CSV header %r instead of the columns asked for %r" % (body.split(b"\n")[0].decode("utf8"), hdr)
                elif kind == "fastq" and inp == "in.fastq" and b"\nIIII" not in body:
                    why = "the qualities of the input are lost"
                elif kind == "csv" and "--na-value" in argv and inp == "in.fastq" and b",nd" not in body:
                    why = "--na-value is ignored"
            if why is None and dest != "paired":
                ref = groups.setdefault(g, (bodies[0], argv, dest))
                if ref[0] != bodies[0]:
                    why = "the output differs from the one of `%s` (%s): same input, same format" % (" ".join(ref[1]), ref[2])
        if why and nviol < 6:
            nviol += 1
            data = datas[0]
            ctx.violation("cli_%d" % n, dict(property="C04", kind="cli", case=dict(argv=argv, input=inp, dest=dest, group=g), why=why, exit=rc,
                                             output_head=data[:400].decode("latin1"), output_tail=data[-120:].decode("latin1"),
                                             expected="records %r in order, nothing else; all variants of one (input, format) identical" % exp))
    ctx.cov["cli_runs"] = len(jobs)
    ctx.cov["cli_groups"] = sorted(groups)


def replay(ctx, rp):
    if rp.get("kind") == "cli":
        cli_check(ctx, [])
        print("replay: cli runs done; violations:", len(ctx.violations))
        return
    c = rp.get("case") or rp.get("first_diverging_case")
    obs, fails, mism = evaluate(ctx, [c], [], "replay")
    shown = [bytes.fromhex(x).decode("latin1") for x in obs[0]["files_final"]] if obs[0].get("files_final") else (out_bytes(c, obs[0]) or b"").decode("latin1")
    print("replay:", c, "->", shown.__repr__(), "closes", obs[0].get("closes"),
          "| oracle:", fails[0][1] if fails else "ok", "| model:", "mismatch" if mism else "agrees")
