"""C18 — output write failures are reported, never followed by a successful exit."""
import json, os, gzip, subprocess
from concurrent.futures import ThreadPoolExecutor
import vlib

PROPS = ["C18/Props.v"]
META = dict(
    text="Rocq theorems over an executable model of the output path writer loop -> Wfile (bufio.Writer.Write/Flush transcribed from the Go library, sticky error) -> lower layer: for every chunk list, every arrival permutation, every buffer size and EVERY device, exit = ok implies that all expected bytes were delivered, the output was closed exactly once and that Close succeeded. Proved (i) for the plain device accepting k bytes / failing at Close (FASTA/FASTQ, JSON, CSV; explicit: k smaller than the result, or a failing Close, gives a fatal exit; the model's fuel is sufficient), (ii) round 2: over an ABSTRACT lower layer (Layer.v), instantiated with COMPRESSED outputs (-Z: the compressor is any state machine that acts on the device only by writing and obeys the single law 'an error of the device is returned by a later Write or by Close': exit ok => the compressor got every expected byte and closed without error, no device write failed, one successful Close) and with other device error shapes (a short write WITHOUT error at any offset, an error on zero-length writes); (iii) for FASTA/FASTQ and CSV the robust variants (only Close checked + Flush error returned suffices: bufio's error is sticky), as for JSON. The unchanged code is kept as configuration `orig` with one refutation per discarded-error mechanism. Tied to the code on every run: the real WriteFasta/WriteFastq/WriteJSON/WriteCSV write into an io.WriteCloser failing after k bytes for every k of small outputs (boundary and sampled k around the 4096-byte buffer for outputs of 4-9 KB, chunk sizes of exactly 4095/4096/4097 bytes, chunks larger than the empty buffer, zero-length chunks), at Close, cutting a write short without error at offset c, or failing zero-length writes; logrus' exit function is intercepted, and exit class (+ bytes received, close count, zero-length writes seen on successful exits) is compared with the models (vm_compute) and with a Python oracle, which also demands 'exit ok => no Write/Close of the device returned an error' for compressed and plain runs; the built obiconvert/obicsv commands are run against /dev/full and against a regular file (stdout and -o).",
    note="Trusted: Coq kernel + vm_compute; harness (in-process fatal hook: the first call of logrus' ExitFunc records the exit and the device state, later actions are ignored), generators. pgzip itself is not modelled: it enters the compressed theorems only through the law gz_law (hypothesis; shown satisfiable by a store-and-forward instance); that the law holds of pgzip is checked per run by the oracle (exit ok => gunzip(arrived) = expected and no device error), not proved. Decided device shapes: short write WITHOUT error - uncompressed safe (bufio: io.ErrShortWrite while flushing => fatal; retried on the direct path; proved + corresponded), compressed NOT safe (pgzip ignores the count: observation gzip-short-write-without-error, outside the io.Writer contract); error on a zero-length write - never reaches the device (0 zero-length writes observed in every run; model: bufio never forwards an empty write); failing Sync - nothing on the output path calls Sync (0 calls observed; a write-back error can only surface at Close, which is checked). CLI runs use /dev/full (Linux). Several formatting workers: compared under the identity arrival.")
TRUSTED = ["bufio.Writer.Write/Flush transcribed by hand from the Go 1.23 library source (tied by the correspondence run, buffer size 4096)",
           "compressed outputs: pgzip is an abstract transducer constrained only by the hypothesis gz_law (acts on the device by writes only; a device error is returned by a later Write or by Close); the law is checked on pgzip per run by the oracle, not proved",
           "devices honour the io.Writer contract in the compressed theorems (a short write without error below pgzip loses bytes: observation gzip-short-write-without-error)"]

WRITERS = ["fasta", "fastq", "json", "csv"]
KIND = dict(fasta="KFasta", fastq="KFastq", json="KJson", csv="KCsv")
IMPORTS = ("From Coq Require Import NArith List. Import ListNotations.\n"
           "From OBI.C18 Require Import Model.\n")

SMALL = [([1, 1, 1], [0, 1, 2]), ([1, 1, 1], [2, 1, 0]), ([1, 1, 1], [1, 2, 0]), ([1, 0, 2], [2, 0, 1]), ([], []), ([0], [0]), ([2], [0])]
# chunk sizes in bytes around the 4096-byte buffer of bufio (per chunk and in total), chunks larger than
# the buffer arriving when it is empty, zero-length chunks
BOUNDARY = [([4095], [0]), ([4096], [0]), ([4097], [0]), ([2048, 2047], [1, 0]), ([2048, 2048], [1, 0]), ([2048, 2049], [0, 1]),
            ([4000, 96, 0], [1, 0, 2]), ([0, 9000, 0, 100], [0, 1, 2, 3]), ([100, 9000], [1, 0]), ([4096, 4096], [1, 0]), ([60, 0, 0, 4036], [3, 2, 1, 0])]
BIG = [([1, 1, 1], [0, 1, 2], 1400), ([1, 1, 1], [1, 2, 0], 1400), ([1, 1, 1], [2, 1, 0], 1400), ([1, 1], [1, 0], 4200), ([2, 1], [0, 1], 2100)]

# witnesses of the three mechanisms (always first)
CORPUS = [
    dict(writer="fasta", sizes=[1, 1, 1], arrival=[0, 1, 2], fail_at=5, tag="fixed:wfile-close-drops-flush-error (result smaller than the buffer on a full device)"),
    dict(writer="fastq", sizes=[1], arrival=[0], fail_at=0, tag="fixed:wfile-close-drops-flush-error"),
    dict(writer="fasta", sizes=[1, 1], arrival=[1, 0], seqlen=4200, fail_at=6000, tag="fixed:drained-chunk-write-error-discarded"),
    dict(writer="fastq", sizes=[1, 1, 1], arrival=[2, 1, 0], seqlen=1400, fail_at=5000, tag="fixed:drained-chunk-write-error-discarded"),
    dict(writer="json", sizes=[1, 1, 1], arrival=[0, 1, 2], fail_at=5, tag="fixed:json-ignores-write-errors"),
    dict(writer="json", sizes=[1, 1, 1], arrival=[0, 1, 2], seqlen=1400, fail_at=4200, tag="fixed:json-ignores-write-errors"),
    dict(writer="json", sizes=[1], arrival=[0], fail_at=-1, close_fails=True, tag="fixed:json-ignores-close-error"),
    dict(writer="csv", sizes=[1, 1, 1], arrival=[2, 1, 0], fail_at=5, tag="fixed:csv-ignores-write-errors"),
    dict(writer="csv", sizes=[1], arrival=[0], fail_at=-1, close_fails=True, tag="fixed:csv-ignores-close-error"),
    dict(writer="json", sizes=[1, 1], arrival=[0, 1], fail_at=3, compressed=True, tag="fixed:json-ignores-close-error (gzip)"),
    dict(writer="fasta", sizes=[1], arrival=[0], fail_at=-1, close_fails=True),
    dict(writer="fasta", sizes=[], arrival=[], fail_at=-1, close_fails=True),
    dict(writer="fasta", sizes=[], arrival=[], fail_at=0),
]


def norm(c):
    return dict(writer=c["writer"], sizes=c.get("sizes") or [], bytes=c.get("bytes") or [], arrival=c["arrival"], workers=c.get("workers", 1), compressed=bool(c.get("compressed")),
                seqlen=c.get("seqlen", 0), fail_at=c.get("fail_at", -1), close_fails=bool(c.get("close_fails")),
                cut_at=c.get("cut_at", 0), zero_err=bool(c.get("zero_err")))


def shaped(c):
    return c.get("cut_at", 0) > 0 or bool(c.get("zero_err"))


def run_impl(ctx, cases, nproc=8, post=None):
    """[post(i, case, obs)] is applied to every observation as soon as its part is back (oracle, Gallina term,
    dropping of the bulky fields: memory)."""
    vc = [norm(c) for c in cases]

    def part(lo, hi, tmo):
        r = ctx.vh_robust("c18", vc[lo:hi], timeout=tmo, one_timeout=15)
        if post:
            r = [post(lo + j, cases[lo + j], o) for j, o in enumerate(r)]
        return r
    if len(vc) < 300:
        return part(0, len(vc), 300)
    k = 1500 if len(vc) > 12000 else (len(vc) + nproc - 1) // nproc
    bounds = [(i, min(i + k, len(vc))) for i in range(0, len(vc), k)]
    with ThreadPoolExecutor(max_workers=nproc) as ex:
        res = list(ex.map(lambda b: part(b[0], b[1], 900), bounds))
    return [o for r in res for o in r]


def expected_bytes(c, o):
    """what a fault-free run must deliver (C04): computed from the formatted batches"""
    chunks = [bytes.fromhex(x) for x in (o.get("chunks") or [])]
    w = c["writer"]
    if w in ("fasta", "fastq"):
        return b"".join(chunks)
    if w == "json":
        return b"[\n" + b",\n".join(x for x in chunks if x) + b"\n]\n"
    if not chunks:
        return b""
    return bytes.fromhex(o.get("header") or "") + b"".join(chunks)


def arrived(c, o):
    b = bytes.fromhex(o.get("got") or "")
    if c.get("compressed"):
        try:
            return gzip.decompress(b)
        except Exception:
            return None
    return b


def check(c, o):
    """Direct oracle: exit ok => every expected byte reached the device and it was closed (once);
    no injected fault => exit ok."""
    if o.get("kind") == "skip":
        return None      # a chunk of exactly that many bytes cannot be formed
    if o.get("kind") != "ok":
        return "writer did not terminate / crashed: %s" % (o.get("err") or o.get("kind"))
    exp = expected_bytes(c, o)
    if o["exit"] == "ok" and c.get("compressed") and c.get("cut_at", 0) > 0 and not o.get("dev_failed") and o["closes"] == 1:
        # observation gzip-short-write-without-error (known_findings.d/C18.json): pgzip relies on the io.Writer
        # contract (n < len(p) => err != nil); a device breaking it is outside the property's fault model
        return None
    if o["exit"] == "ok":
        if o.get("dev_failed"):
            return "successful exit although a Write or the Close of the output returned an error"
        if arrived(c, o) != exp:
            got = bytes.fromhex(o.get("got") or "")
            return "successful exit although only %d bytes%s reached the output (fault after %s bytes%s)" % (
                len(got), "" if c.get("compressed") else " of %d" % len(exp), c.get("fail_at", -1), ", close fails" if c.get("close_fails") else "")
        if o["closes"] != 1:
            return "successful exit with the output closed %d times" % o["closes"]
        if c.get("close_fails"):
            return "successful exit although Close of the output failed"
        return None
    # fatal: legitimate only if a fault was injected and could be hit
    k = c.get("fail_at", -1)
    if c.get("cut_at", 0) > 0 and c["cut_at"] < len(exp):
        return None      # a short write without error: bufio may turn it into io.ErrShortWrite
    if c.get("zero_err") and o.get("zero_writes"):
        return None
    if not c.get("close_fails") and (k < 0 or (not c.get("compressed") and k >= len(exp))):
        return "fatal exit without any output failure"
    return None


class Table:
    def __init__(self):
        self.names = {}

    def ref(self, b):
        if not b:
            return "[]"
        if b not in self.names:
            self.names[b] = "K%d" % len(self.names)
        return self.names[b]

    def defs(self):
        return "".join("Definition %s : list N := %s.\n" % (n, packed(b)) for b, n in self.names.items())


def nlist(b):
    return "[" + ";".join(str(x) for x in b) + "]%N" if b else "[]"


def packed(b):
    """Gallina term for a byte string; long periodic runs (sequence / quality lines) as [cyc n pattern]"""
    segs, lit, i, n = [], [], 0, len(b)
    while i < n:
        best = None
        if n - i >= 60:
            for per in (1, 4, 20, 61):
                if i + 2 * per > n or b[i:i + per] != b[i + per:i + 2 * per]:
                    continue
                run = 2 * per
                while i + run < n and b[i + run] == b[i + run - per]:
                    run += 1
                if run >= 60 and (best is None or run > best[1]):
                    best = (per, run)
        if best:
            if lit:
                segs.append(nlist(bytes(lit))); lit = []
            segs.append("cyc %d %s" % (best[1], nlist(b[i:i + best[0]])))
            i += best[1]
        else:
            lit.append(b[i]); i += 1
    if lit:
        segs.append(nlist(bytes(lit)))
    return "(" + " ++ ".join(segs) + ")" if segs else "[]"


def case_term(tab, c, o):
    chunks = [bytes.fromhex(x) for x in (o.get("chunks") or [])]
    arrival = c["arrival"] if c.get("workers", 1) == 1 else list(range(len(c.get("bytes") or c["sizes"])))
    k = c.get("fail_at", -1)
    got = bytes.fromhex(o.get("got") or "")
    exp = expected_bytes(c, o)
    # the bytes that arrived are a prefix of the expected ones in every sane run: name the prefix
    gterm = ("firstn (N.to_nat %d) %s" % (len(got), tab.ref(exp))) if (exp[:len(got)] == got and got) else nlist(got)
    return "mkc %s %s [%s] [%s] %s %s %s (%s) %d" % (
        KIND[c["writer"]], tab.ref(bytes.fromhex(o.get("header") or "")), "; ".join(tab.ref(x) for x in chunks),
        "; ".join(str(i) for i in arrival), "None" if k < 0 else "(Some (N.to_nat %d))" % k,
        "false" if c.get("close_fails") else "true", "true" if o["exit"] == "fatal" else "false", gterm, o["closes"])


def scase_term(tab, c, o):
    chunks = [bytes.fromhex(x) for x in (o.get("chunks") or [])]
    arrival = c["arrival"] if c.get("workers", 1) == 1 else list(range(len(c.get("bytes") or c["sizes"])))
    k = c.get("fail_at", -1)
    got = bytes.fromhex(o.get("got") or "")
    exp = expected_bytes(c, o)
    gterm = ("firstn (N.to_nat %d) %s" % (len(got), tab.ref(exp))) if (exp[:len(got)] == got and got) else nlist(got)
    cut = c.get("cut_at", 0)
    return "mksc %s %s [%s] [%s] %s %s %s %s %s (%s) %d %d" % (
        KIND[c["writer"]], tab.ref(bytes.fromhex(o.get("header") or "")), "; ".join(tab.ref(x) for x in chunks),
        "; ".join(str(i) for i in arrival), "None" if k < 0 else "(Some (N.to_nat %d))" % k,
        "false" if c.get("close_fails") else "true", "(Some (N.to_nat %d))" % cut if cut > 0 else "None",
        "true" if c.get("zero_err") else "false", "true" if o["exit"] == "fatal" else "false", gterm, o["closes"], o.get("zero_writes", 0))


def evaluate(ctx, cases, broken, label, corr=True, fn="mismatches"):
    import threading
    tab, tab2, lock = Table(), Table(), threading.Lock()

    def post(i, c, o):
        why = check(c, o)
        o["_why"] = why
        o["got_len"] = len(o.get("got") or "") // 2
        if o.get("kind") == "ok":
            o["_exp_len"] = len(expected_bytes(c, o))
            o["_lost"] = (o.get("exit") == "ok" and arrived(c, o) != expected_bytes(c, o))
            if corr and not c.get("compressed"):
                with lock:
                    o["_term"] = scase_term(tab2, c, o) if shaped(c) else case_term(tab, c, o)
        if why is None:
            o.pop("chunks", None); o.pop("got", None)      # not looked at again
        return o
    obs = run_impl(ctx, cases, post=post)
    fails = [(i, o["_why"]) for i, o in enumerate(obs) if o.get("_why")]
    shown = set()
    for i, why in fails:
        key = (cases[i]["writer"], why.split(" bytes")[0][:40], bool(cases[i].get("compressed")))
        if key in shown or len(shown) >= 6:
            continue
        shown.add(key)
        o = {k: v for k, v in obs[i].items() if k not in ("chunks", "_term")}
        ctx.violation("%s_oracle_%d" % (label, i), dict(property="C18", kind="direct-oracle", case=norm(cases[i]), tag=cases[i].get("tag"), why=why,
                                                      implementation=o, expected="exit fatal, or all %d bytes delivered and one Close" % obs[i].get("_exp_len", 0)))
    if not corr:
        return obs, fails, []
    idx = [i for i, (c, o) in enumerate(zip(cases, obs)) if o.get("_term") and not shaped(c)]
    terms = [obs[i]["_term"] for i in idx]
    bad, err = ctx.correspond(label, IMPORTS + tab.defs(), terms, fn=fn, shard=250 if ctx.quick else 150, timeout=2400)
    if bad is None:
        broken.append(dict(kind="correspondence", detail=err))
        return obs, fails, []
    # the other device shapes: model over the abstract lower layer (Layer.v), device [sdev]
    sidx = [i for i, (c, o) in enumerate(zip(cases, obs)) if o.get("_term") and shaped(c)]
    if sidx and fn == "mismatches":
        sterms = [obs[i]["_term"] for i in sidx]
        sbad, err = ctx.correspond(label + "_shapes", IMPORTS.replace("Require Import Model.", "Require Import Model Layer.") + tab2.defs(), sterms,
                                   fn="smismatches", shard=250 if ctx.quick else 150, timeout=2400)
        if sbad is None:
            broken.append(dict(kind="correspondence", detail=err))
            return obs, fails, [idx[i] for i in bad]
        # a device which accepts fewer bytes than it was given and returns NO error breaks the io.Writer contract: outside the
        # fault model of the property. Whether such a run ends fatally (io.ErrShortWrite of a flush) or retries depends on
        # the size of the buffer between the writer and the device - an internal constant a maintainer may change - so a
        # divergence from the model (buffer of 4096) on these cases is recorded, not held against the tie; the direct oracle
        # above still demands, for them too, that a successful exit delivered every byte.
        outside = [sidx[i] for i in sbad if cases[sidx[i]].get("cut_at", 0) > 0]
        ctx.cov["short_write_without_error_model_divergences"] = ctx.cov.get("short_write_without_error_model_divergences", 0) + len(outside)
        return obs, fails, [idx[i] for i in bad] + [sidx[i] for i in sbad if sidx[i] not in set(outside)]
    return obs, fails, [idx[i] for i in bad]


def gen_cases(ctx, extra_random):
    rng = ctx.rng
    # pass 1: fault-free runs (also give the output sizes)
    base = []
    for w in WRITERS:
        for sizes, arr in SMALL:
            base.append(dict(writer=w, sizes=sizes, arrival=arr, fail_at=-1))
        for sizes, arr, sl in BIG:
            base.append(dict(writer=w, sizes=sizes, arrival=arr, seqlen=sl, fail_at=-1))
        for sizes, arr in (BOUNDARY if not ctx.quick else BOUNDARY[ctx.rng.randrange(3):][::3]):
            base.append(dict(writer=w, bytes=sizes, arrival=arr, fail_at=-1))
        base.append(dict(writer=w, sizes=[1, 1, 1, 1], arrival=[0, 1, 2, 3], workers=4, fail_at=-1))
        base.append(dict(writer=w, sizes=[1, 2, 1], arrival=[2, 0, 1], fail_at=-1, compressed=True))
        base.append(dict(writer=w, sizes=[2, 1, 2], arrival=[1, 2, 0], seqlen=2000, fail_at=-1, compressed=True))
    obs = run_impl(ctx, base)
    cases = list(CORPUS) + base
    for c, o in zip(base, obs):
        if o.get("kind") != "ok":
            continue
        total = len(bytes.fromhex(o.get("got") or ""))
        chunks = [len(x) // 2 for x in (o.get("chunks") or [])]
        if c.get("compressed"):
            ks = {0, 1, 9, 10, 11, total - 1, total // 2} | {rng.randrange(total + 1) for _ in range(4 if ctx.quick else 40)}
        elif total <= 600:
            ks = set(range(0, total + 2))                     # EVERY byte offset
        else:
            ks = {0, 1, 4095, 4096, 4097, 8191, 8192, 8193, total - 1, total, total + 1}
            acc = len(bytes.fromhex(o.get("header") or "")) + (2 if c["writer"] == "json" else 0)
            for n in chunks:
                acc += n
                ks |= {acc - 1, acc, acc + 1, acc + 2, acc + 3}
            ks |= {rng.randrange(total + 1) for _ in range(6 if ctx.quick else 100)}
        for k in sorted(x for x in ks if x >= 0):
            cases.append(dict(c, fail_at=k))
        cases.append(dict(c, close_fails=True))
        if total > 0:
            cases.append(dict(c, fail_at=total // 2, close_fails=True))
        # other device shapes: a short write WITHOUT error at offset cut; an error on zero-length writes
        if total > 1:
            if c.get("compressed"):
                cuts = {1, total // 2, total - 1}
            elif total <= 600:
                cuts = set(range(1, total, 3 if ctx.quick else 1))
            else:
                cuts = {1, 100, 4095, 4096, 4097, 8191, 8192, 8193, total - 1, total // 2} | {rng.randrange(1, total) for _ in range(4 if ctx.quick else 60)}
            for cut in sorted(x for x in cuts if 0 < x < total):
                cases.append(dict(c, cut_at=cut))
            cut = rng.randrange(1, total)
            cases.append(dict(c, cut_at=cut, fail_at=rng.randrange(cut, total + 1)))
            cases.append(dict(c, cut_at=cut, close_fails=True))
        cases.append(dict(c, zero_err=True))
        cases.append(dict(c, zero_err=True, fail_at=total // 2))
    for _ in range(extra_random):
        n = rng.randrange(0, 6)
        arr = list(range(n)); rng.shuffle(arr)
        big = rng.random() < 0.25
        cases.append(dict(writer=rng.choice(WRITERS), sizes=[rng.choice([0, 1, 1, 2]) for _ in range(n)], arrival=arr,
                          seqlen=rng.choice([1100, 2100, 4100]) if big else 0,
                          fail_at=rng.choice([-1, rng.randrange(0, 200), rng.randrange(0, 20000)]) if big else rng.randrange(-1, 150),
                          close_fails=rng.random() < 0.1, compressed=rng.random() < 0.1))
    return cases


# ---------------------------------------------------------------- the built commands against /dev/full
def cli_cases(ctx):
    d = os.path.join(vlib.BUILD, "c18_in")
    os.makedirs(d, exist_ok=True)
    for name, n in (("small", 3), ("large", 400)):
        with open(os.path.join(d, name + ".fasta"), "w") as f:
            f.write("".join(">s%d\n%s\n" % (i, "acgtacgtac" * 6) for i in range(n)))
        with open(os.path.join(d, name + ".fastq"), "w") as f:
            f.write("".join("@s%d\n%s\n+\n%s\n" % (i, "acgtacgtac" * 6, "I" * 60) for i in range(n)))
    res = []
    for size in ("small", "large"):
        fa, fq = os.path.join(d, size + ".fasta"), os.path.join(d, size + ".fastq")
        for args in (["obiconvert", fa], ["obiconvert", fq], ["obiconvert", "--json-output", fa], ["obiconvert", "-Z", fa],
                     ["obiconvert", "--fasta-output", fq]):
            res.append(dict(argv=args, mode="-o"))
            res.append(dict(argv=args, mode=">"))
        res.append(dict(argv=["obicsv", "-i", "-s", fa], mode=">"))
        res.append(dict(argv=["obicsv", "-i", "-s", fa], mode="-o"))
    return res


def run_cli(bindir, c, target):
    argv = [os.path.join(bindir, c["argv"][0]), "--no-progressbar", "--max-cpu", "2"] + c["argv"][1:]
    try:
        if c["mode"] == "-o":
            p = subprocess.run(argv + ["-o", target], stdout=subprocess.DEVNULL, stderr=subprocess.PIPE, timeout=60)
        else:
            with open(target, "wb") as out:
                p = subprocess.run(argv, stdout=out, stderr=subprocess.PIPE, timeout=60)
        return p.returncode, p.stderr.decode("utf8", "replace")[-300:]
    except subprocess.TimeoutExpired:
        return 124, "timeout"


def cli_check(ctx, broken):
    bindir, err = ctx.build_cmds(["obiconvert", "obicsv"])
    if bindir is None:
        broken.append(dict(kind="cmd-build", detail=err))
        return 0
    cs = cli_cases(ctx)
    okfile = os.path.join(vlib.BUILD, "c18_in", "out.tmp")
    nbad = 0
    dist = {}
    for c in cs:
        rc_full, err_full = run_cli(bindir, c, "/dev/full")
        rc_ok, err_ok = run_cli(bindir, c, okfile)
        size_ok = os.path.getsize(okfile) if os.path.exists(okfile) else -1
        why = None
        if rc_ok != 0 or size_ok <= 0:
            why = "the command fails / writes nothing on a healthy output (exit %d, %d bytes)" % (rc_ok, size_ok)
        elif rc_full == 0:
            why = "exit status 0 although every write to the output failed (ENOSPC)"
        dist["%s %s" % (c["argv"][0], c["mode"])] = dist.get("%s %s" % (c["argv"][0], c["mode"]), 0) + 1
        if why:
            nbad += 1
            if nbad <= 3:
                ctx.violation("cli_%d" % nbad, dict(property="C18", kind="cli", case=c, why=why, exit_on_dev_full=rc_full, stderr_tail=err_full,
                                                    exit_on_file=rc_ok, expected="non-zero exit on /dev/full, zero on a regular file"))
    ctx.cov["cli_runs"] = 2 * len(cs)
    ctx.cov["cli_distribution"] = dist
    ctx.cov["cli_failures"] = nbad
    return len(cs)


def nontrivial(c):
    return c.get("fail_at", -1) >= 0 or c.get("close_fails") or shaped(c)


def run(ctx, broken):
    cases = gen_cases(ctx, 300 if ctx.quick else 3000)
    obs, fails, mism = evaluate(ctx, cases, broken, "main")
    ncli = cli_check(ctx, broken)
    ctx.cov["evaluations"] = len(cases) + 2 * ncli
    ctx.cov["distinct_nontrivial"] = len({json.dumps(norm(c), sort_keys=True) for c in cases if nontrivial(c)})
    ctx.cov["rule"] = ("non-trivial = a fault is injected (the device fails after fail_at bytes and/or at Close); distinct = distinct "
                       "(writer, sizes, arrival, workers, compressed, seqlen, fail_at, close_fails); small outputs: every byte offset")
    dist = {}
    for c, o in zip(cases, obs):
        k = "%s/%s/%s/%s" % (c["writer"], "big" if c.get("seqlen") else "small", "gz" if c.get("compressed") else "raw", o.get("exit"))
        dist[k] = dist.get(k, 0) + 1
    ctx.cov["distribution"] = dist
    ctx.cov["oracle_failures"] = len(fails)
    ctx.cov["model_vs_impl_mismatches"] = len(mism)
    ctx.cov["device_shapes"] = dict(
        short_write_without_error=sum(1 for c in cases if c.get("cut_at", 0) > 0),
        short_write_without_error_fatal=sum(1 for c, o in zip(cases, obs) if c.get("cut_at", 0) > 0 and c.get("fail_at", -1) < 0 and not c.get("close_fails") and o.get("exit") == "fatal"),
        short_write_without_error_retried_ok=sum(1 for c, o in zip(cases, obs) if c.get("cut_at", 0) > 0 and o.get("exit") == "ok"),
        error_on_zero_length_write=sum(1 for c in cases if c.get("zero_err")),
        zero_length_writes_that_reached_the_device=sum(o.get("zero_writes", 0) for o in obs),
        sync_calls_on_the_output=sum(o.get("syncs", 0) for o in obs),
        compressed_runs=sum(1 for c in cases if c.get("compressed")),
        observation_gzip_short_write_without_error_lost_bytes=sum(1 for c, o in zip(cases, obs) if c.get("compressed") and c.get("cut_at", 0) > 0 and o.get("_lost")),
        compressed_ok_exits_with_a_failed_device_write=sum(1 for c, o in zip(cases, obs) if c.get("compressed") and o.get("exit") == "ok" and o.get("dev_failed")))
    ctx.samples = []
    for i in (0, 2, 4, len(CORPUS) + 1, len(cases) - 1):
        o = {k: v for k, v in obs[i].items() if k not in ("chunks", "got", "_term")}; o["got"] = "%d bytes" % obs[i].get("got_len", 0)
        ctx.samples.append(dict(case=norm(cases[i]), implementation=o))
    if mism and not ctx.violations:
        more = gen_cases(ctx, 6000)
        evaluate(ctx, more, [], "search", corr=False)
        if not ctx.violations:
            i = mism[0]
            o = {k: v for k, v in obs[i].items() if k not in ("chunks", "_term")}
            broken.append(dict(kind="correspondence", name="corr:C18/%s/exit+bytes+closes" % cases[i]["writer"], first_diverging_case=norm(cases[i]),
                               implementation=o, n_diverging=len(mism)))
    elif mism:
        ctx.cov["note"] = "model and implementation diverge on %d cases (violations reported by the direct oracle)" % len(mism)


def replay(ctx, rp):
    c = rp.get("case") or rp.get("first_diverging_case")
    if rp.get("kind") == "cli":
        bindir, err = ctx.build_cmds(["obiconvert", "obicsv"])
        cli_cases(ctx)
        print("replay:", c, "-> exit on /dev/full:", run_cli(bindir, c, "/dev/full"))
        return
    obs, fails, mism = evaluate(ctx, [c], [], "replay")
    o = {k: v for k, v in obs[0].items() if k not in ("chunks", "got", "_term")}; o["got"] = "%d bytes" % obs[0].get("got_len", 0)
    print("replay:", c, "->", o, "| oracle:", fails[0][1] if fails else "ok", "| model:", "mismatch" if mism else "agrees")
