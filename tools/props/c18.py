"""C18 — output write failures are reported, never followed by a successful exit."""
import json, os, gzip, subprocess
from concurrent.futures import ThreadPoolExecutor
import vlib

PROPS = ["C18/Props.v"]
META = dict(
    text="Rocq theorems over an executable model of the output path writer loop -> Wfile (bufio.Writer.Write/Flush transcribed from the Go library, sticky error) -> device accepting k bytes / failing at Close: for every chunk list, every arrival permutation, every buffer size and EVERY device, exit = ok implies that all expected bytes reached the device, it was closed exactly once and that Close succeeded (FASTA/FASTQ, JSON, CSV); explicitly: a device accepting k bytes with k smaller than the result, or a failing Close, gives a fatal exit (the model's fuel is proved sufficient). The unchanged code is kept as configuration `orig` with one refutation per discarded-error mechanism. Tied to the code on every run: the real WriteFasta/WriteFastq/WriteJSON/WriteCSV write into an io.WriteCloser failing after k bytes for every k of small outputs (boundary and sampled k around the 4096-byte buffer for outputs of 4-9 KB) or at Close, logrus' exit function is intercepted, and exit class (+ bytes received and close count on successful exits) is compared with the model (vm_compute) and with a Python oracle; the built obiconvert/obicsv commands are run against /dev/full and against a regular file.",
    note="Trusted: Coq kernel + vm_compute; harness (in-process fatal hook: the first call of logrus' ExitFunc records the exit and the device state, later actions are ignored), generators. The gzip layer (pgzip) is not modelled: compressed outputs are checked by the oracle only (exit class vs gunzip of what arrived). The model's device fails by a short write + error and stays failed; other error shapes are not enumerated. FASTA/FASTQ theorem needs both write paths checked (the variant 'drained chunks unchecked but Flush error returned' also holds by stickiness of bufio's error but is only proved for JSON: C18_json_robust). CLI runs use /dev/full (Linux). Several formatting workers: compared under the identity arrival.")
TRUSTED = ["bufio.Writer.Write/Flush transcribed by hand from the Go 1.23 library source (tied by the correspondence run, buffer size 4096)",
           "pgzip (compressed outputs) not modelled: oracle only"]

WRITERS = ["fasta", "fastq", "json", "csv"]
KIND = dict(fasta="KFasta", fastq="KFastq", json="KJson", csv="KCsv")
IMPORTS = ("From Coq Require Import NArith List. Import ListNotations.\n"
           "From OBI.C18 Require Import Model.\n")

SMALL = [([1, 1, 1], [0, 1, 2]), ([1, 1, 1], [2, 1, 0]), ([1, 1, 1], [1, 2, 0]), ([1, 0, 2], [2, 0, 1]), ([], []), ([0], [0]), ([2], [0])]
BIG = [([1, 1, 1], [0, 1, 2], 1400), ([1, 1, 1], [1, 2, 0], 1400), ([1, 1, 1], [2, 1, 0], 1400), ([1, 1], [1, 0], 4200), ([2, 1], [0, 1], 2100)]

# witnesses of the three mechanisms (always first)
CORPUS = [
    dict(writer="fasta", sizes=[1, 1, 1], arrival=[0, 1, 2], fail_at=5, tag="fixed:wfile-close-drops-flush-error (result smaller than the buffer on a full device)"),
    dict(writer="fastq", sizes=[1], arrival=[0], fail_at=0, tag="fixed:wfile-close-drops-flush-error"),
    dict(writer="fasta", sizes=[1, 1], arrival=[1, 0], seqlen=4200, fail_at=6000, tag="fixed:drained-chunk-write-error-discarded"),
    dict(writer="fastq", sizes=[1, 1, 1], arrival=[2, 1, 0], seqlen=1400, fail_at=5000, tag="fixed:drained-chunk-write-error-discarded"),
    dict(writer="json", sizes=[1, 1, 1], arrival=[0, 1, 2], fail_at=5, tag="fixed:json-ignores-write-errors"),
    dict(writer="json", sizes=[1, 1, 1], arrival=[0, 1, 2], seqlen=1400, fail_at=4200, tag="fixed:json-ignores-write-errors"),
    dict(writer="json", sizes=[1], arrival=[0], fail_at=-1, close_fails=True, tag="fixed:json-ignores-close-error"),
    dict(writer="csv", sizes=[1, 1, 1], arrival=[2, 1, 0], fail_at=5, tag="fixed:csv-ignores-write-errors"),
    dict(writer="csv", sizes=[1], arrival=[0], fail_at=-1, close_fails=True, tag="fixed:csv-ignores-close-error"),
    dict(writer="json", sizes=[1, 1], arrival=[0, 1], fail_at=3, compressed=True, tag="fixed:json-ignores-close-error (gzip)"),
    dict(writer="fasta", sizes=[1], arrival=[0], fail_at=-1, close_fails=True),
    dict(writer="fasta", sizes=[], arrival=[], fail_at=-1, close_fails=True),
    dict(writer="fasta", sizes=[], arrival=[], fail_at=0),
]


def norm(c):
    return dict(writer=c["writer"], sizes=c["sizes"], arrival=c["arrival"], workers=c.get("workers", 1), compressed=bool(c.get("compressed")),
                seqlen=c.get("seqlen", 0), fail_at=c.get("fail_at", -1), close_fails=bool(c.get("close_fails")))


def run_impl(ctx, cases, nproc=8):
    vc = [norm(c) for c in cases]
    if len(vc) < 300:
        return ctx.vh_robust("c18", vc, timeout=300, one_timeout=15)
    k = (len(vc) + nproc - 1) // nproc
    parts = [vc[i:i + k] for i in range(0, len(vc), k)]
    with ThreadPoolExecutor(max_workers=nproc) as ex:
        res = list(ex.map(lambda p: ctx.vh_robust("c18", p, timeout=900, one_timeout=15), parts))
    return [o for r in res for o in r]


def expected_bytes(c, o):
    """what a fault-free run must deliver (C04): computed from the formatted batches"""
    chunks = [bytes.fromhex(x) for x in (o.get("chunks") or [])]
    w = c["writer"]
    if w in ("fasta", "fastq"):
        return b"".join(chunks)
    if w == "json":
        return b"[\n" + b",\n".join(x for x in chunks if x) + b"\n]\n"
    if not chunks:
        return b""
    return bytes.fromhex(o.get("header") or "") + b"".join(chunks)


def arrived(c, o):
    b = bytes.fromhex(o.get("got") or "")
    if c.get("compressed"):
        try:
            return gzip.decompress(b)
        except Exception:
            return None
    return b


def check(c, o):
    """Direct oracle: exit ok => every expected byte reached the device and it was closed (once);
    no injected fault => exit ok."""
    if o.get("kind") != "ok":
        return "writer did not terminate / crashed: %s" % (o.get("err") or o.get("kind"))
    exp = expected_bytes(c, o)
    if o["exit"] == "ok":
        if arrived(c, o) != exp:
            got = bytes.fromhex(o.get("got") or "")
            return "successful exit although only %d bytes%s reached the output (fault after %s bytes%s)" % (
                len(got), "" if c.get("compressed") else " of %d" % len(exp), c.get("fail_at", -1), ", close fails" if c.get("close_fails") else "")
        if o["closes"] != 1:
            return "successful exit with the output closed %d times" % o["closes"]
        if c.get("close_fails"):
            return "successful exit although Close of the output failed"
        return None
    # fatal: legitimate only if a fault was injected and could be hit
    k = c.get("fail_at", -1)
    if not c.get("close_fails") and (k < 0 or (not c.get("compressed") and k >= len(exp))):
        return "fatal exit without any output failure"
    return None


class Table:
    def __init__(self):
        self.names = {}

    def ref(self, b):
        if not b:
            return "[]"
        if b not in self.names:
            self.names[b] = "K%d" % len(self.names)
        return self.names[b]

    def defs(self):
        return "".join("Definition %s : list N := %s.\n" % (n, packed(b)) for b, n in self.names.items())


def nlist(b):
    return "[" + ";".join(str(x) for x in b) + "]%N" if b else "[]"


def packed(b):
    """Gallina term for a byte string; long periodic runs (sequence / quality lines) as [cyc n pattern]"""
    segs, lit, i, n = [], [], 0, len(b)
    while i < n:
        best = None
        if n - i >= 60:
            for per in (1, 4, 20, 61):
                if i + 2 * per > n or b[i:i + per] != b[i + per:i + 2 * per]:
                    continue
                run = 2 * per
                while i + run < n and b[i + run] == b[i + run - per]:
                    run += 1
                if run >= 60 and (best is None or run > best[1]):
                    best = (per, run)
        if best:
            if lit:
                segs.append(nlist(bytes(lit))); lit = []
            segs.append("cyc %d %s" % (best[1], nlist(b[i:i + best[0]])))
            i += best[1]
        else:
            lit.append(b[i]); i += 1
    if lit:
        segs.append(nlist(bytes(lit)))
    return "(" + " ++ ".join(segs) + ")" if segs else "[]"


def case_term(tab, c, o):
    chunks = [bytes.fromhex(x) for x in (o.get("chunks") or [])]
    arrival = c["arrival"] if c.get("workers", 1) == 1 else list(range(len(c["sizes"])))
    k = c.get("fail_at", -1)
    got = bytes.fromhex(o.get("got") or "")
    exp = expected_bytes(c, o)
    # the bytes that arrived are a prefix of the expected ones in every sane run: name the prefix
    gterm = ("firstn (N.to_nat %d) %s" % (len(got), tab.ref(exp))) if (exp[:len(got)] == got and got) else nlist(got)
    return "mkc %s %s [%s] [%s] %s %s %s (%s) %d" % (
        KIND[c["writer"]], tab.ref(bytes.fromhex(o.get("header") or "")), "; ".join(tab.ref(x) for x in chunks),
        "; ".join(str(i) for i in arrival), "None" if k < 0 else "(Some (N.to_nat %d))" % k,
        "false" if c.get("close_fails") else "true", "true" if o["exit"] == "fatal" else "false", gterm, o["closes"])


def evaluate(ctx, cases, broken, label, corr=True, fn="mismatches"):
    obs = run_impl(ctx, cases)
    fails = []
    for i, (c, o) in enumerate(zip(cases, obs)):
        why = check(c, o)
        if why:
            fails.append((i, why))
    shown = set()
    for i, why in fails:
        key = (cases[i]["writer"], why.split(" bytes")[0][:40], bool(cases[i].get("compressed")))
        if key in shown or len(shown) >= 6:
            continue
        shown.add(key)
        o = dict(obs[i]); o.pop("chunks", None)
        ctx.violation("%s_oracle_%d" % (label, i), dict(property="C18", kind="direct-oracle", case=norm(cases[i]), tag=cases[i].get("tag"), why=why,
                                                      implementation=o, expected="exit fatal, or all %d bytes delivered and one Close" % len(expected_bytes(cases[i], obs[i]))))
    if not corr:
        return obs, fails, []
    idx = [i for i, (c, o) in enumerate(zip(cases, obs)) if o.get("kind") == "ok" and not c.get("compressed")]
    tab = Table()
    terms = [case_term(tab, cases[i], obs[i]) for i in idx]
    bad, err = ctx.correspond(label, IMPORTS + tab.defs(), terms, fn=fn, shard=250 if ctx.quick else 150, timeout=2400)
    if bad is None:
        broken.append(dict(kind="correspondence", detail=err))
        return obs, fails, []
    return obs, fails, [idx[i] for i in bad]


def gen_cases(ctx, extra_random):
    rng = ctx.rng
    # pass 1: fault-free runs (also give the output sizes)
    base = []
    for w in WRITERS:
        for sizes, arr in SMALL:
            base.append(dict(writer=w, sizes=sizes, arrival=arr, fail_at=-1))
        for sizes, arr, sl in BIG:
            base.append(dict(writer=w, sizes=sizes, arrival=arr, seqlen=sl, fail_at=-1))
        base.append(dict(writer=w, sizes=[1, 1, 1, 1], arrival=[0, 1, 2, 3], workers=4, fail_at=-1))
        base.append(dict(writer=w, sizes=[1, 2, 1], arrival=[2, 0, 1], fail_at=-1, compressed=True))
        base.append(dict(writer=w, sizes=[2, 1, 2], arrival=[1, 2, 0], seqlen=2000, fail_at=-1, compressed=True))
    obs = run_impl(ctx, base)
    cases = list(CORPUS) + base
    for c, o in zip(base, obs):
        if o.get("kind") != "ok":
            continue
        total = len(bytes.fromhex(o.get("got") or ""))
        chunks = [len(x) // 2 for x in (o.get("chunks") or [])]
        if c.get("compressed"):
            ks = {0, 1, 9, 10, 11, total - 1, total // 2} | {rng.randrange(total + 1) for _ in range(4 if ctx.quick else 40)}
        elif total <= 600:
            ks = set(range(0, total + 2))                     # EVERY byte offset
        else:
            ks = {0, 1, 4095, 4096, 4097, 8191, 8192, 8193, total - 1, total, total + 1}
            acc = len(bytes.fromhex(o.get("header") or "")) + (2 if c["writer"] == "json" else 0)
            for n in chunks:
                acc += n
                ks |= {acc - 1, acc, acc + 1, acc + 2, acc + 3}
            ks |= {rng.randrange(total + 1) for _ in range(6 if ctx.quick else 100)}
        for k in sorted(x for x in ks if x >= 0):
            cases.append(dict(c, fail_at=k))
        cases.append(dict(c, close_fails=True))
        if total > 0:
            cases.append(dict(c, fail_at=total // 2, close_fails=True))
    for _ in range(extra_random):
        n = rng.randrange(0, 6)
        arr = list(range(n)); rng.shuffle(arr)
        big = rng.random() < 0.25
        cases.append(dict(writer=rng.choice(WRITERS), sizes=[rng.choice([0, 1, 1, 2]) for _ in range(n)], arrival=arr,
                          seqlen=rng.choice([1100, 2100, 4100]) if big else 0,
                          fail_at=rng.choice([-1, rng.randrange(0, 200), rng.randrange(0, 20000)]) if big else rng.randrange(-1, 150),
                          close_fails=rng.random() < 0.1, compressed=rng.random() < 0.1))
    return cases


# ---------------------------------------------------------------- the built commands against /dev/full
def cli_cases(ctx):
    d = os.path.join(vlib.BUILD, "c18_in")
    os.makedirs(d, exist_ok=True)
    for name, n in (("small", 3), ("large", 400)):
        with open(os.path.join(d, name + ".fasta"), "w") as f:
            f.write("".join(">s%d\n%s\n" % (i, "acgtacgtac" * 6) for i in range(n)))
        with open(os.path.join(d, name + ".fastq"), "w") as f:
            f.write("".join("@s%d\n%s\n+\n%s\n" % (i, "acgtacgtac" * 6, "I" * 60) for i in range(n)))
    res = []
    for size in ("small", "large"):
        fa, fq = os.path.join(d, size + ".fasta"), os.path.join(d, size + ".fastq")
        for args in (["obiconvert", fa], ["obiconvert", fq], ["obiconvert", "--json-output", fa], ["obiconvert", "-Z", fa],
                     ["obiconvert", "--fasta-output", fq]):
            res.append(dict(argv=args, mode="-o"))
            res.append(dict(argv=args, mode=">"))
        res.append(dict(argv=["obicsv", "-i", "-s", fa], mode=">"))
    return res


def run_cli(bindir, c, target):
    argv = [os.path.join(bindir, c["argv"][0]), "--no-progressbar", "--max-cpu", "2"] + c["argv"][1:]
    try:
        if c["mode"] == "-o":
            p = subprocess.run(argv + ["-o", target], stdout=subprocess.DEVNULL, stderr=subprocess.PIPE, timeout=60)
        else:
            with open(target, "wb") as out:
                p = subprocess.run(argv, stdout=out, stderr=subprocess.PIPE, timeout=60)
        return p.returncode, p.stderr.decode("utf8", "replace")[-300:]
    except subprocess.TimeoutExpired:
        return 124, "timeout"


def cli_check(ctx, broken):
    bindir, err = ctx.build_cmds(["obiconvert", "obicsv"])
    if bindir is None:
        broken.append(dict(kind="cmd-build", detail=err))
        return 0
    cs = cli_cases(ctx)
    okfile = os.path.join(vlib.BUILD, "c18_in", "out.tmp")
    nbad = 0
    dist = {}
    for c in cs:
        rc_full, err_full = run_cli(bindir, c, "/dev/full")
        rc_ok, err_ok = run_cli(bindir, c, okfile)
        size_ok = os.path.getsize(okfile) if os.path.exists(okfile) else -1
        why = None
        if rc_ok != 0 or size_ok <= 0:
            why = "the command fails / writes nothing on a healthy output (exit %d, %d bytes)" % (rc_ok, size_ok)
        elif rc_full == 0:
            why = "exit status 0 although every write to the output failed (ENOSPC)"
        dist["%s %s" % (c["argv"][0], c["mode"])] = dist.get("%s %s" % (c["argv"][0], c["mode"]), 0) + 1
        if why:
            nbad += 1
            if nbad <= 3:
                ctx.violation("cli_%d" % nbad, dict(property="C18", kind="cli", case=c, why=why, exit_on_dev_full=rc_full, stderr_tail=err_full,
                                                    exit_on_file=rc_ok, expected="non-zero exit on /dev/full, zero on a regular file"))
    ctx.cov["cli_runs"] = 2 * len(cs)
    ctx.cov["cli_distribution"] = dist
    ctx.cov["cli_failures"] = nbad
    return len(cs)


def nontrivial(c):
    return c.get("fail_at", -1) >= 0 or c.get("close_fails")


def run(ctx, broken):
    cases = gen_cases(ctx, 300 if ctx.quick else 3000)
    obs, fails, mism = evaluate(ctx, cases, broken, "main")
    ncli = cli_check(ctx, broken)
    ctx.cov["evaluations"] = len(cases) + 2 * ncli
    ctx.cov["distinct_nontrivial"] = len({json.dumps(norm(c), sort_keys=True) for c in cases if nontrivial(c)})
    ctx.cov["rule"] = ("non-trivial = a fault is injected (the device fails after fail_at bytes and/or at Close); distinct = distinct "
                       "(writer, sizes, arrival, workers, compressed, seqlen, fail_at, close_fails); small outputs: every byte offset")
    dist = {}
    for c, o in zip(cases, obs):
        k = "%s/%s/%s/%s" % (c["writer"], "big" if c.get("seqlen") else "small", "gz" if c.get("compressed") else "raw", o.get("exit"))
        dist[k] = dist.get(k, 0) + 1
    ctx.cov["distribution"] = dist
    ctx.cov["oracle_failures"] = len(fails)
    ctx.cov["model_vs_impl_mismatches"] = len(mism)
    ctx.samples = []
    for i in (0, 2, 4, len(CORPUS) + 1, len(cases) - 1):
        o = dict(obs[i]); o.pop("chunks", None); o["got"] = "%d bytes" % (len(o.get("got") or "") // 2)
        ctx.samples.append(dict(case=norm(cases[i]), implementation=o))
    if mism and not ctx.violations:
        more = gen_cases(ctx, 6000)
        evaluate(ctx, more, [], "search", corr=False)
        if not ctx.violations:
            i = mism[0]
            o = dict(obs[i]); o.pop("chunks", None)
            broken.append(dict(kind="correspondence", name="corr:C18/%s/exit+bytes+closes" % cases[i]["writer"], first_diverging_case=norm(cases[i]),
                               implementation=o, n_diverging=len(mism)))
    elif mism:
        ctx.cov["note"] = "model and implementation diverge on %d cases (violations reported by the direct oracle)" % len(mism)


def replay(ctx, rp):
    c = rp.get("case") or rp.get("first_diverging_case")
    if rp.get("kind") == "cli":
        bindir, err = ctx.build_cmds(["obiconvert", "obicsv"])
        cli_cases(ctx)
        print("replay:", c, "-> exit on /dev/full:", run_cli(bindir, c, "/dev/full"))
        return
    obs, fails, mism = evaluate(ctx, [c], [], "replay")
    o = dict(obs[0]); o.pop("chunks", None); o["got"] = "%d bytes" % (len(o.get("got") or "") // 2)
    print("replay:", c, "->", o, "| oracle:", fails[0][1] if fails else "ok", "| model:", "mismatch" if mism else "agrees")
