"""C18 — output write failures are reported, never followed by a successful exit."""
import json, os, gzip, subprocess, re
from concurrent.futures import ThreadPoolExecutor
import vlib

PROPS = ["C18/Props.v"]
META = dict(
    text="Rocq theorems over an executable model of the output path writer loop -> Wfile (bufio.Writer.Write/Flush transcribed from the Go library, sticky error) -> lower layer: for every chunk list, every arrival permutation, every buffer size and EVERY device, exit = ok implies that all expected bytes were delivered, the output was closed exactly once and that Close succeeded. Proved (i) for the plain device accepting k bytes / failing at Close (FASTA/FASTQ, JSON, CSV; explicit: k smaller than the result, or a failing Close, gives a fatal exit; the model's fuel is sufficient), (ii) over an ABSTRACT lower layer (Layer.v), instantiated with COMPRESSED outputs (-Z: the compressor is any state machine that acts on the device only by writing and obeys the single law 'an error of the device is returned by a later Write or by Close') and with other device error shapes (a short write WITHOUT error at any offset, an error on zero-length writes); (iii) robust variants (only Close checked + Flush error returned suffices: bufio's error is sticky); (iv) round 3: streams the writer does NOT own (OptionDontCloseFile = JSON/CSV on the standard output, plain and compressed: exit ok => every byte delivered and the stream left open; the final flush / compressor close stays fatal), a HISTORY of calls on one Wfile (Close without error => every Write returned Ok and every byte is below; after the first error every later call and Close fail), and the order 'report the Close error, then signal completion' (after the signal main may exit 0: with the code's order a possible successful exit implies a complete output; refuted for the opposite order). The unchanged code is kept as configuration `orig` with one refutation per discarded-error mechanism. Tied to the code on every run: the real WriteFasta/WriteFastq/WriteJSON/WriteCSV (owned or not owned stream, plain or rich records, 1-4 formatting workers, up to 60 batches in shuffled arrival), WriteSeqFileChunk fed directly (toBeClosed or closed by the caller) and histories of Write/WriteString/Close on one obiutils.Wfile (CompressStream and OpenWritingFile on /dev/full and regular files) write into an io.WriteCloser failing after k bytes for every k of small outputs (boundary and sampled k around the 4096-byte buffer for larger ones, compressed results above one 1 MiB compressor block), at Close, cutting a write short without error, or failing zero-length writes; logrus' exit function is intercepted (a subset of the runs with a SLOW logger, so that a fatal message issued after completion was signalled loses the race deterministically), and exit class (+ bytes received, close count) is compared with the models (vm_compute) and with a Python oracle; the built obiconvert / obicsv / obigrep / obidistribute are run against /dev/full and against regular files: stdout and -o, all four formats explicit and guessed, -Z, OBI headers, one CPU, paired outputs (either mate on the full device), the side output of --save-discarded, one file per class (obidistribute, append mode), an output that cannot be opened, a reader of the output that goes away in the middle of a large result (FIFO / pipe: EPIPE, SIGPIPE); the small results are run four times each (schedule-dependent exits).",
    note="Trusted: Coq kernel + vm_compute; harness (in-process fatal hook: the first call of logrus' ExitFunc records the exit and the device state, later actions are ignored), generators. pgzip itself is not modelled: it enters the compressed theorems only through the law gz_law (hypothesis; shown satisfiable by a store-and-forward instance); that the law holds of pgzip is checked per run by the oracle (exit ok => gunzip(arrived) = expected and no device error), not proved. Decided device shapes: short write WITHOUT error - uncompressed safe (bufio: io.ErrShortWrite while flushing => fatal; retried on the direct path; proved + corresponded; a divergence of the exit class from the 4096-byte model on this contract-breaking shape is recorded, not alarmed: it depends on the buffer size), compressed NOT safe (pgzip ignores the count: observation gzip-short-write-without-error, outside the io.Writer contract); error on a zero-length write - never reaches the device; failing Sync - nothing on the output path calls Sync. CLI runs use /dev/full (Linux) and symbolic links to it. Several formatting workers: compared under the identity arrival. Outside the property, not judged (the check executes most of it, but takes the formatted chunk as given; C02/C04 judge the text): the record formatters JSONRecord / _UnescapeUnicodeCharactersInJSON / CSVRecord / CSVHeader / FormatFasta / FormatFastq (single record, never called by the writers) and the log.Fatalf on an empty sequence without --skip-empty (an input error, not an output failure). Not exercised: CLIWriteBioSequences with terminalAction=false (obicleandb, obikmersimcount: need reference data; same writers), the append and paired branches of WriteCSVToFile / the append branch of WriteJSONToFile (no command reaches them), the panics of JSONRecord on a marshalling error and the error of os.Stdout.Stat (not reachable), FormatFastq (no caller). Observations recorded in known_findings.d/C18.json (no failure of the output involved): OpenWritingFile (no caller in the repository) does not truncate an existing file; BuildPairedFileNames panics on an output name without extension.")
TRUSTED = ["bufio.Writer.Write/Flush transcribed by hand from the Go 1.23 library source (tied by the correspondence run, buffer size 4096)",
           "compressed outputs: pgzip is an abstract transducer constrained only by the hypothesis gz_law (acts on the device by writes only; a device error is returned by a later Write or by Close); the law is checked on pgzip per run by the oracle, not proved",
           "devices honour the io.Writer contract in the compressed theorems (a short write without error below pgzip loses bytes: observation gzip-short-write-without-error)",
           "the race between main's return and a late log.Fatalf is modelled as 'main may exit 0 as soon as completion is signalled' (Own.v may_exit_ok); the in-process runs with a slow logger are the observation of that schedule; the commands on small results are repeated"]

WRITERS = ["fasta", "fastq", "json", "csv"]
ERR_KINDS = ["closed", "eof", "shortwrite", "closedpipe", "epipe"]
KIND = dict(fasta="KFasta", fastq="KFastq", json="KJson", csv="KCsv")
IMPORTS = ("From Coq Require Import NArith List. Import ListNotations.\n"
           "From OBI.C18 Require Import Model.\n")

SMALL = [([1, 1, 1], [0, 1, 2]), ([1, 1, 1], [2, 1, 0]), ([1, 1, 1], [1, 2, 0]), ([1, 0, 2], [2, 0, 1]), ([], []), ([0], [0]), ([2], [0])]
# chunk sizes in bytes around the 4096-byte buffer of bufio (per chunk and in total), chunks larger than
# the buffer arriving when it is empty, zero-length chunks
BOUNDARY = [([4095], [0]), ([4096], [0]), ([4097], [0]), ([2048, 2047], [1, 0]), ([2048, 2048], [1, 0]), ([2048, 2049], [0, 1]),
            ([4000, 96, 0], [1, 0, 2]), ([0, 9000, 0, 100], [0, 1, 2, 3]), ([100, 9000], [1, 0]), ([4096, 4096], [1, 0]), ([60, 0, 0, 4036], [3, 2, 1, 0])]
BIG = [([1, 1, 1], [0, 1, 2], 1400), ([1, 1, 1], [1, 2, 0], 1400), ([1, 1, 1], [2, 1, 0], 1400), ([1, 1], [1, 0], 4200), ([2, 1], [0, 1], 2100)]

# witnesses of the three mechanisms (always first)
CORPUS = [
    dict(writer="fasta", sizes=[1, 1, 1], arrival=[0, 1, 2], fail_at=5, tag="fixed:wfile-close-drops-flush-error (result smaller than the buffer on a full device)"),
    dict(writer="fastq", sizes=[1], arrival=[0], fail_at=0, tag="fixed:wfile-close-drops-flush-error"),
    dict(writer="fasta", sizes=[1, 1], arrival=[1, 0], seqlen=4200, fail_at=6000, tag="fixed:drained-chunk-write-error-discarded"),
    dict(writer="fastq", sizes=[1, 1, 1], arrival=[2, 1, 0], seqlen=1400, fail_at=5000, tag="fixed:drained-chunk-write-error-discarded"),
    dict(writer="json", sizes=[1, 1, 1], arrival=[0, 1, 2], fail_at=5, tag="fixed:json-ignores-write-errors"),
    dict(writer="json", sizes=[1, 1, 1], arrival=[0, 1, 2], seqlen=1400, fail_at=4200, tag="fixed:json-ignores-write-errors"),
    dict(writer="json", sizes=[1], arrival=[0], fail_at=-1, close_fails=True, tag="fixed:json-ignores-close-error"),
    dict(writer="csv", sizes=[1, 1, 1], arrival=[2, 1, 0], fail_at=5, tag="fixed:csv-ignores-write-errors"),
    dict(writer="csv", sizes=[1], arrival=[0], fail_at=-1, close_fails=True, tag="fixed:csv-ignores-close-error"),
    dict(writer="json", sizes=[1, 1], arrival=[0, 1], fail_at=3, compressed=True, tag="fixed:json-ignores-close-error (gzip)"),
    dict(writer="fasta", sizes=[1], arrival=[0], fail_at=-1, close_fails=True),
    dict(writer="fasta", sizes=[], arrival=[], fail_at=-1, close_fails=True),
    dict(writer="fasta", sizes=[], arrival=[], fail_at=0),
]


def norm(c):
    return dict(writer=c["writer"], sizes=c.get("sizes") or [], bytes=c.get("bytes") or [], arrival=c["arrival"], workers=c.get("workers", 1), compressed=bool(c.get("compressed")),
                seqlen=c.get("seqlen", 0), fail_at=c.get("fail_at", -1), close_fails=bool(c.get("close_fails")),
                cut_at=c.get("cut_at", 0), zero_err=bool(c.get("zero_err")),
                unowned=bool(c.get("unowned")), slow_log=bool(c.get("slow_log")), rich=bool(c.get("rich")), mode=c.get("mode", ""),
                keep_open=bool(c.get("keep_open")), empty=bool(c.get("empty")), ops=c.get("ops") or [], path=c.get("path", ""), append=bool(c.get("append")), pre=c.get("pre", 0),
                err_kind=c.get("err_kind", ""))


def family(c):
    """which model evaluates the case: plain (Model.v), shapes (Layer.v), unowned / wfile (Own.v)"""
    if c.get("mode") == "wfile":
        return "wfile"
    if c.get("unowned"):
        return "unowned"
    return "shapes" if shaped(c) else "plain"


def shaped(c):
    return c.get("cut_at", 0) > 0 or bool(c.get("zero_err"))


def run_impl(ctx, cases, nproc=8, post=None):
    """[post(i, case, obs)] is applied to every observation as soon as its part is back (oracle, Gallina term,
    dropping of the bulky fields: memory)."""
    vc = [norm(c) for c in cases]

    def part(lo, hi, tmo):
        r = ctx.vh_robust("c18", vc[lo:hi], timeout=tmo, one_timeout=15)
        if post:
            r = [post(lo + j, cases[lo + j], o) for j, o in enumerate(r)]
        return r
    if len(vc) < 300:
        return part(0, len(vc), 300)
    k = 1500 if len(vc) > 12000 else (len(vc) + nproc - 1) // nproc
    bounds = [(i, min(i + k, len(vc))) for i in range(0, len(vc), k)]
    with ThreadPoolExecutor(max_workers=nproc) as ex:
        res = list(ex.map(lambda b: part(b[0], b[1], 900), bounds))
    return [o for r in res for o in r]


def expected_bytes(c, o):
    """what a fault-free run must deliver (C04): computed from the formatted batches"""
    chunks = [bytes.fromhex(x) for x in (o.get("chunks") or [])]
    w = c["writer"]
    if w in ("fasta", "fastq") or c.get("mode") == "wfile":
        return b"".join(chunks)
    if w == "json":
        return b"[\n" + b",\n".join(x for x in chunks if x) + b"\n]\n"
    if not chunks:
        return b""
    return bytes.fromhex(o.get("header") or "") + b"".join(chunks)


def arrived(c, o):
    b = bytes.fromhex(o.get("got") or "")
    if c.get("compressed"):
        try:
            return gzip.decompress(b)
        except Exception:
            return None
    return b


def check(c, o):
    """Direct oracle: exit ok => every expected byte reached the device and it was closed (once);
    no injected fault => exit ok."""
    if o.get("kind") == "skip":
        return None      # a chunk of exactly that many bytes cannot be formed
    if o.get("kind") != "ok":
        return "writer did not terminate / crashed: %s" % (o.get("err") or o.get("kind"))
    if c.get("path"):
        return check_path(c, o)
    exp = expected_bytes(c, o)
    want_closes = 0 if c.get("unowned") else 1
    close_fails = bool(c.get("close_fails")) and not c.get("unowned")     # a stream that is not owned is never closed
    if o["exit"] == "ok" and c.get("compressed") and c.get("cut_at", 0) > 0 and not o.get("dev_failed") and o["closes"] == want_closes:
        # observation gzip-short-write-without-error (known_findings.d/C18.json): pgzip relies on the io.Writer
        # contract (n < len(p) => err != nil); a device breaking it is outside the property's fault model
        return None
    if o["exit"] == "ok":
        if o.get("dev_failed"):
            return "successful exit although a Write or the Close of the output returned an error"
        if arrived(c, o) != exp:
            got = bytes.fromhex(o.get("got") or "")
            return "successful exit although only %d bytes%s reached the output (fault after %s bytes%s)" % (
                len(got), "" if c.get("compressed") else " of %d" % len(exp), c.get("fail_at", -1), ", close fails" if c.get("close_fails") else "")
        if o["closes"] != want_closes:
            return "successful exit with the output closed %d times (%s)" % (o["closes"], "not owned: must stay open" if c.get("unowned") else "owned")
        if close_fails:
            return "successful exit although Close of the output failed"
        return None
    # fatal: legitimate only if a fault was injected and could be hit
    k = c.get("fail_at", -1)
    if c.get("cut_at", 0) > 0 and (c["cut_at"] < len(exp) or c.get("compressed")):
        return None      # a short write without error: bufio (pgzip) may turn it into io.ErrShortWrite
    if c.get("zero_err") and o.get("zero_writes"):
        return None
    if not close_fails and (k < 0 or (not c.get("compressed") and k >= len(exp))):
        return "fatal exit without any output failure"
    return None


def check_path(c, o):
    """obiutils.OpenWritingFile on a real path: /dev/full (every write fails: ENOSPC), a regular file, a missing directory"""
    data = b"".join(bytes.fromhex(x) for x in (o.get("chunks") or []))
    if o.get("open_err"):
        return None if "nodir" in c["path"] else "OpenWritingFile failed on %s" % c["path"]
    if "nodir" in c["path"]:
        return "OpenWritingFile succeeded in a directory that does not exist"
    if c["path"] == "/dev/full":
        if not o.get("reported") and (data or c.get("compressed")):
            return "no Write and no Close of the Wfile returned an error although the file is /dev/full (%d bytes lost)" % len(data)
        return None
    if o.get("reported"):
        return "a failure is reported on a healthy regular file"
    got = bytes.fromhex(o.get("file") or "")
    pre = b"P" * max(c.get("pre", 0), 0)
    if c.get("append"):
        if not got.startswith(pre):
            return "append mode lost the previous content"
        got = got[len(pre):]
        pre = b""
    if c.get("compressed"):
        try:
            got = gzip.decompress(got)
        except Exception:
            got = None
    elif not c.get("append") and len(pre) > len(data) and got == data + pre[len(data):]:
        o["_stale_tail"] = True      # observation openwritingfile-no-truncate: outside the property (no failure involved)
        return None
    if got != data:
        return "no failure reported but the file does not hold the %d bytes written" % len(data)
    return None


class Table:
    def __init__(self):
        self.names = {}

    def ref(self, b):
        if not b:
            return "[]"
        if b not in self.names:
            self.names[b] = "K%d" % len(self.names)
        return self.names[b]

    def defs(self, used=None):
        return "".join("Definition %s : list N := %s.\n" % (n, packed(b)) for b, n in self.names.items() if used is None or n in used)


def nlist(b):
    return "[" + ";".join(str(x) for x in b) + "]%N" if b else "[]"


def packed(b):
    """Gallina term for a byte string; long periodic runs (sequence / quality lines) as [cyc n pattern]"""
    segs, lit, i, n = [], [], 0, len(b)
    while i < n:
        best = None
        if n - i >= 60:
            for per in (1, 4, 20, 61):
                if i + 2 * per > n or b[i:i + per] != b[i + per:i + 2 * per]:
                    continue
                run = 2 * per
                while i + run < n and b[i + run] == b[i + run - per]:
                    run += 1
                if run >= 60 and (best is None or run > best[1]):
                    best = (per, run)
        if best:
            if lit:
                segs.append(nlist(bytes(lit))); lit = []
            segs.append("cyc %d %s" % (best[1], nlist(b[i:i + best[0]])))
            i += best[1]
        else:
            lit.append(b[i]); i += 1
    if lit:
        segs.append(nlist(bytes(lit)))
    return "(" + " ++ ".join(segs) + ")" if segs else "[]"


def case_term(tab, c, o):
    chunks = [bytes.fromhex(x) for x in (o.get("chunks") or [])]
    arrival = c["arrival"] if c.get("workers", 1) == 1 else list(range(len(c.get("bytes") or c["sizes"])))
    k = c.get("fail_at", -1)
    got = bytes.fromhex(o.get("got") or "")
    exp = expected_bytes(c, o)
    # the bytes that arrived are a prefix of the expected ones in every sane run: name the prefix
    gterm = ("firstn (N.to_nat %d) %s" % (len(got), tab.ref(exp))) if (exp[:len(got)] == got and got) else nlist(got)
    return "mkc %s %s [%s] [%s] %s %s %s (%s) %d" % (
        KIND[c["writer"]], tab.ref(bytes.fromhex(o.get("header") or "")), "; ".join(tab.ref(x) for x in chunks),
        "; ".join(str(i) for i in arrival), "None" if k < 0 else "(Some (N.to_nat %d))" % k,
        "false" if c.get("close_fails") else "true", "true" if o["exit"] == "fatal" else "false", gterm, o["closes"])


def scase_term(tab, c, o):
    chunks = [bytes.fromhex(x) for x in (o.get("chunks") or [])]
    arrival = c["arrival"] if c.get("workers", 1) == 1 else list(range(len(c.get("bytes") or c["sizes"])))
    k = c.get("fail_at", -1)
    got = bytes.fromhex(o.get("got") or "")
    exp = expected_bytes(c, o)
    gterm = ("firstn (N.to_nat %d) %s" % (len(got), tab.ref(exp))) if (exp[:len(got)] == got and got) else nlist(got)
    cut = c.get("cut_at", 0)
    return "mksc %s %s [%s] [%s] %s %s %s %s %s (%s) %d %d" % (
        KIND[c["writer"]], tab.ref(bytes.fromhex(o.get("header") or "")), "; ".join(tab.ref(x) for x in chunks),
        "; ".join(str(i) for i in arrival), "None" if k < 0 else "(Some (N.to_nat %d))" % k,
        "false" if c.get("close_fails") else "true", "(Some (N.to_nat %d))" % cut if cut > 0 else "None",
        "true" if c.get("zero_err") else "false", "true" if o["exit"] == "fatal" else "false", gterm, o["closes"], o.get("zero_writes", 0))


def ucase_term(tab, c, o):
    return "mkuc %s (%s)" % ("false" if c.get("unowned") else "true", scase_term(tab, c, o))


def wcase_term(tab, c, o):
    ops = [bytes.fromhex(x) for x in (o.get("chunks") or [])]
    k, cut = c.get("fail_at", -1), c.get("cut_at", 0)
    got = bytes.fromhex(o.get("got") or "")
    exp = b"".join(ops)
    gterm = ("firstn (N.to_nat %d) %s" % (len(got), tab.ref(exp))) if (exp[:len(got)] == got and got) else nlist(got)
    return "mkwc %s [%s] %s %s %s %s %s (%s) %d" % (
        "false" if c.get("unowned") else "true", "; ".join(tab.ref(x) for x in ops), "None" if k < 0 else "(Some (N.to_nat %d))" % k,
        "false" if c.get("close_fails") else "true", "(Some (N.to_nat %d))" % cut if cut > 0 else "None", "true" if c.get("zero_err") else "false",
        "true" if o.get("reported") else "false", gterm, o["closes"])


FAMILIES = dict(plain=("mismatches", "Model", case_term), shapes=("smismatches", "Model Layer", scase_term),
                unowned=("umismatches", "Model Layer Own", ucase_term), wfile=("wmismatches", "Model Layer Own", wcase_term))


def evaluate(ctx, cases, broken, label, corr=True, fn="mismatches"):
    import threading
    tabs, lock = {f: Table() for f in FAMILIES}, threading.Lock()

    def post(i, c, o):
        why = check(c, o)
        o["_why"] = why
        o["got_len"] = len(o.get("got") or "") // 2
        if o.get("kind") == "ok" and not c.get("path"):
            o["_exp_len"] = len(expected_bytes(c, o))
            o["_lost"] = (o.get("exit") == "ok" and arrived(c, o) != expected_bytes(c, o))
            if corr and not c.get("compressed"):
                f = family(c)
                with lock:
                    o["_term"] = FAMILIES[f][2](tabs[f], c, o)
        if why is None:
            o.pop("chunks", None); o.pop("got", None); o.pop("file", None)      # not looked at again
        return o
    import time
    t0 = time.time()
    obs = run_impl(ctx, cases, post=post)
    ctx.cov.setdefault("phase_wall_s", {})["%s_real_code_runs" % label] = round(time.time() - t0, 1)
    fails = [(i, o["_why"]) for i, o in enumerate(obs) if o.get("_why")]
    shown = set()
    for i, why in fails:
        c = cases[i]
        key = (c["writer"], re.sub(r"\d+", "#", why)[:60], bool(c.get("compressed")), family(c), c.get("mode", ""), bool(c.get("slow_log")))
        if key in shown or len(shown) >= 8:
            continue
        shown.add(key)
        o = {k: v for k, v in obs[i].items() if k not in ("chunks", "_term", "file")}
        ctx.violation("%s_oracle_%d" % (label, i), dict(property="C18", kind="direct-oracle", case=norm(cases[i]), tag=cases[i].get("tag"), why=why,
                                                      implementation=o, expected="exit fatal, or all %d bytes delivered and %s" % (
                                                          obs[i].get("_exp_len", 0), "the stream left open" if c.get("unowned") else "one Close")))
    if not corr:
        return obs, fails, []
    # one pool for the shards of all four models; each shard carries only the byte strings it names
    mism, jobs, idxs = [], [], {}
    shard = 250 if ctx.quick else 150
    for f, (ffn, mods, _) in FAMILIES.items():
        if fn != "mismatches" and f != "plain":
            continue
        idxs[f] = [i for i, (c, o) in enumerate(zip(cases, obs)) if o.get("_term") and family(c) == f]
        terms = [obs[i]["_term"] for i in idxs[f]]
        jobs += [(f, k, terms[k:k + shard]) for k in range(0, len(terms), shard)]

    def one(j):
        f, k, part = j
        ffn, mods, _ = FAMILIES[f]
        used = set(re.findall(r"\bK\d+\b", " ".join(part)))
        bad, err = ctx.correspond("%s_%s_%d" % (label, f, k // shard), IMPORTS.replace("Require Import Model.", "Require Import %s." % mods) + tabs[f].defs(used),
                                  part, fn=(fn if f == "plain" else ffn), shard=len(part) + 1, timeout=2400)
        return f, k, bad, err
    t0 = time.time()
    with ThreadPoolExecutor(max_workers=8) as ex:
        res = list(ex.map(one, jobs))
    ctx.cov.setdefault("phase_wall_s", {})["%s_models" % label] = round(time.time() - t0, 1)
    ctx.cov["model_shards"] = ctx.cov.get("model_shards", 0) + len(jobs)
    for f, k, bad, err in res:
        if bad is None:
            broken.append(dict(kind="correspondence", detail=err))
            continue
        hit = [idxs[f][k + i] for i in bad]
        # a device which accepts fewer bytes than it was given and returns NO error breaks the io.Writer contract: outside the
        # fault model of the property. Whether such a run ends fatally (io.ErrShortWrite of a flush) or retries depends on
        # the size of the buffer between the writer and the device - an internal constant a maintainer may change - so a
        # divergence from the model (buffer of 4096) on these cases is recorded, not held against the tie; the direct oracle
        # above still demands, for them too, that a successful exit delivered every byte.
        outside = [i for i in hit if cases[i].get("cut_at", 0) > 0]
        ctx.cov["short_write_without_error_model_divergences"] = ctx.cov.get("short_write_without_error_model_divergences", 0) + len(outside)
        mism += [i for i in hit if i not in set(outside)]
    return obs, fails, sorted(mism)


def fault_variants(ctx, c, o, light=False):
    """the fault cases derived from a fault-free run [c] -> [o]: every byte offset of small outputs, boundary and sampled
    offsets of larger ones, failing Close, the other device shapes. [light]: a sample only (second-order dimensions)."""
    rng, cases = ctx.rng, []
    total = len(bytes.fromhex(o.get("got") or ""))
    chunks = [len(x) // 2 for x in (o.get("chunks") or [])]
    huge = total > 100000 or c.get("seqlen", 0) >= 100000
    if c.get("compressed"):
        ks = {0, 1, 9, 10, 11, total - 1, total // 2} | {rng.randrange(total + 1) for _ in range(4 if ctx.quick else 40)}
        if huge or light:
            ks = {0, 11, total // 2, total - 1} | {rng.randrange(total + 1) for _ in range(1 if ctx.quick else 10)}
    elif total <= 600:
        ks = set(range(0, total + 2))                     # EVERY byte offset
        if light:
            ks = {0, 1, total // 2, total - 1, total, total + 1} | {rng.randrange(total + 1) for _ in range(6 if ctx.quick else 40)}
    else:
        ks = {0, 1, 4095, 4096, 4097, 8191, 8192, 8193, total - 1, total, total + 1}
        acc = len(bytes.fromhex(o.get("header") or "")) + (2 if c["writer"] == "json" else 0)
        for n in chunks[:40]:
            acc += n
            ks |= {acc - 1, acc, acc + 1, acc + 2, acc + 3}
        if light:
            ks = set(rng.sample(sorted(ks), min(len(ks), 8))) | {total - 1}
        ks |= {rng.randrange(total + 1) for _ in range(6 if ctx.quick else 100)}
    for k in sorted(x for x in ks if x >= 0):
        cases.append(dict(c, fail_at=k))
    cases.append(dict(c, close_fails=True))
    if total > 0:
        cases.append(dict(c, fail_at=total // 2, close_fails=True))
    if huge:
        return cases
    # other device shapes: a short write WITHOUT error at offset cut; an error on zero-length writes
    if total > 1:
        if c.get("compressed") or light:
            cuts = {1, total // 2, total - 1}
        elif total <= 600:
            cuts = set(range(1, total, 3 if ctx.quick else 1))
        else:
            cuts = {1, 100, 4095, 4096, 4097, 8191, 8192, 8193, total - 1, total // 2} | {rng.randrange(1, total) for _ in range(4 if ctx.quick else 60)}
        for cut in sorted(x for x in cuts if 0 < x < total):
            cases.append(dict(c, cut_at=cut))
        cut = rng.randrange(1, total)
        cases.append(dict(c, cut_at=cut, fail_at=rng.randrange(cut, total + 1)))
        cases.append(dict(c, cut_at=cut, close_fails=True))
    cases.append(dict(c, zero_err=True))
    cases.append(dict(c, zero_err=True, fail_at=total // 2))
    return cases


# histories of calls on one Wfile: sizes of the successive Write (n >= 0) / WriteString (n < 0) calls
WFILE_OPS = [[], [0], [1], [10, -5, 0, 5000], [4096], [4095, 1], [4097], [-4096, -4096], [2000, 2000, 2000], [-9000, 10], [10, 9000, 10],
             [100, 0, 0, 100], [4000, 95, 1, 1, 1], [12000]]


def wfile_cases(ctx):
    rng, cases = ctx.rng, []
    opsl = list(WFILE_OPS)
    for _ in range(6 if ctx.quick else 60):
        opsl.append([rng.choice([0, 1, 10, 100, 1000, 4095, 4096, 4097, 5000, 9000]) * rng.choice([1, 1, -1]) for _ in range(rng.randrange(0, 7))])
    for ops in opsl:
        total = sum(abs(n) for n in ops)
        for un in (False, True):
            b = dict(writer="fasta", arrival=[], mode="wfile", ops=ops, fail_at=-1, unowned=un)
            cases.append(b)
            ks = {0, 1, total - 1, total, total // 2, 4095, 4096, 4097} | {rng.randrange(total + 1) for _ in range(3 if ctx.quick else 30)}
            acc = 0
            for n in ops:
                acc += abs(n)
                ks |= {acc - 1, acc, acc + 1}
            for k in sorted(x for x in ks if 0 <= x <= total + 1):
                cases.append(dict(b, fail_at=k))
            cases.append(dict(b, close_fails=True))
            cases.append(dict(b, zero_err=True))
            if total > 1:
                cases.append(dict(b, cut_at=rng.randrange(1, total)))
                cases.append(dict(b, fail_at=rng.randrange(total), close_fails=True))
        if total > 0:
            for k in (-1, 0, 11, total // 20):
                cases.append(dict(writer="fasta", arrival=[], mode="wfile", ops=ops, fail_at=k, compressed=True, unowned=bool(rng.randrange(2))))
            cases.append(dict(writer="fasta", arrival=[], mode="wfile", ops=ops, fail_at=-1, compressed=True, close_fails=True))
    # OpenWritingFile on real paths
    d = os.path.join(vlib.BUILD, "c18_in")
    os.makedirs(d, exist_ok=True)
    f = os.path.join(d, "wfile.out")
    for ops in ([10, -5], [5000], [-3, 4096, 4096], []):
        for z in (False, True):
            cases.append(dict(writer="fasta", arrival=[], mode="wfile", ops=ops, path="/dev/full", compressed=z, pre=-1))
            cases.append(dict(writer="fasta", arrival=[], mode="wfile", ops=ops, path=f, compressed=z, pre=0))
            cases.append(dict(writer="fasta", arrival=[], mode="wfile", ops=ops, path=f, compressed=z, pre=7, append=True))
    cases.append(dict(writer="fasta", arrival=[], mode="wfile", ops=[10, -5], path=f, pre=40))      # observation openwritingfile-no-truncate
    cases.append(dict(writer="fasta", arrival=[], mode="wfile", ops=[10], path=os.path.join(d, "nodir", "x.out"), pre=-1))
    return cases


def gen_cases(ctx, extra_random):
    rng = ctx.rng
    # pass 1: fault-free runs (also give the output sizes)
    base, second = [], []
    for w in WRITERS:
        for sizes, arr in SMALL:
            base.append(dict(writer=w, sizes=sizes, arrival=arr, fail_at=-1))
        for sizes, arr, sl in BIG:
            base.append(dict(writer=w, sizes=sizes, arrival=arr, seqlen=sl, fail_at=-1))
        for sizes, arr in (BOUNDARY if not ctx.quick else BOUNDARY[ctx.rng.randrange(3):][::3]):
            base.append(dict(writer=w, bytes=sizes, arrival=arr, fail_at=-1))
        base.append(dict(writer=w, sizes=[1, 1, 1, 1], arrival=[0, 1, 2, 3], workers=4, fail_at=-1))
        base.append(dict(writer=w, sizes=[1, 2, 1], arrival=[2, 0, 1], fail_at=-1, compressed=True))
        base.append(dict(writer=w, sizes=[2, 1, 2], arrival=[1, 2, 0], seqlen=2000, fail_at=-1, compressed=True))
        # ---- round 3
        # the stream is NOT owned (OptionDontCloseFile: JSON / CSV on the standard output; possible for every writer)
        full = w in ("json", "csv")
        for sizes, arr in (SMALL if full else SMALL[1:3]):
            (base if full else second).append(dict(writer=w, sizes=sizes, arrival=arr, fail_at=-1, unowned=True))
        for sizes, arr, sl in (BIG[1:4] if full else BIG[3:4]):
            (base if full else second).append(dict(writer=w, sizes=sizes, arrival=arr, seqlen=sl, fail_at=-1, unowned=True))
        second.append(dict(writer=w, sizes=[1, 2, 1], arrival=[2, 0, 1], fail_at=-1, compressed=True, unowned=True))
        second.append(dict(writer=w, sizes=[2, 1, 2], arrival=[1, 2, 0], seqlen=2000, fail_at=-1, compressed=True, unowned=True))
        # records with annotations (escapes, non-ASCII), qualities, definition; CSV with every optional column
        second.append(dict(writer=w, sizes=[2, 1, 2], arrival=[1, 2, 0], fail_at=-1, rich=True))
        second.append(dict(writer=w, sizes=[1, 0, 2], arrival=[2, 1, 0], seqlen=1300, fail_at=-1, rich=True, unowned=full))
        # records with an empty sequence, skipped by the writer (--skip-empty): chunks shorter than their batch, possibly empty
        if w in ("fasta", "fastq"):
            second.append(dict(writer=w, sizes=[1, 2, 0, 1], arrival=[3, 1, 0, 2], fail_at=-1, empty=True))
            second.append(dict(writer=w, sizes=[1, 1], arrival=[1, 0], seqlen=2100, fail_at=-1, empty=True, compressed=(w == "fastq")))
        # long streams of tiny batches: long runs drained from the re-sequencing buffer
        n = 60 if ctx.quick else 400
        arr = list(range(n)); rng.shuffle(arr)
        second.append(dict(writer=w, sizes=[rng.choice([1, 1, 0, 2]) for _ in range(n)], arrival=arr, fail_at=-1))
        second.append(dict(writer=w, sizes=[1] * n, arrival=list(reversed(range(n))), seqlen=150, fail_at=-1, unowned=full))
        second.append(dict(writer=w, sizes=[1] * 24, arrival=list(range(24)), workers=3, seqlen=200, fail_at=-1))
        # a compressed result larger than one block of the parallel compressor (1 MiB): device writes happen DURING the run
        second.append(dict(writer=w, sizes=[1, 1, 1, 1], arrival=[1, 0, 3, 2], seqlen=300000, fail_at=-1, compressed=True, unowned=(w == "json")))
    # WriteSeqFileChunk itself (no completion channel), fed with formatted chunks; toBeClosed or left to the caller
    for w in ("fasta", "fastq"):
        for keep in (False, True):
            for un in (False, True):
                second.append(dict(writer=w, sizes=[1, 1, 1], arrival=[1, 2, 0], fail_at=-1, mode="chunk", keep_open=keep, unowned=un))
            second.append(dict(writer=w, sizes=[1, 1], arrival=[1, 0], seqlen=4200, fail_at=-1, mode="chunk", keep_open=keep))
            second.append(dict(writer=w, sizes=[1, 0, 1], arrival=[2, 1, 0], fail_at=-1, mode="chunk", keep_open=keep, compressed=True))
    nb = len(base)
    obs = run_impl(ctx, base + second)
    cases = list(CORPUS) + base + second
    for i, (c, o) in enumerate(zip(base + second, obs)):
        if o.get("kind") != "ok":
            continue
        cases += fault_variants(ctx, c, o, light=(i >= nb))
        # the logger is slow: a log.Fatalf issued after completion has been signalled loses the race against main
        total = len(bytes.fromhex(o.get("got") or ""))
        if c.get("workers", 1) == 1 and (c.get("seqlen", 0) < 100000) and (i % 3 == ctx.seed % 3 or c.get("unowned") or c.get("mode")):
            if total > 0:
                cases.append(dict(c, fail_at=total - 1, slow_log=True))
                cases.append(dict(c, fail_at=rng.randrange(total), slow_log=True))
            if not c.get("unowned"):
                cases.append(dict(c, close_fails=True, slow_log=True))
    cases += wfile_cases(ctx)
    # the IDENTITY of the error the device returns: every non-nil error of Write / Close is a failure, also the ones a
    # writer could be tempted to forgive (os.ErrClosed: "closed by somebody else", io.EOF, io.ErrShortWrite, EPIPE, ...)
    for w in WRITERS:
        for kind in ERR_KINDS:
            for unowned in ((False, True) if w in ("json", "csv") else (False,)):
                cases.append(dict(writer=w, sizes=[1, 1], arrival=[0, 1], fail_at=0, err_kind=kind, unowned=unowned))      # met by the final flush only
                cases.append(dict(writer=w, sizes=[1, 1], arrival=[1, 0], fail_at=-1, close_fails=True, err_kind=kind, unowned=unowned))
            cases.append(dict(writer=w, sizes=[2, 1], arrival=[0, 1], seqlen=2100, fail_at=5000, err_kind=kind))                # met by a chunk write
    for _ in range(extra_random):
        n = rng.randrange(0, 6)
        arr = list(range(n)); rng.shuffle(arr)
        big = rng.random() < 0.25
        w = rng.choice(WRITERS)
        cases.append(dict(writer=w, sizes=[rng.choice([0, 1, 1, 2]) for _ in range(n)], arrival=arr,
                          seqlen=rng.choice([1100, 2100, 4100]) if big else 0,
                          fail_at=rng.choice([-1, rng.randrange(0, 200), rng.randrange(0, 20000)]) if big else rng.randrange(-1, 150),
                          close_fails=rng.random() < 0.1, compressed=rng.random() < 0.1,
                          unowned=rng.random() < 0.25, rich=rng.random() < 0.15, slow_log=rng.random() < 0.04, empty=rng.random() < 0.1,
                          mode="chunk" if (w in ("fasta", "fastq") and rng.random() < 0.2) else "", keep_open=rng.random() < 0.5,
                          err_kind=rng.choice(ERR_KINDS) if rng.random() < 0.15 else ""))
    return cases


# ---------------------------------------------------------------- the built commands against /dev/full
def cli_cases(ctx):
    d = os.path.join(vlib.BUILD, "c18_in")
    os.makedirs(d, exist_ok=True)
    for name, n in (("small", 3), ("large", 400), ("huge", 30000)):
        with open(os.path.join(d, name + ".fasta"), "w") as f:
            f.write("".join(">s%d {\"sample\":\"%s\"}\n%s\n" % (i, "AB"[i % 2], "acgtacgtac" * 6) for i in range(n)))
        if name == "huge":
            continue
        with open(os.path.join(d, name + ".fastq"), "w") as f:
            f.write("".join("@s%d {\"sample\":\"%s\"}\n%s\n+\n%s\n" % (i, "AB"[i % 2], "acgtacgtac" * 6, "I" * 60) for i in range(n)))
        with open(os.path.join(d, name + "_R2.fastq"), "w") as f:
            f.write("".join("@s%d\n%s\n+\n%s\n" % (i, "ttgcattgca" * 5, "H" * 50) for i in range(n)))
    res = []
    for size in ("small", "large"):
        fa, fq, fq2 = os.path.join(d, size + ".fasta"), os.path.join(d, size + ".fastq"), os.path.join(d, size + "_R2.fastq")
        for args in (["obiconvert", fa], ["obiconvert", fq], ["obiconvert", "--json-output", fa], ["obiconvert", "-Z", fa],
                     ["obiconvert", "--fasta-output", fq],
                     # round 3: the explicit FASTQ writers, compressed JSON / FASTQ, OBI headers, one CPU, another command
                     ["obiconvert", "--fastq-output", fq], ["obiconvert", "-Z", "--fastq-output", fq], ["obiconvert", "-Z", "--json-output", fq],
                     ["obiconvert", "--output-OBI-header", fa], ["obiconvert", "--max-cpu", "1", fq], ["obigrep", "-l", "1", fa]):
            res.append(dict(argv=args, mode="-o", slow_stderr=(size == "small")))
            res.append(dict(argv=args, mode=">", slow_stderr=(size == "small")))
        for args in (["obicsv", "-i", "-s", fa], ["obicsv", "-Z", "-i", "-s", "-k", "sample", fa], ["obicsv", "--auto", "-i", fa]):
            res.append(dict(argv=args, mode=">", slow_stderr=(size == "small")))
            res.append(dict(argv=args, mode="-o", slow_stderr=(size == "small")))
        # paired output: <name>_R1.<ext> / <name>_R2.<ext> (BuildPairedFileNames); either file on a full device
        for args in (["obiconvert", "--paired-with", fq2, fq], ["obiconvert", "--fasta-output", "--paired-with", fq2, fq],
                     ["obiconvert", "--json-output", "--paired-with", fq2, fq], ["obiconvert", "--fastq-output", "-Z", "--paired-with", fq2, fq]):
            for bad in ("R1", "R2"):
                res.append(dict(argv=args, mode="paired", bad=bad))
            if size == "small":
                res.append(dict(argv=args, mode="paired", bad="R2-cannot-be-opened"))
        # a side output: the discarded sequences of obigrep
        res.append(dict(argv=["obigrep", "-l", "1000", fa], mode="discarded"))
        # one file per value of an attribute (WriterDispatcher): the file of sample A is on a full device
        res.append(dict(argv=["obidistribute", "-c", "sample", fa], mode="distribute"))
        res.append(dict(argv=["obidistribute", "-c", "sample", "--fastq-output", "-A", fq], mode="distribute"))
        res.append(dict(argv=["obidistribute", "-c", "sample", "--fasta-output", "-A", fq], mode="distribute"))
    # an input without any record whose output is NOT empty (a gzip member, the brackets of a JSON array): the universal
    # writer completes it without any batch
    empty = os.path.join(d, "empty.fasta")
    open(empty, "w").close()
    for args in (["obiconvert", "-Z", empty], ["obiconvert", "--json-output", empty], ["obiconvert", "-Z", "--json-output", empty],
                 ["obiconvert", "-Z", "--fasta-output", empty], ["obiconvert", "-Z", "--fastq-output", empty]):
        res.append(dict(argv=args, mode="-o"))
        res.append(dict(argv=args, mode=">"))
    # the output cannot be opened
    fa = os.path.join(d, "small.fasta")
    for args in (["obiconvert", fa], ["obiconvert", "--json-output", fa], ["obiconvert", "--fastq-output", os.path.join(d, "small.fastq")],
                 ["obiconvert", "--fasta-output", os.path.join(d, "small.fastq")], ["obicsv", "-i", "-s", fa]):
        res.append(dict(argv=args, mode="openfail"))
    # a fault in the MIDDLE of a large result: the output is a FIFO whose reader goes away after k bytes (EPIPE; on the standard
    # output the process dies of SIGPIPE, a non-zero status too); the healthy twin reads everything
    huge = os.path.join(d, "huge.fasta")
    for args, k in ((["obiconvert", huge], 300000), (["obiconvert", "--json-output", huge], 1000000), (["obiconvert", "-Z", huge], 100),
                    (["obicsv", "-i", "-s", huge], 5000)):
        res.append(dict(argv=args, mode="fifo", k=k))
    res.append(dict(argv=["obiconvert", huge], mode="pipe", k=300000))
    res.append(dict(argv=["obicsv", "-Z", "-i", "-s", huge], mode="pipe", k=100))
    # compressed result larger than a block of the compressor
    res.append(dict(argv=["obiconvert", "-Z", os.path.join(d, "huge.fasta")], mode="-o"))
    res.append(dict(argv=["obiconvert", "-Z", "--json-output", os.path.join(d, "huge.fasta")], mode=">"))
    return res


def spawn(argv, stdout, slow_stderr=False, timeout=60):
    """run a command; [slow_stderr]: its standard error is a full pipe drained a few bytes at a time - every log message
    blocks for some milliseconds (a terminal, a pipe to a busy reader): a log.Fatalf issued AFTER completion has been signalled
    loses the race against the return of main deterministically"""
    import fcntl, threading, time
    if not slow_stderr:
        try:
            p = subprocess.run(argv, stdout=stdout, stderr=subprocess.PIPE, timeout=timeout)
            return p.returncode, p.stderr.decode("utf8", "replace")[-300:]
        except subprocess.TimeoutExpired:
            return 124, "timeout"
    r, w = os.pipe()
    try:
        fcntl.fcntl(w, 1031, 4096)        # F_SETPIPE_SZ
        size = fcntl.fcntl(w, 1032)       # F_GETPIPE_SZ
    except OSError:
        size = 65536
    os.set_blocking(w, False)
    junk = 0
    try:
        while junk < size:
            junk += os.write(w, b"\n" * min(4096, size - junk))
    except BlockingIOError:
        pass
    os.set_blocking(w, True)
    p = subprocess.Popen(argv, stdout=stdout, stderr=w)
    os.close(w)
    data = []

    def drain():
        while True:
            b = os.read(r, 48 if p.poll() is None else 65536)
            if not b:
                return
            data.append(b)
            if p.poll() is None:
                time.sleep(0.002)
    t = threading.Thread(target=drain)
    t.start()
    try:
        rc = p.wait(timeout=timeout)
    except subprocess.TimeoutExpired:
        p.kill(); rc = 124
    t.join(10)
    os.close(r)
    return rc, b"".join(data)[junk:].decode("utf8", "replace")[-300:]


def run_reader(argv, c, d, full):
    """the output is read by us: [full] -> we stop after c["k"] bytes and close; else we read to the end"""
    import threading
    if c["mode"] == "fifo":
        path = os.path.join(d, "out.fifo")
        os.mkfifo(path)
        p = subprocess.Popen(argv + ["-o", path], stdout=subprocess.DEVNULL, stderr=subprocess.PIPE)
        rfd = os.open(path, os.O_RDONLY)          # returns once the command has opened the FIFO for writing
    else:
        rfd, wfd = os.pipe()
        p = subprocess.Popen(argv, stdout=wfd, stderr=subprocess.PIPE)
        os.close(wfd)
    try:
        import fcntl
        fcntl.fcntl(rfd, 1031, 4096)      # F_SETPIPE_SZ: little room between the command and us (the results are far larger than any pipe anyway)
    except OSError:
        pass
    errs = []
    t = threading.Thread(target=lambda: errs.append(p.stderr.read()))
    t.start()
    n = 0
    while not full or n < c["k"]:
        b = os.read(rfd, 65536 if not full else min(65536, c["k"] - n))
        if not b:
            break
        n += len(b)
    os.close(rfd)
    try:
        rc = p.wait(timeout=120)
    except subprocess.TimeoutExpired:
        p.kill(); rc = 124
    t.join(10)
    return rc, (errs[0] if errs else b"").decode("utf8", "replace")[-300:], [n]


def run_cli(bindir, c, target, slow=False):
    """[target]: "full" (the output, or one of the outputs, is /dev/full) or "ok" (regular files)"""
    argv = [os.path.join(bindir, c["argv"][0]), "--no-progressbar"] + ([] if "--max-cpu" in c["argv"] else ["--max-cpu", "2"]) + c["argv"][1:]
    d = os.path.join(vlib.BUILD, "c18_in", "out%d" % c.get("_slot", 0))
    import shutil
    shutil.rmtree(d, ignore_errors=True)
    os.makedirs(d)
    full = target == "full"
    outs = []
    stdout = subprocess.DEVNULL
    if c["mode"] == "-o":
        outs = [os.path.join(d, "out.tmp")]
        argv += ["-o", "/dev/full" if full else outs[0]]
    elif c["mode"] == ">":
        outs = [os.path.join(d, "out.tmp")]
        stdout = open("/dev/full" if full else outs[0], "wb")
    elif c["mode"] == "paired":
        outs = [os.path.join(d, "pp_R1.xx"), os.path.join(d, "pp_R2.xx")]
        if full and c["bad"] == "R2-cannot-be-opened":
            os.mkdir(outs[1])        # the name of the reverse file is taken by a directory
        elif full:
            os.symlink("/dev/full", outs[0 if c["bad"] == "R1" else 1])
        argv += ["-o", os.path.join(d, "pp.xx")]
    elif c["mode"] == "discarded":
        outs = [os.path.join(d, "discarded.tmp")]
        argv += ["--save-discarded", "/dev/full" if full else outs[0], "-o", os.path.join(d, "kept.tmp")]
    elif c["mode"] == "distribute":
        outs = [os.path.join(d, "dist_A.xx"), os.path.join(d, "dist_B.xx")]
        if full:
            os.symlink("/dev/full", outs[0])
        argv += ["-p", os.path.join(d, "dist_%s.xx")]
    elif c["mode"] == "openfail":
        outs = [os.path.join(d, "out.tmp")]
        argv += ["-o", os.path.join(d, "nodir", "out.tmp") if full else outs[0]]
    elif c["mode"] in ("fifo", "pipe"):
        return run_reader(argv, c, d, full)
    try:
        rc, err = spawn(argv, stdout, slow_stderr=slow)
    finally:
        if stdout is not subprocess.DEVNULL:
            stdout.close()
    sizes = [os.path.getsize(f) if os.path.isfile(f) and not os.path.islink(f) else -1 for f in outs]
    return rc, err, sizes


def cli_check(ctx, broken):
    bindir, err = ctx.build_cmds(["obiconvert", "obicsv", "obigrep", "obidistribute"])
    if bindir is None:
        broken.append(dict(kind="cmd-build", detail=err))
        return 0
    cs = cli_cases(ctx)
    nbad, nruns = 0, 0
    dist = {}

    def one(c):
        rc_full, err_full, _ = run_cli(bindir, c, "full")
        rc_ok, err_ok, sizes = run_cli(bindir, c, "ok")
        why = None
        if rc_ok != 0 or min(sizes) <= 0:
            why = "the command fails / writes nothing on a healthy output (exit %d, %s bytes): %s" % (rc_ok, sizes, err_ok[-200:])
        elif rc_full == 0:
            why = "exit status 0 although %s" % ("the output could not be opened" if c["mode"] == "openfail" or "opened" in c.get("bad", "") else "the reader of the output went away after %d bytes (EPIPE)" % c["k"] if c["mode"] in ("fifo", "pipe") else "every write to %s failed (ENOSPC)" % (
                "the output" if c["mode"] in ("-o", ">") else "one of the outputs"))
        n = 2
        if not why and c.get("slow_stderr"):
            # small results: the fault is seen by the final flush only, and the exit status then depends on the order "report the
            # error of Close / signal completion": if completion were signalled first, the return of main would race with the
            # fatal message (measured on such a change: 40 %% of the runs exit 0). A slowly drained standard error does NOT expose it
            # (main's own last log call queues behind the fatal message), repetition does.
            for _ in range(3):
                rc_again, err_again, _ = run_cli(bindir, c, "full")
                n += 1
                if rc_again == 0:
                    why = "exit status 0 in one of %d identical runs although every write to the output failed (ENOSPC): the exit status depends on the schedule" % (n - 1)
                    rc_full, err_full = rc_again, err_again
                    break
        return n, why, rc_full, err_full, rc_ok
    for i, c in enumerate(cs):
        c["_slot"] = i % 4
    with ThreadPoolExecutor(max_workers=4) as ex:      # case i works in its own directory out<i mod 4>: one worker per directory
        res = [r for part in ex.map(lambda k: [one(c) for c in cs[k::4]], range(4)) for r in part]
    cs = [c for k in range(4) for c in cs[k::4]]
    for c, (n, why, rc_full, err_full, rc_ok) in zip(cs, res):
        c.pop("_slot", None)
        nruns += n
        k = "%s %s" % (c["argv"][0], c["mode"])
        dist[k] = dist.get(k, 0) + n
        if why:
            nbad += 1
            if nbad <= 4:
                ctx.violation("cli_%d" % nbad, dict(property="C18", kind="cli", case=c, why=why, exit_on_dev_full=rc_full, stderr_tail=err_full,
                                                    exit_on_file=rc_ok, expected="non-zero exit on the failing output, zero on regular files"))
    ctx.cov["cli_runs"] = nruns
    ctx.cov["cli_distribution"] = dist
    ctx.cov["cli_failures"] = nbad
    return nruns


def nontrivial(c):
    return c.get("fail_at", -1) >= 0 or c.get("close_fails") or shaped(c) or c.get("path") == "/dev/full"


def run(ctx, broken):
    import time
    t0 = time.time()
    cases = gen_cases(ctx, 300 if ctx.quick else 3000)
    t1 = time.time()
    obs, fails, mism = evaluate(ctx, cases, broken, "main")
    t2 = time.time()
    ncli = cli_check(ctx, broken)
    ctx.cov.setdefault("phase_wall_s", {}).update(generate_and_fault_free_runs=round(t1 - t0, 1), fault_runs_oracle_and_models=round(t2 - t1, 1), commands=round(time.time() - t2, 1))
    ctx.cov["evaluations"] = len(cases) + ncli
    ctx.cov["distinct_nontrivial"] = len({json.dumps(norm(c), sort_keys=True) for c in cases if nontrivial(c)})
    ctx.cov["rule"] = ("non-trivial = a fault is injected (the device fails after fail_at bytes and/or at Close, cuts a write short, fails zero-length "
                       "writes, or is /dev/full); distinct = distinct normalised case (writer / mode, batch sizes, arrival, workers, compressed, owned or not, "
                       "record flavour, fault parameters, logger speed, Wfile call history); small outputs: every byte offset")
    dist = {}
    for c, o in zip(cases, obs):
        k = "%s/%s/%s/%s" % (c.get("mode") or c["writer"], "big" if c.get("seqlen") else "small", "gz" if c.get("compressed") else "raw", o.get("exit"))
        dist[k] = dist.get(k, 0) + 1
    ctx.cov["distribution"] = dist
    dims = {}
    for c, o in zip(cases, obs):
        for k in ("unowned", "slow_log", "rich", "empty", "keep_open", "compressed", "close_fails", "zero_err", "append"):
            if c.get(k):
                dims[k] = dims.get(k, 0) + 1
        for k, v in (("mode", c.get("mode") or "writers"), ("model", family(c) if not c.get("compressed") and not c.get("path") else "oracle-only"),
                     ("batches", "0" if not (c.get("sizes") or c.get("bytes")) else "1-5" if len(c.get("sizes") or c.get("bytes")) <= 5 else "6-59" if len(c.get("sizes") or c.get("bytes")) < 60 else ">=60"),
                     ("workers", str(c.get("workers", 1))), ("path", c.get("path") and ("/dev/full" if c["path"] == "/dev/full" else "file")),
                     ("result_bytes", "n/a" if "_exp_len" not in o else "0" if o["_exp_len"] == 0 else "<4096" if o["_exp_len"] < 4096 else "<100k" if o["_exp_len"] < 100000 else ">=1MiB" if o["_exp_len"] >= 1 << 20 else ">=100k")):
            if v:
                dims["%s=%s" % (k, v)] = dims.get("%s=%s" % (k, v), 0) + 1
    ctx.cov["dimensions"] = dims
    ctx.cov["observation_openwritingfile_no_truncate"] = sum(1 for o in obs if o.get("_stale_tail"))
    ctx.cov["slow_logger_runs"] = dict(total=dims.get("slow_log", 0), ended_fatal=sum(1 for c, o in zip(cases, obs) if c.get("slow_log") and o.get("exit") == "fatal"))
    ctx.cov["oracle_failures"] = len(fails)
    ctx.cov["model_vs_impl_mismatches"] = len(mism)
    ctx.cov["device_shapes"] = dict(
        short_write_without_error=sum(1 for c in cases if c.get("cut_at", 0) > 0),
        short_write_without_error_fatal=sum(1 for c, o in zip(cases, obs) if c.get("cut_at", 0) > 0 and c.get("fail_at", -1) < 0 and not c.get("close_fails") and o.get("exit") == "fatal"),
        short_write_without_error_retried_ok=sum(1 for c, o in zip(cases, obs) if c.get("cut_at", 0) > 0 and o.get("exit") == "ok"),
        error_on_zero_length_write=sum(1 for c in cases if c.get("zero_err")),
        zero_length_writes_that_reached_the_device=sum(o.get("zero_writes", 0) for o in obs),
        sync_calls_on_the_output=sum(o.get("syncs", 0) for o in obs),
        compressed_runs=sum(1 for c in cases if c.get("compressed")),
        observation_gzip_short_write_without_error_lost_bytes=sum(1 for c, o in zip(cases, obs) if c.get("compressed") and c.get("cut_at", 0) > 0 and o.get("_lost")),
        compressed_ok_exits_with_a_failed_device_write=sum(1 for c, o in zip(cases, obs) if c.get("compressed") and o.get("exit") == "ok" and o.get("dev_failed")))
    ctx.samples = []
    first = lambda pred: next((i for i, c in enumerate(cases) if pred(c)), 0)
    for i in (0, 2, 4, len(CORPUS) + 1, first(lambda c: c.get("unowned") and c.get("fail_at", -1) > 0), first(lambda c: c.get("mode") == "chunk" and c.get("keep_open")),
              first(lambda c: c.get("mode") == "wfile" and c.get("fail_at", -1) > 0), first(lambda c: c.get("slow_log")), len(cases) - 1):
        o = {k: v for k, v in obs[i].items() if k not in ("chunks", "got", "_term", "file")}; o["got"] = "%d bytes" % obs[i].get("got_len", 0)
        ctx.samples.append(dict(case={k: v for k, v in norm(cases[i]).items() if v not in (0, False, "", [])}, implementation=o))
    if mism and not ctx.violations:
        more = gen_cases(ctx, 6000)
        evaluate(ctx, more, [], "search", corr=False)
        if not ctx.violations:
            i = mism[0]
            o = {k: v for k, v in obs[i].items() if k not in ("chunks", "_term")}
            broken.append(dict(kind="correspondence", name="corr:C18/%s/exit+bytes+closes" % cases[i]["writer"], first_diverging_case=norm(cases[i]),
                               implementation=o, n_diverging=len(mism)))
    elif mism:
        ctx.cov["note"] = "model and implementation diverge on %d cases (violations reported by the direct oracle)" % len(mism)


def replay(ctx, rp):
    c = rp.get("case") or rp.get("first_diverging_case")
    if rp.get("kind") == "cli":
        bindir, err = ctx.build_cmds(["obiconvert", "obicsv", "obigrep", "obidistribute"])
        cli_cases(ctx)
        print("replay:", c, "-> (exit, stderr, sizes) on the failing output:", run_cli(bindir, c, "full"), "| again:", [run_cli(bindir, c, "full")[0] for _ in range(3)],
              "| on regular files:", run_cli(bindir, c, "ok"))
        return
    obs, fails, mism = evaluate(ctx, [c], [], "replay")
    o = {k: v for k, v in obs[0].items() if k not in ("chunks", "got", "_term")}; o["got"] = "%d bytes" % obs[0].get("got_len", 0)
    print("replay:", c, "->", o, "| oracle:", fails[0][1] if fails else "ok", "| model:", "mismatch" if mism else "agrees")
