"""C05 — command output is a function of input and options, not of parallelism."""
import os, re, json, hashlib, itertools, subprocess, shutil
import vlib
from vlib import sh

PROPS = ["C05/Props.v"]
META = dict(
    text="Rocq theorems: (i) for EVERY batch partition of the input and EVERY arrival permutation of the transformed batches at the order-restoring writer (i.e. every batch size, worker count and schedule) the record-wise pipeline outputs flat_map f of the input in order (built on the resequencer theorem); (ii) on the ownership model of the buffer pool, in every interleaving respecting the ownership discipline an owner's buffer always holds its own last write. Tie to the code on every run: the ten commands are built from the working tree with the verif hook (recycled buffers poisoned) and run over a --max-cpu x --batch-size x GOMAXPROCS x repetition grid with byte-wise comparison; real pool get/recycle event traces are replayed through the model's validator by vm_compute.",
    note="Partial by nature: purity of the real per-record functions, sync.Pool and the Go scheduler are not modelled — covered by the grid (a sample of schedules), the poison, trace validation and (thorough tier) race-detector builds. Per-record functions of obipairing/obimultiplex/obipcr are modelled under C08/C12/C11; here only determinism is claimed for them.")
TRUSTED = ["Go runtime (scheduler, sync.Pool), the OS; the verif hook pkg/obiseq/pool_verif.go (poison + event trace)"]

CMDS = ["obiconvert", "obigrep", "obiannotate", "obicomplement", "obipairing", "obimultiplex", "obipcr", "obicount", "obisummary", "obicsv"]
COMP = {"a": "t", "c": "g", "g": "c", "t": "a", "n": "n"}


def rc(s):
    return "".join(COMP.get(c, "n") for c in reversed(s))


def rseq(rng, n):
    return "".join(rng.choice("acgt") for _ in range(n))


def mutate(rng, s, k):
    s = list(s)
    for _ in range(k):
        i = rng.randrange(len(s))
        s[i] = rng.choice([c for c in "acgt" if c != s[i]])
    return "".join(s)


def gen_data(ctx, d, nrec):
    """Amplicon-like data set: sample sheet, paired reads, assembled-like single reads, PCR templates."""
    rng = ctx.rng
    pf, pr = "ttagataccccactatgc", "tagaacaggctcctctag"
    tags = ["aattaac", "gaagtag", "gaatatc", "gcctcct", "acacaca", "tgtgtgt"]
    with open(os.path.join(d, "ngsfilter.txt"), "w") as f:
        for i, t in enumerate(tags):
            f.write("exp\tsample%d\t%s\t%s\t%s\tF\t@\n" % (i, t, pf.upper(), pr.upper()))
    barcodes = [rseq(rng, rng.randrange(30, 90)) for _ in range(12)]
    F = open(os.path.join(d, "F.fastq"), "w")
    R = open(os.path.join(d, "R.fastq"), "w")
    S = open(os.path.join(d, "single.fastq"), "w")
    T = open(os.path.join(d, "templates.fasta"), "w")
    for i in range(nrec):
        tag = rng.choice(tags)
        bc = mutate(rng, rng.choice(barcodes), rng.choice([0, 0, 0, 1, 2]))
        p1 = mutate(rng, pf, rng.choice([0, 0, 1, 3]))
        p2 = mutate(rng, pr, rng.choice([0, 0, 1]))
        frag = rseq(rng, rng.randrange(0, 4)) + tag + p1 + bc + rc(p2) + rc(tag) + rseq(rng, rng.randrange(0, 4))
        if rng.random() < 0.3:
            frag = rc(frag)
        if rng.random() < 0.06:
            # concatemer: two amplicons in one read (a 1 -> n record for obimultiplex)
            tag2 = rng.choice(tags)
            frag = frag + rseq(rng, rng.randrange(0, 3)) + tag2 + pf + rng.choice(barcodes) + rc(pr) + rc(tag2)
        L = min(len(frag), rng.choice([60, 80, 100]))
        fw, rv = frag[:L], rc(frag)[:L]
        if rng.random() < 0.05:
            # degenerate mates: reads shorter than a 4-mer / a primer (trimmed reads)
            fw = fw[:rng.choice([1, 2, 3, 5])]
        if rng.random() < 0.03:
            rv = rv[:rng.choice([1, 2, 3, 7])]
        q = lambda n: "".join(chr(33 + rng.randrange(2, 41)) for _ in range(n))
        F.write("@r%05d\n%s\n+\n%s\n" % (i, fw, q(len(fw))))
        R.write("@r%05d\n%s\n+\n%s\n" % (i, rv, q(len(rv))))
        ann = '{"count":%d,"sample":"s%d","w":%s}' % (rng.randrange(1, 9), i % 4, json.dumps(rseq(rng, 3)))
        S.write("@s%05d %s some definition %d\n%s\n+\n%s\n" % (i, ann, i, frag, q(len(frag))))
        if i < max(10, nrec // 4):
            tpl = rseq(rng, rng.randrange(5, 60)) + frag + rseq(rng, rng.randrange(5, 60))
            if rng.random() < 0.3:
                tpl += mutate(rng, frag, 2) + rseq(rng, 20)
            T.write(">t%04d\n%s\n" % (i, "\n".join(tpl[k:k + 60] for k in range(0, len(tpl), 60))))
    for f in (F, R, S, T):
        f.close()
    # long FASTA records without qualities: written as FASTQ they get the shared default quality vector
    with open(os.path.join(d, "long.fasta"), "w") as L:
        for i in range(max(60, nrec // 2)):
            n = rng.choice([30, 400, 520, 900, 1500, 2600, 4000]) + rng.randrange(0, 200)
            sq = rseq(rng, n)
            L.write(">l%04d\n%s\n" % (i, "\n".join(sq[k:k + 60] for k in range(0, n, 60))))
    return pf, pr


def command_lines(d, pf, pr):
    s = os.path.join(d, "single.fastq")
    asm = os.path.join(d, "assembled.fastq")
    return [
        ("obiconvert", ["obiconvert", s]),
        ("obiconvert-fasta", ["obiconvert", "--fasta-output", s]),
        ("obiconvert-json", ["obiconvert", "--json-output", s]),
        ("obiconvert-fasta2fastq", ["obiconvert", "--fastq-output", os.path.join(d, "long.fasta")]),
        ("obigrep", ["obigrep", "-l", "90", "-s", "ac.t", s]),
        ("obigrep-v", ["obigrep", "-v", "-L", "100", s]),
        ("obiannotate", ["obiannotate", "--length", "-S", "foo=sequence.Len()+1", s]),
        ("obicomplement", ["obicomplement", s]),
        ("obipairing", ["obipairing", "-F", os.path.join(d, "F.fastq"), "-R", os.path.join(d, "R.fastq"), "--min-overlap", "10"]),
        ("obimultiplex", ["obimultiplex", "-t", os.path.join(d, "ngsfilter.txt"), "-e", "2", "--keep-errors", asm]),
        ("obimultiplex-whole", ["obimultiplex", "-t", os.path.join(d, "ngsfilter.txt"), "-e", "2", "--keep-errors", s]),
        ("obimultiplex-whole-noerr", ["obimultiplex", "-t", os.path.join(d, "ngsfilter.txt"), "-e", "2", s]),
        ("obipcr", ["obipcr", "--forward", pf, "--reverse", pr, "-e", "2", "-L", "200", os.path.join(d, "templates.fasta")]),
        ("obicount", ["obicount", s]),
        ("obisummary", ["obisummary", "--json-output", s]),
        ("obicsv", ["obicsv", "--ids", "--count", "-s", "-k", "sample", s]),
    ]


def run_cmd(bindir, argv, maxcpu, batch, gomax, trace=None, timeout=120):
    env = dict(os.environ, GOMAXPROCS=str(gomax))
    env.pop("OBIMAXCPU", None); env.pop("OBIBATCHSIZE", None)
    if trace:
        env["VERIF_POOL_TRACE"] = trace
    cmd = [os.path.join(bindir, argv[0]), "--max-cpu", str(maxcpu), "--batch-size", str(batch)] + argv[1:]
    try:
        p = subprocess.run(cmd, capture_output=True, timeout=timeout, env=env)
        return p.returncode, p.stdout, p.stderr
    except subprocess.TimeoutExpired:
        return 124, b"", b"TIMEOUT"


def trace_terms(path, limit=6000):
    """one trace per pool (byte slices: R/G, annotations: RA/GA) -> [(pool name, Gallina term, events)]"""
    ev = {"slices": [], "annotations": []}
    for l in open(path):
        p = l.split()
        if len(p) == 4 and p[0] in ("R", "G"):
            ev["slices"].append("P%s %s %s" % (p[0], p[1], p[2]))
        elif len(p) == 4 and p[0] in ("RA", "GA"):
            ev["annotations"].append("P%s %s %s" % (p[0][0], p[1], p[2]))
    return [(k, "[" + "; ".join(v[:limit]) + "]%N", v[:limit]) for k, v in ev.items() if v]


def py_pool_check(ev):
    """python twin of C05.Model.pool_check, only used to point at the rejected event in a replay file"""
    pool = []
    for i, e in enumerate(ev):
        k, h, d = e.split()
        h, d = int(h), int(d)
        if k == "PR":
            if any(x[1] == d for x in pool):
                return i, "DoubleRecycle"
            pool.insert(0, (h, d))
        else:
            if (h, d) in pool:
                pool.remove((h, d))
            elif any(x[0] == h for x in pool):
                return i, ("HeaderModifiedInPool" if d == 0 else "LiveBufferHandedOut")
    return None


def run(ctx, broken):
    d = os.path.join(vlib.BUILD, "c05_data_%d" % os.getpid())
    shutil.rmtree(d, ignore_errors=True)
    os.makedirs(d)
    try:
        _run(ctx, broken, d)
    finally:
        shutil.rmtree(d, ignore_errors=True)


def _run(ctx, broken, d):
    bindir, err = ctx.build_cmds(CMDS)
    if bindir is None:
        broken.append(dict(kind="command-build", detail=err))
        return
    # inputs larger than the 1 MiB read buffer: the reader then delivers several chunks (= several worker batches)
    nrec = 5000 if ctx.quick else 20000
    pf, pr = gen_data(ctx, d, nrec)
    # the input of obimultiplex: one reference run of obipairing
    rc0, out0, err0 = run_cmd(bindir, ["obipairing", "-F", os.path.join(d, "F.fastq"), "-R", os.path.join(d, "R.fastq"), "--min-overlap", "10"], 1, 2000, 1)
    open(os.path.join(d, "assembled.fastq"), "wb").write(out0)
    if ctx.quick:
        grid = [(1, 2000, 1), (1, 1, 4), (2, 7, 2), (8, 1, 16), (8, 7, 16), (16, 2000, 16), (3, nrec, 3), (32, 2, 8)]
        reps = 2
    else:
        grid = [(c, b, g) for c in (1, 2, 3, 8, 32) for b in (1, 2, 7, 100, nrec) for g in (1, 4, 16)]
        reps = 4
    lines = command_lines(d, pf, pr)
    runs, nontrivial, dist, traces = 0, set(), {}, []
    for name, argv in lines:
        ref = None
        for (c, b, g) in grid:
            for rep in range(reps):
                tr = None
                if rep == 0 and (c, b, g) in grid[1:4] and name in ("obiconvert", "obipairing", "obicomplement", "obimultiplex", "obiannotate", "obipcr"):
                    tr = os.path.join(d, "trace_%s_%d_%d_%d.txt" % (name, c, b, g))
                code, out, errb = run_cmd(bindir, argv, c, b, g, trace=tr)
                runs += 1
                key = (code, hashlib.sha256(out).hexdigest())
                dist[name] = dist.get(name, 0) + 1
                if len(out) > 200:
                    nontrivial.add((name, c, b, g))
                if tr and os.path.exists(tr):
                    traces.append((name, c, b, g, tr))
                if code != 0:
                    ctx.violation("c05_%s_exit" % name, dict(property="C05", kind="command-failed", argv=argv, max_cpu=c, batch_size=b, gomaxprocs=g,
                                                             exit=code, stderr=errb.decode("utf8", "replace")[-1500:], seed=ctx.seed))
                    break
                if b"\xdb" in out:
                    ctx.violation("c05_%s_poison" % name, dict(property="C05", kind="recycled-buffer-in-output", argv=argv, max_cpu=c, batch_size=b,
                                                               gomaxprocs=g, seed=ctx.seed, note="poison byte 0xDB of a recycled buffer reached the output"))
                    break
                if ref is None:
                    ref = (key, (c, b, g), out)
                elif key != ref[0]:
                    # first differing line
                    la, lb = ref[2].split(b"\n"), out.split(b"\n")
                    k = next((i for i, (x, y) in enumerate(zip(la, lb)) if x != y), min(len(la), len(lb)))
                    ctx.violation("c05_%s_diff" % name, dict(property="C05", kind="output-depends-on-configuration", argv=argv,
                                  config_a=dict(max_cpu=ref[1][0], batch_size=ref[1][1], gomaxprocs=ref[1][2]),
                                  config_b=dict(max_cpu=c, batch_size=b, gomaxprocs=g), seed=ctx.seed, first_diff_line=k,
                                  line_a=la[k:k + 1][0].decode("utf8", "replace")[:400] if k < len(la) else None,
                                  line_b=lb[k:k + 1][0].decode("utf8", "replace")[:400] if k < len(lb) else None,
                                  how_to_replay="data set regenerated from seed by tools/props/c05.py gen_data; run both configurations and compare"))
                    break
            else:
                continue
            break
    # trace validation through the Coq model
    terms, nev, tinfo = [], 0, []
    for (name, c, b, g, tr) in traces:
        for (pool, t, ev) in trace_terms(tr):
            terms.append(t)
            tinfo.append((name, c, b, g, pool, ev))
            nev += len(ev)
    if terms:
        bad, err = ctx.correspond("pooltraces", "From Coq Require Import NArith List. Import ListNotations.\nFrom OBI.C05 Require Import Model.", terms, shard=4)
        if bad is None:
            broken.append(dict(kind="correspondence", detail=err))
        else:
            for i in bad[:3]:
                name, c, b, g, pool, ev = tinfo[i]
                where = py_pool_check(ev)
                k = where[0] if where else 0
                ctx.violation("c05_pooltrace_%s_%s" % (name, pool), dict(property="C05", kind="pool-trace-rejected-by-model", command=name, pool=pool,
                              max_cpu=c, batch_size=b, gomaxprocs=g, rejected_event_index=k, verdict=where[1] if where else "rejected by the Coq validator",
                              events_up_to_rejection=ev[max(0, k - 30):k + 1],
                              note="the ownership validator (C05.Model.pool_check, evaluated by vm_compute) rejects this real get/recycle trace: "
                                   "a buffer was recycled twice, a live buffer was handed out, or a header sitting in the pool was modified by its former owner"))
    ctx.cov["traces_validated_against_impl"] = len(terms)
    ctx.cov["trace_events"] = nev
    # thorough: race-detector builds on a reduced grid
    if not ctx.quick:
        race_dir, err = ctx.build_cmds(CMDS, race=True)
        if race_dir is None:
            broken.append(dict(kind="command-build-race", detail=err))
        else:
            relevant = 0
            for name, argv in lines:
                for (c, b, g) in [(8, 7, 16), (4, 1, 4)]:
                    code, out, errb = run_cmd(race_dir, argv, c, b, g, timeout=600)
                    runs += 1
                    for rep_ in re.split(r"={18}\n", errb.decode("utf8", "replace")):
                        if "DATA RACE" not in rep_:
                            continue
                        if "globalLockerCounter" in rep_ or "obiiter.(*" in rep_.split("Previous")[0][:400] and "Lock" in rep_:
                            continue
                        if re.search(r"pkg/obiseq/(pool|biosequence|attributes|revcomp|subseq)\.go|pkg/obialign/|pkg/obiapat/|pkg/obingslibrary/", rep_):
                            relevant += 1
                            if relevant <= 3:
                                # informative only: a race report is not by itself a dependence of the OUTPUT on the schedule
                                # (the unchanged tree has benign ones, e.g. the lazy initialisation of the score tables);
                                # what decides C05 is bytes, poison, crashes and the pool traces
                                ctx.cov.setdefault("race_report_samples", []).append(dict(command=name, max_cpu=c, batch_size=b, report=rep_[:1500]))
            ctx.cov["race_reports_on_record_state"] = relevant
    ctx.cov["evaluations"] = runs
    ctx.cov["distinct_nontrivial"] = len(nontrivial)
    ctx.cov["rule"] = "one execution = (command line, max-cpu, batch-size, GOMAXPROCS, repetition) on a data set generated from the seed; non-trivial = output > 200 bytes; distinct = distinct (command line, configuration)"
    ctx.cov["distribution"] = dist
    ctx.cov["grid"] = [dict(max_cpu=c, batch_size=b, gomaxprocs=g) for (c, b, g) in grid]
    ctx.samples = [dict(command=" ".join(os.path.basename(x) for x in argv), records=nrec) for _, argv in lines[:4]]


def replay(ctx, rp):
    print("replay: regenerate the data set with VERIF_SEED=%s and run the two configurations of %s" % (rp.get("seed"), rp.get("argv")))
    run(ctx, [])
