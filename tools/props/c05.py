"""C05 — command output is a function of input and options, not of parallelism."""
import os, re, json, hashlib, itertools, subprocess, shutil
import vlib
from vlib import sh

PROPS = ["C05/Props.v"]
META = dict(
    text="Rocq theorems: (i) for EVERY batch partition of the input and EVERY arrival permutation of the transformed batches at the order-restoring writer (every batch size, worker count and schedule) the record-wise pipeline outputs flat_map f of the input in order (built on the resequencer theorem), instantiated with the per-record functions of obiconvert, obicomplement (the two in-place loops of ReverseComplement transcribed and PROVED equal to reverse-complement / reverse for every length), obigrep -l/-L/-c/-C/-v, obiannotate --length, a conditional worker, and obicsv --ids --count -s -k (rows) written over an abstract record (id, sequence, qualities, annotation map); (ii) the stages that merge or split streams, transcribed: Concat's renumbering (order + largest number pushed + 1) gives, for any arrival order inside each iterator, the numbered batches of the streams one after the other; DivideOn's two buffers and counters give two streams numbered without hole carrying the selected / rejected records in order, for every batch size; (iii) folding commands: in any commutative monoid the result is the sequential fold whatever the partition and the arrival order, obicount's three numbers are what they should be, and obisummary's DataSummary.Update / Add / ISummary transcribed over one table of counters: every counter and the number of keys of every map of the merged per-worker summaries read as in the one-pass summary; (iv) on the ownership model of the buffer pool, in every interleaving respecting the ownership discipline an owner's buffer holds its own last write. Tie to the code on every run: the REAL commands' output records are parsed and compared, by vm_compute, with flat_map (cmd_f c) / the fold of the input records, the input being presented as one file, three files cut at random places, stdin and gzip; the WHOLE printed obisummary (three inputs: every counter distinct, one record without obiclean_status, mixed) is compared with the model's one-pass summary and with a Python oracle; the ten commands built with the verif hook (recycled buffers poisoned) run over a --max-cpu x --batch-size x GOMAXPROCS x repetition grid with byte-wise comparison, and the command-level glue (several input files, stdin, gzip in / -Z out, -o, --paired-with for obiconvert / obigrep / obiannotate, --save-discarded, -u, --no-order as a multiset, parallelism through OBIMAXCPU / OBIBATCHSIZE, --solexa, empty and one-record files, obimultiplex tag matching strict / hamming / indel / delimited / rescue on tags with errors, obipcr --circular / --delta / --min-length / --only-complete-flanking, obipairing --exact-mode / --fast-absolute / --without-stat) is judged by EQUALITIES between command lines that must write the same bytes plus direct oracles of the paired / divided outputs; the real library pipelines (reader -> Rebatch -> worker pool -> writer; pairing; DivideOn behind a worker pool, Concat and Pool of several readers, FilterEmpty, MakeIConditionalWorker, WorkerPipe, full-file batches = Load, Load + IBatchOver) are run in-process under hundreds of configurations with injected random yields, their outputs judged by the Python oracle and by the Coq per-record model; WHOLE get/recycle traces of both pools of every command line are replayed through the model's validator by vm_compute; fresh-process trials of the first concurrent use of the JSON machinery.",
    note="Partial by nature: purity of the real per-record functions, sync.Pool and the Go scheduler are not modelled — covered by the correspondence of output records, the grid and the in-process exploration (samples of schedules), the poison, trace validation and, in the thorough tier, race-detector builds whose reports are a violation only when BOTH accesses lie in code holding record bytes (obiseq, obialign, obiapat, obikmer, obingslibrary) and match none of the benign patterns of the unchanged tree. The reader's normalisation (lower-casing, definition -> annotation) and title-line parsing are rendered in Python (C01/C02 own them); ReverseComplement's rewrite of a pairing_mismatches map and non-integer count attributes are outside the record model (cmd_pre rejects such inputs; obicomplement on the output of obipairing is in the grid: determinism only). Per-record functions of obipairing/obimultiplex/obipcr are modelled under C08/C12/C11; obicsv with other options or with non string/integer values, obiannotate beyond --length (--rename-tag, --delete-tag, -S expressions are in the grid), --solexa: here only determinism is claimed. The first-use crash of go-json is schedule dependent (about 1 trial in 2200): the thorough tier is the one that finds it again; obidistribute's [2]string decode (one goroutine per output file) is the same mechanism and is not covered. Outside the property (recorded leads): `obisummary --map ATTR` dies at start-up in every configuration (ISummary writes into summaries[n].map_summaries before the summaries are allocated; map_summaries is never filled, merged nor printed): deterministic, hence not a C05 matter, and DataSummary.Add's silence about map_summaries is unobservable; --max-cpu 1 is silently raised to 2 (only --force-one-cpu gives one worker: in the grid); obicsv prints numbers of more than 6 digits read from a JSON title in exponent notation (same in every configuration); duplicate identifiers and CRLF files are not generated (C01/C06). Not exercised, because no record-wise command of the property reaches them: FilterAnd (no caller in the tree), IBioSequence Lock/Unlock/RLock/RUnlock/IsNil/BatchSize/SetBatchSize, PCRSim/PCRSlice and the batch / worker options of obiapat (obipcr goes through PCRSliceWorker), the attribute accessors of obitag / obilandmark / taxonomy (OBITagRefIndex, GetCoordinate, Taxid, ...), BioSequence.Copy/MD5/Features/WriteByte..., NewBioSequenceWithQualities; not exercised because they are error or service paths: --help / --version / --debug / --pprof*, option-parse errors, missing tag list or unreadable file exits of the main programs, log.Fatal branches of the iterators.")
TRUSTED = ["Go runtime (scheduler, sync.Pool), the OS; the verif hooks pkg/obiseq/pool_verif.go (poison + event trace, traced headers kept alive) and pkg/obiiter/verif2_c05.go (random yields at Next/Push/worker loop)",
           "Python parsers of the commands' FASTQ/JSON-header and obicount output and of the generator's own records (reader normalisation: lower case, definition as annotation); renumbering of trace addresses by first appearance; packing of bytes / events into primitive 63-bit integers decoded by C05.Codec inside vm_compute (Coq primitive integers)",
           "classification of race-detector reports by the file of the first obitools frame of each access (thorough tier)",
           "round 3: the Python projection of an input record to what DataSummary.Update looks at (count, length, merged_sample, obiclean_status, sample, shape of every annotation value) and of the printed JSON summary to counter entries; gzip / sorting of FASTQ records used to bring -Z and --no-order outputs to a canonical form"]

# quick tier: the pool traces of one command line per command (thorough: every command line, three configurations)
QUICK_TRACED = ("obiconvert", "obiconvert-fasta2fastq", "obigrep", "obiannotate", "obicomplement", "obipairing", "obimultiplex-whole-noerr", "obipcr",
                "obicount", "obisummary", "obicsv")
CMDS = ["obiconvert", "obigrep", "obiannotate", "obicomplement", "obipairing", "obimultiplex", "obipcr", "obicount", "obisummary", "obicsv"]
COMP = {"a": "t", "c": "g", "g": "c", "t": "a", "n": "n"}


def rc(s):
    return "".join(COMP.get(c, "n") for c in reversed(s))


def rseq(rng, n):
    return "".join(rng.choice("acgt") for _ in range(n))


def mutate(rng, s, k):
    s = list(s)
    for _ in range(k):
        i = rng.randrange(len(s))
        s[i] = rng.choice([c for c in "acgt" if c != s[i]])
    return "".join(s)


def gen_data(ctx, d, nrec):
    """Amplicon-like data set: sample sheet, paired reads, assembled-like single reads, PCR templates."""
    rng = ctx.rng
    pf, pr = "ttagataccccactatgc", "tagaacaggctcctctag"
    tags = ["aattaac", "gaagtag", "gaatatc", "gcctcct", "acacaca", "tgtgtgt"]
    with open(os.path.join(d, "ngsfilter.txt"), "w") as f:
        for i, t in enumerate(tags):
            f.write("exp\tsample%d\t%s\t%s\t%s\tF\t@\n" % (i, t, pf.upper(), pr.upper()))
    barcodes = [rseq(rng, rng.randrange(30, 90)) for _ in range(12)]
    F = open(os.path.join(d, "F.fastq"), "w")
    R = open(os.path.join(d, "R.fastq"), "w")
    S = open(os.path.join(d, "single.fastq"), "w")
    T = open(os.path.join(d, "templates.fasta"), "w")
    for i in range(nrec):
        tag = rng.choice(tags)
        bc = mutate(rng, rng.choice(barcodes), rng.choice([0, 0, 0, 1, 2]))
        p1 = mutate(rng, pf, rng.choice([0, 0, 1, 3]))
        p2 = mutate(rng, pr, rng.choice([0, 0, 1]))
        frag = rseq(rng, rng.randrange(0, 4)) + tag + p1 + bc + rc(p2) + rc(tag) + rseq(rng, rng.randrange(0, 4))
        if rng.random() < 0.3:
            frag = rc(frag)
        if rng.random() < 0.06:
            # concatemer: two amplicons in one read (a 1 -> n record for obimultiplex)
            tag2 = rng.choice(tags)
            frag = frag + rseq(rng, rng.randrange(0, 3)) + tag2 + pf + rng.choice(barcodes) + rc(pr) + rc(tag2)
        L = min(len(frag), rng.choice([60, 80, 100]))
        fw, rv = frag[:L], rc(frag)[:L]
        if rng.random() < 0.05:
            # degenerate mates: reads shorter than a 4-mer / a primer (trimmed reads)
            fw = fw[:rng.choice([1, 2, 3, 5])]
        if rng.random() < 0.03:
            rv = rv[:rng.choice([1, 2, 3, 7])]
        q = lambda n: "".join(chr(33 + rng.randrange(2, 41)) for _ in range(n))
        F.write("@r%05d\n%s\n+\n%s\n" % (i, fw, q(len(fw))))
        R.write("@r%05d\n%s\n+\n%s\n" % (i, rv, q(len(rv))))
        ann = '{"count":%d,"sample":"s%d","w":%s}' % (rng.randrange(1, 9), i % 4, json.dumps(rseq(rng, 3)))
        S.write("@s%05d %s some definition %d\n%s\n+\n%s\n" % (i, ann, i, frag, q(len(frag))))
        if i < max(10, nrec // 4):
            tpl = rseq(rng, rng.randrange(5, 60)) + frag + rseq(rng, rng.randrange(5, 60))
            if rng.random() < 0.3:
                tpl += mutate(rng, frag, 2) + rseq(rng, 20)
            T.write(">t%04d\n%s\n" % (i, "\n".join(tpl[k:k + 60] for k in range(0, len(tpl), 60))))
    for f in (F, R, S, T):
        f.close()
    # obipcr gets the reader's 1 MiB chunks as its batches, whatever --batch-size says: a template file of several MiB is needed
    # for several workers to be inside the PCR code (its C scratch structures) at the same time
    tpl = open(os.path.join(d, "templates.fasta")).read().split(">")[1:]
    with open(os.path.join(d, "templates_big.fasta"), "w") as TB:
        rep = 0
        while TB.tell() < 3600000 and tpl:
            for r in tpl:
                head, _, body = r.partition("\n")
                TB.write(">%s_%d\n%s" % (head.split()[0], rep, body))
            rep += 1
    # long FASTA records without qualities: written as FASTQ they get the shared default quality vector
    with open(os.path.join(d, "long.fasta"), "w") as L:
        for i in range(max(60, nrec // 2)):
            n = rng.choice([30, 400, 520, 900, 1500, 2600, 4000]) + rng.randrange(0, 200)
            sq = rseq(rng, n)
            L.write(">l%04d\n%s\n" % (i, "\n".join(sq[k:k + 60] for k in range(0, n, 60))))
    # heterogeneous annotation sets (obicsv --auto proposes its columns from "the first sequences"): several sizes, because
    # which batch reaches the writer first depends on how long batch 0 takes to parse; the last record (always a batch of
    # its own in the chunk reader) carries a key no other record has
    for n in HET_SIZES:
        with open(os.path.join(d, "het_%d.fasta" % n), "w") as H:
            for i in range(n):
                keys = sorted(rng.sample(["a", "b", "c", "d", "e"], rng.randrange(1, 4)))
                H.write(">h%05d {%s}\n%s\n" % (i, ",".join('"%s":%d' % (k, rng.randrange(100)) for k in keys), rseq(rng, rng.randrange(20, 60))))
            H.write('>hlast {"zz":1}\nacgt\n')
    # obisummary: every counter of its per-worker partial summaries gets a value of its own (merged_sample everywhere,
    # obiclean_status everywhere, obiclean_weight on 9 records out of 10, vector / map / scalar tags on different subsets), in
    # a file of several 1 MiB chunks, so that a slip in the merge of the partial summaries shows in the printed result
    with open(os.path.join(d, "summary.fasta"), "w") as U:
        for i in range(max(24000, nrec * 3)):
            smp = {"s%d" % (i % 5): 1 + (i % 3), "s%d" % ((i + 2) % 5): 1 + (i % 2)}
            ann = dict(count=sum(smp.values()), merged_sample=smp, obiclean_status={k: "hi s"[(i + j) % 4].strip() or "s" for j, k in enumerate(smp)})
            if i % 10:
                ann["obiclean_weight"] = {k: v + 1 for k, v in smp.items()}
            if i % 3 == 0:
                ann["vec"] = [1, 2, 3]
            if i % 7 == 0:
                ann["scalar_tag"] = "x%d" % (i % 4)
            U.write(">u%05d %s\n%s\n" % (i, json.dumps(ann, separators=(",", ":")), rseq(rng, 30)))
    gen_glue_data(ctx, d, pf, pr)
    return pf, pr


MUX_MODES = [("hamming", ["spacer,2", "matching,hamming"]), ("indel", ["spacer,2", "matching,indel"]),
             ("delim", ["spacer,2", "tag_delimiter,a"]), ("rescue", ["spacer,2", "tag_delimiter,a", "tag_indels,1", "matching,indel"])]


# minimised witness of a fixed defect (corpus): a valid 9-record FASTQ file whose quality lines contain double quotes; the format
# guesser took it for CSV (its CSV heuristic was tried before the FASTQ one) and the records were lost. zlib + base64 of the file.
WITNESS_QUOTED_FASTQ = (
    "eNp1VGuTmzYU/e5fYQQYMEi8n+ZlA2tDpl+STDud7E4Hyxuys4EkmNh1dvzfK2FvtztNzBghriTuOfecm/aaZjrm9AngL9+7AQS6ArYPDRm1649EFbD/CgJQT7fTKb693U1vwbdbABTw4wcIPny4U5"
    "7Odwro7sk2aBruebr/0t5Pd/cfH7qH4eFLNyVnTOqmGXCN8TDUdY2bhjzWDXnCuBmGMVbTeYNrMmvwQAN0PR7qiTwRVlYZmNBiBc7JJCRnnFgZMDECKDiePrdRYQiyAO0UKfrcYVXEhaUhbuLQ1Sbp"
    "iNGaHHqI2r45Hev+ER1Pu+6x3R33h357bNvHoelwV/f9AQ3o0OI93g9D153w7oAftz3JoGJUBZoIFOFcYH02L5JY5YSciaWCzxyAVoCTxNJTVygRDCVcWXnhiiIUUt+8ZmC/YvlvQp2uOIS4FgRPoA"
    "YBWUHIJ0R/A+efcWhPGtzUhCzK3FAPlETC2ECn+DKh8XEYScUj25RKwi+BYHFqphTLoEClHyRuwvnVLJ/n+VxlYpm9EWaSnLkSDxItFecuKkVGXzhAXnMSMK4YnBcMrgLuSbLgGYr2CorzLxSinvtv"
    "f32+75rhEwgM0z1PcLPb9iTt9vFwhIfDvkftoWth19Y9JX53qvsj7A/dEaEd3p9IxfbbttvWbfNp2J4ggVIobLyex9E8ynlN4fkizUXdLL0ZlyJoLFOhyGDoOarAFdqcq2CieHk6KzlRZ/yVIV3RuA"
    "TNcx3Okw6fevIV2MFuv8PbLTxguN2h3ZZ8j1mojscXcamgYJmGs5XklstFwsTXk7wXXjQCuG6/fqbk7DXwC/OcJzUeSzdQ2WN6EQ9gWq6GVpb8B2qDgRYTjw6pR2vUdAUeS0xeETlcao7xeNjFUdRr"
    "ZMtortFZ9NyLmYarVDABlWfril0uVlwFNpxjRVwkVyiaqzd24MwjWyYyWJnicqFIVQQYyzS48CbeeDwUkqryxSRNZBSv/ciz2FXs6qaJQkaIRS5TLBeZbGhDZR2yJlMgfRNHdgQln9PSwOOcQJH85E"
    "qd/0IdNF6LxXJ+xd5P7OFP4FuUv//z/XL9bo027z/8trn74907tIbozdvf4YaE3iwRgQ3cfOEKcqkBLVecUIxLK/YzNdKZZaYuHIuDGrjk5movuZnPOrfu/tciXY1omhqypryPBblMaRWpQ2va0mhz"
    "G71IclBlw1aDWVSVqzJiXYAc8nGNV1XkcYtqFZi+OvMNNRZd/pqK/iqVF4WZ4L+JfSS+9JD9qjWfJ2NTpZ2Dtl3ahamOqJRoviREb9euO4rkkuvYqoexkdCR3uk7PCqI7iBrGjxCHsWJRx3SYyjCUt"
    "JC3tEUQSAVB7GvLTVfNVCazHlGtcWMWWksA9nyRkpnelFmha7zHqrWlrbxIluwTDEt2RIYuXwj8rGUCIs8idKF7ReeKUplVXqhb5ZQKnzZXGahyk/+AX059E0=")
WITNESS_QUOTED_IDS = ["r%05d" % i for i in range(363, 372)]


def gen_glue_data(ctx, d, pf, pr):
    """round 3: the inputs of the command-level glue. The same records as single.fastq presented in other ways (three files cut at
    uneven places, gzip, an empty file), and reads whose sample tags carry errors (one substitution / deletion / insertion) between
    delimiter nucleotides, for the hamming / indel / delimited / rescue tag matching of obimultiplex (CSV tag lists with @param lines)."""
    import gzip
    rng = ctx.rng
    L = open(os.path.join(d, "single.fastq")).read().split("\n")
    n = len(L) // 4
    c1 = rng.randrange(1, max(2, n // 2))
    c2 = rng.randrange(c1, n)
    cuts = [0, c1, c2, n]
    for i in range(3):
        with open(os.path.join(d, "part%d.fastq" % i), "w") as f:
            f.write("".join(x + "\n" for x in L[4 * cuts[i]:4 * cuts[i + 1]]))
    with gzip.open(os.path.join(d, "single.fastq.gz"), "wb", compresslevel=1) as f:
        f.write(open(os.path.join(d, "single.fastq"), "rb").read())
    open(os.path.join(d, "empty.fastq"), "w").close()
    with open(os.path.join(d, "one.fastq"), "w") as f:        # a single record, no newline after the quality line
        f.write("@only {\"count\":3}\nacgtacgtac\n+\nIIIIIIIIII")
    import base64, zlib
    with open(os.path.join(d, "witness_quoted.fastq"), "wb") as f:
        f.write(zlib.decompress(base64.b64decode(WITNESS_QUOTED_FASTQ)))
    tags = ["cgtgtct", "gtctcgc", "tcgctgt", "ggtccgt", "ctgcctg", "tgtggtc"]
    r3 = lambda k: "".join(rng.choice("cgt") for _ in range(k))

    def mut(t):
        x = rng.random()
        if x < 0.6:
            return t
        i = rng.randrange(len(t))
        if x < 0.85:
            return t[:i] + rng.choice([c for c in "cgt" if c != t[i]]) + t[i + 1:]
        if x < 0.93:
            return t[:i] + t[i + 1:]
        return t[:i] + rng.choice("cgt") + t[i:]
    barcodes = [rseq(rng, rng.randrange(30, 90)) for _ in range(12)]
    with open(os.path.join(d, "muxerr.fastq"), "w") as f:
        for i in range(3000 if ctx.quick else 12000):
            t = rng.choice(tags)
            frag = r3(rng.randrange(0, 4)) + "aa" + mut(t) + "aa" + pf + rng.choice(barcodes) + rc(pr) + "tt" + rc(mut(t)) + "tt" + rc(r3(rng.randrange(0, 4)))
            if rng.random() < 0.3:
                frag = rc(frag)
            f.write("@m%05d\n%s\n+\n%s\n" % (i, frag, "".join(chr(33 + rng.randrange(2, 41)) for _ in range(len(frag)))))
    for name, params in MUX_MODES:
        with open(os.path.join(d, "mux_%s.csv" % name), "w") as f:
            for p_ in params:
                f.write("@param,%s\n" % p_)
            f.write("experiment,sample,sample_tag,forward_primer,reverse_primer\n")
            for i, t in enumerate(tags):
                f.write("exp,sample%d,%s,%s,%s\n" % (i, t, pf.upper(), pr.upper()))


HET_SIZES = (150, 1000, 3000, 7000)
CHEAP_REPS = 6          # repetitions multiplier of the command lines on the small heterogeneous inputs


def command_lines(d, pf, pr):
    s = os.path.join(d, "single.fastq")
    asm = os.path.join(d, "assembled.fastq")
    return [
        ("obiconvert", ["obiconvert", s]),
        ("obiconvert-fasta", ["obiconvert", "--fasta-output", s]),
        ("obiconvert-json", ["obiconvert", "--json-output", s]),
        ("obiconvert-fasta2fastq", ["obiconvert", "--fastq-output", os.path.join(d, "long.fasta")]),
        ("obigrep", ["obigrep", "-l", "90", "-s", "ac.t", s]),
        ("obigrep-v", ["obigrep", "-v", "-L", "100", s]),
        ("obiannotate", ["obiannotate", "--length", "-S", "foo=sequence.Len()+1", s]),
        ("obicomplement", ["obicomplement", s]),
        ("obipairing", ["obipairing", "-F", os.path.join(d, "F.fastq"), "-R", os.path.join(d, "R.fastq"), "--min-overlap", "10"]),
        ("obimultiplex", ["obimultiplex", "-t", os.path.join(d, "ngsfilter.txt"), "-e", "2", "--keep-errors", asm]),
        ("obimultiplex-whole", ["obimultiplex", "-t", os.path.join(d, "ngsfilter.txt"), "-e", "2", "--keep-errors", s]),
        ("obimultiplex-whole-noerr", ["obimultiplex", "-t", os.path.join(d, "ngsfilter.txt"), "-e", "2", s]),
        ("obipcr", ["obipcr", "--forward", pf, "--reverse", pr, "-e", "2", "-L", "200", os.path.join(d, "templates.fasta")]),
        ("obipcr-big", ["obipcr", "--forward", pf, "--reverse", pr, "-e", "2", "-L", "200", os.path.join(d, "templates_big.fasta")]),
        ("obicount", ["obicount", s]),
        ("obisummary", ["obisummary", "--json-output", s]),
        ("obicsv", ["obicsv", "--ids", "--count", "-s", "-k", "sample", s]),
    ] + [("obicsv-auto-%d" % n, ["obicsv", "--auto", "--ids", "-s", os.path.join(d, "het_%d.fasta" % n)]) for n in HET_SIZES] + [
        ("obiconvert-het", ["obiconvert", "--json-output", os.path.join(d, "het_1000.fasta")]),
        ("obisummary-het", ["obisummary", "--json-output", os.path.join(d, "het_3000.fasta")]),
        ("obisummary-rich", ["obisummary", "--json-output", os.path.join(d, "summary.fasta")]),
        ("obisummary-rich-yaml", ["obisummary", "--yaml-output", os.path.join(d, "summary.fasta")]),
    ] + glue_lines(d, pf, pr)


# groups of command lines whose outputs (or parts of them) must be the SAME bytes: the command-level glue (several input files,
# stdin, gzip input / output, -o, parallelism given through the environment, --save-discarded, paired files) must not change
# what is computed. A third element of a command line is its specification:
#   stdin   file given on standard input                 out    suffixes of the files the command writes ("{O}" in argv = their prefix)
#   envpar  parallelism through OBIMAXCPU / OBIBATCHSIZE   post   canonical form compared: gunzip | sortfq (records as a multiset)
#   same    {part: group}, part = "stdout" | a suffix | "stdout|sorted"
GLUE_BASE = {"obiconvert": {"stdout": "convert", "stdout|sorted": "convert-sorted"}, "obigrep": {"stdout": "grep"},
             "obicount": {"stdout": "count"}, "obisummary": {"stdout": "summary"}, "obicsv": {"stdout": "csv"},
             "obimultiplex-whole-noerr": {"stdout": "mux-noerr"}, "obicomplement": {"stdout": "complement"}}


def glue_lines(d, pf, pr):
    j = lambda x: os.path.join(d, x)
    s, parts = j("single.fastq"), [j("part%d.fastq" % i) for i in range(3)]
    F, R = j("F.fastq"), j("R.fastq")
    grep = ["obigrep", "-l", "90", "-s", "ac.t"]
    mux = ["obimultiplex", "-t", j("ngsfilter.txt"), "-e", "2"]
    pcr = ["obipcr", "--forward", pf, "--reverse", pr, "-e", "2"]
    return [
        ("obiconvert-multi", ["obiconvert"] + parts, dict(same={"stdout": "convert"})),
        ("obiconvert-stdin", ["obiconvert"], dict(stdin=s, same={"stdout": "convert"})),
        ("obiconvert-gz", ["obiconvert", s + ".gz"], dict(same={"stdout": "convert"})),
        ("obiconvert-out", ["obiconvert", "-o", "{O}.fastq", s], dict(out=[".fastq"], same={".fastq": "convert"})),
        ("obiconvert-Z", ["obiconvert", "-Z", s], dict(post="gunzip", same={"stdout": "convert"})),
        ("obiconvert-env", ["obiconvert", s], dict(envpar=True, same={"stdout": "convert"})),
        ("obiconvert-noorder", ["obiconvert", "--no-order"] + parts, dict(post="sortfq", same={"stdout": "convert-sorted"})),
        ("obiconvert-solexa", ["obiconvert", "--solexa", s], {}),
        ("obiconvert-empty", ["obiconvert", j("empty.fastq")], dict(empty_ok=True)),
        ("obiconvert-one", ["obiconvert", j("one.fastq")], dict(empty_ok=True, judge="one-record")),
        ("obicount-empty", ["obicount", j("empty.fastq")], dict(empty_ok=True, same={"stdout": "count-empty"})),
        ("obicount-empty-stdin", ["obicount"], dict(stdin=j("empty.fastq"), empty_ok=True, same={"stdout": "count-empty"})),
        ("obigrep-empty", grep + [j("empty.fastq")], dict(empty_ok=True)),
        ("obiconvert-witness-quoted", ["obiconvert", j("witness_quoted.fastq")], dict(judge="witness-quoted")),
        ("obiconvert-witness-quoted-3", ["obiconvert", j("part0.fastq"), j("witness_quoted.fastq"), j("part2.fastq")], dict(judge="witness-quoted-3")),
        ("obiconvert-F", ["obiconvert", F], dict(same={"stdout": "convert-F"})),
        ("obiconvert-R", ["obiconvert", R], dict(same={"stdout": "convert-R"})),
        ("obiconvert-paired", ["obiconvert", "--paired-with", R, "-o", "{O}.fastq", F],
         dict(out=["_R1.fastq", "_R2.fastq"], same={"_R1.fastq": "convert-F", "_R2.fastq": "convert-R"})),
        ("obigrep-multi", grep + parts, dict(same={"stdout": "grep"})),
        ("obigrep-inv", grep + ["-v", s], dict(same={"stdout": "grep-inv"})),
        ("obigrep-divide", grep + ["--save-discarded", "{O}.fastq", s], dict(out=[".fastq"], same={"stdout": "grep", ".fastq": "grep-inv"})),
        ("obigrep-paired", ["obigrep", "-l", "70", "--paired-mode", "xor", "--paired-with", R, "-o", "{O}.fastq", F],
         dict(out=["_R1.fastq", "_R2.fastq"], judge="grep-paired-xor")),
        ("obiannotate-paired", ["obiannotate", "--length", "--paired-with", R, "-o", "{O}.fastq", F], dict(out=["_R1.fastq", "_R2.fastq"])),
        ("obiannotate-tags", ["obiannotate", "--rename-tag", "smp=sample", "--delete-tag", "w", "-S", "c2=annotations.count*2",
                              "-S", "cmp=composition(sequence)", "-S", "g=gc(sequence)", s], {}),
        ("obicomplement-assembled", ["obicomplement", j("assembled.fastq")], {}),
        ("obicomplement-stdin-gz", ["obicomplement"], dict(stdin=s + ".gz", same={"stdout": "complement"})),
        ("obicount-multi", ["obicount"] + parts, dict(same={"stdout": "count"})),
        ("obisummary-multi", ["obisummary", "--json-output"] + parts, dict(same={"stdout": "summary"})),
        ("obicsv-stdin", ["obicsv", "--ids", "--count", "-s", "-k", "sample"], dict(stdin=s, same={"stdout": "csv"})),
        ("obimultiplex-unid", mux + ["-u", "{O}.fastq", s], dict(out=[".fastq"], same={"stdout": "mux-noerr"}, judge="mux-unidentified")),
        ("obimultiplex-multi", mux + parts, dict(same={"stdout": "mux-noerr"})),
        ("obipairing-opts", ["obipairing", "-F", F, "-R", R, "--min-overlap", "10", "--exact-mode", "--without-stat"], {}),
        ("obipairing-abs", ["obipairing", "-F", F, "-R", R, "--fast-absolute", "--delta", "2"], {}),
        ("obipcr-circular", pcr + ["--circular", "-L", "400", j("templates.fasta")], {}),
        ("obipcr-flanks", pcr + ["--delta", "10", "--min-length", "40", "-L", "300", j("templates.fasta")], {}),
        ("obipcr-fullflanks", pcr + ["--delta", "10", "--only-complete-flanking", "-L", "300", j("templates.fasta")], {}),
    ] + [("obimultiplex-%s" % m, ["obimultiplex", "-t", j("mux_%s.csv" % m), "-e", "2", "--keep-errors", j("muxerr.fastq")], {}) for m, _ in MUX_MODES]


def run_cmd(bindir, argv, maxcpu, batch, gomax, trace=None, timeout=120, stdin=None, envpar=False):
    env = dict(os.environ, GOMAXPROCS=str(gomax))
    env.pop("OBIMAXCPU", None); env.pop("OBIBATCHSIZE", None)
    if trace:
        env["VERIF_POOL_TRACE"] = trace
    # max-cpu 0 stands for --force-one-cpu (the only way to get a single worker: --max-cpu 1 is raised to 2)
    par = ["--max-cpu", str(maxcpu)] if maxcpu > 0 else ["--force-one-cpu"]
    par += ["--batch-size", str(batch)]
    if envpar:
        # the same parallelism given through the environment (options.GetEnv of the option parser)
        env["OBIBATCHSIZE"] = str(batch)
        par = ["--force-one-cpu"] if maxcpu <= 0 else []
        if maxcpu > 0:
            env["OBIMAXCPU"] = str(maxcpu)
    cmd = [os.path.join(bindir, argv[0])] + par + argv[1:]
    for attempt in range(3):
        try:
            if trace and attempt and os.path.exists(trace):
                os.remove(trace)
            if stdin:
                with open(stdin, "rb") as fin:
                    p = subprocess.run(cmd, stdin=fin, capture_output=True, timeout=timeout, env=env)
            else:
                p = subprocess.run(cmd, stdin=subprocess.DEVNULL, capture_output=True, timeout=timeout, env=env)
        except subprocess.TimeoutExpired:
            return 124, b"", b"TIMEOUT"
        if p.returncode not in (-15, -9):       # SIGTERM / SIGKILL come from outside (another job's cleanup): run again
            break
    return p.returncode, p.stdout, p.stderr


def coq_eval_retry(ctx, name, src, timeout=900):
    """ctx.coq_eval, run again when coqc was killed from outside (SIGTERM/SIGKILL by another job's cleanup: 'Terminated')"""
    for attempt in range(3):
        rc, out, dt = ctx.coq_eval(name, src, timeout=timeout)
        if rc == 0 or not (rc in (143, 137, -15, -9) or out.strip() in ("Terminated", "Killed", "")):
            break
    return rc, out, dt


def correspond_retry(ctx, name, imports, terms, fn):
    """ctx.correspond with one term per coqc job and the retry above"""
    from concurrent.futures import ThreadPoolExecutor

    def one(kt):
        k, t = kt
        src = imports + "\nDefinition cases := [\n" + t + "\n].\nDefinition M := Eval vm_compute in (%s cases).\nPrint M.\n" % fn
        return (k,) + coq_eval_retry(ctx, "%s_%s_%d" % (ctx.pid, name, k), src)
    with ThreadPoolExecutor(max_workers=14) as ex:
        res = list(ex.map(one, list(enumerate(terms))))
    bad = []
    for k, rc, out, dt in res:
        if rc != 0:
            return None, "coqc failed on generated cases (%s): %s" % (name, out[-1500:])
        idx = vlib.parse_nat_list(out)
        if idx is None:
            return None, "cannot parse coqc output: " + out[-500:]
        bad += [k + i for i in idx]
    ctx.cov["model_evaluations"] = ctx.cov.get("model_evaluations", 0) + len(terms)
    return sorted(bad), None


def trace_events(path):
    """one trace per pool (byte slices: R/G, annotations: RA/GA) -> [(pool name, events)], addresses renumbered
    in order of first appearance (the validator only compares addresses; 0 = nil stays 0)"""
    ev = {"slices": [], "annotations": []}
    num = {"0": "0"}
    for l in open(path):
        p = l.split()
        if len(p) != 4:
            continue
        if p[0] in ("R", "G"):
            k, pool = p[0], "slices"
        elif p[0] in ("RA", "GA"):
            k, pool = p[0][0], "annotations"
        else:
            continue
        for x in (p[1], p[2]):
            if x not in num:
                num[x] = str(len(num))
        ev[pool].append("P%s %s %s" % (k, num[p[1]], num[p[2]]))       # "PR h d" / "PG h d"
    return [(k, v) for k, v in ev.items() if v]


def validate_traces(ctx, broken, tinfo):
    """WHOLE traces through C05.Model.pool_check by vm_compute. tinfo = [(name, c, b, g, pool, events)].
    Jobs of about 20000 events; a trace is cut in chunk definitions of 4000 events (long list literals overflow coqc's stack)."""
    from concurrent.futures import ThreadPoolExecutor
    jobs, cur, w = [], [], 0
    for i in sorted(range(len(tinfo)), key=lambda i: -len(tinfo[i][5])):
        cur.append(i)
        w += len(tinfo[i][5])
        if w >= 20000:
            jobs.append(cur)
            cur, w = [], 0
    if cur:
        jobs.append(cur)

    def one(job):
        j, idxs = job
        src = ["From Coq Require Import NArith List Uint63. Import ListNotations.\nFrom OBI.C05 Require Import Model Codec.\nLocal Open Scope uint63_scope."]
        terms = []
        for i in idxs:
            ev = tinfo[i][5]
            names = []
            for k in range(0, len(ev), 4000):
                names.append("t%d_%d" % (i, k // 4000))
                ints = ";".join("%d;%s;%s" % (0 if e[1] == "R" else 1, e.split()[1], e.split()[2]) for e in ev[k:k + 4000])
                src.append("Definition %s : list int := [%s]." % (names[-1], ints))
            terms.append("[" + "; ".join(names) + "]")
        src.append("Definition M := Eval vm_compute in (trace_mismatches [%s]).\nPrint M.\n" % "; ".join(terms))
        rc, out, dt = coq_eval_retry(ctx, "C05_pooltraces_%d" % j, "\n".join(src), timeout=2400)
        if rc != 0:
            return None, out[-1500:]
        idx = vlib.parse_nat_list(out)
        if idx is None:
            return None, "cannot parse coqc output: " + out[-500:]
        return [idxs[k] for k in idx], None
    bad = []
    with ThreadPoolExecutor(max_workers=14) as ex:
        for r, err in ex.map(one, list(enumerate(jobs))):
            if r is None:
                return None, err
            bad += r
    ctx.cov["model_evaluations"] = ctx.cov.get("model_evaluations", 0) + len(tinfo)
    return sorted(bad), None


def py_pool_check(ev):
    """python twin of C05.Model.pool_check, only used to point at the rejected event in a replay file"""
    pool = []
    for i, e in enumerate(ev):
        k, h, d = e.split()
        h, d = int(h), int(d)
        if k == "PR":
            if any(x[1] == d for x in pool):
                return i, "DoubleRecycle"
            pool.insert(0, (h, d))
        else:
            if (h, d) in pool:
                pool.remove((h, d))
            elif any(x[0] == h for x in pool):
                return i, ("HeaderModifiedInPool" if d == 0 else "LiveBufferHandedOut")
    return None



# ---------------------------------------------------------------------------------------------
# record-level correspondence: the REAL command's output records = flat_map (cmd_f c) of the input
# records (C05/Records.v), obicount = the monoid fold
IUPAC = "acgtnrykmswbdhv"


def gen_corr(ctx, path, n):
    """FASTQ file of n records with varied annotations; returns the abstract input records
    (id, sequence as the reader normalises it, qualities, annotation dict) from the generator's own data."""
    rng = ctx.rng
    recs = []
    edge = [1, 2, 59, 60, 61, 99, 100, 101, 120]
    with open(path, "w") as f:
        for i in range(n):
            L = rng.choice(edge) if rng.random() < 0.3 else rng.randrange(1, 130)
            alpha = "acgt" if rng.random() < 0.7 else IUPAC + ".-"
            sq = "".join(rng.choice(alpha) for _ in range(L))
            if rng.random() < 0.1:
                sq = sq.upper()
            if rng.random() < 0.05 and L > 6:
                k = rng.randrange(1, L - 4)
                sq = sq[:k] + "[" + sq[k + 1:k + 3] + "]" + sq[k + 4:]
            q = "".join(chr(33 + rng.randrange(0, 42)) for _ in range(L))
            if q[0] in "@+":
                q = "I" + q[1:]       # a quality line starting with '@' is the entry-splitting question of C01, not ours
            ann = {}
            if rng.random() < 0.7:
                ann["count"] = rng.choice([1, 1, 2, 3, 3, 4, 7, 100, 0, -2])
            for k in rng.sample(["sample", "w", "x", "f", "m", "b", "neg", "big", "e", "sp", "seq_length", "zz"], rng.randrange(0, 5)):
                ann[k] = {"sample": "s%d" % (i % 4), "w": rseq(rng, 3), "x": [1, rng.randrange(9)], "f": rng.randrange(1, 99) + 0.5, "m": {"a": i, "b": "q"},
                          "b": rng.random() < 0.5, "neg": -rng.randrange(1, 1000), "big": 10 ** 11 + i, "e": "", "sp": "a b  c\\d \"q\"",
                          "seq_length": rng.randrange(0, 300), "zz": [[], {}]}[k]
            definition = rng.choice(["", "", "some definition %d" % i, "x"])
            if recs and rng.random() < 0.04:
                # the same content as the previous record under another identifier (identical bytes in pooled buffers)
                _, sq0, q0, ann0 = recs[-1]
                sq, q, L = sq0, q0, len(sq0)
                ann = {k: v for k, v in ann0.items() if k != "definition"}
                definition = ann0.get("definition", "")
            title = "r%05d" % i
            if ann or rng.random() < 0.5:
                title += " " + json.dumps(ann, separators=(",", ":")) if ann else ""
            if definition:
                title += " " + definition
                ann = dict(ann, definition=definition)
            f.write("@%s\n%s\n+\n%s\n" % (title, sq, q))
            recs.append(("r%05d" % i, sq.lower(), q, ann))
    return recs


def parse_fastq_out(data):
    """records written by a command (FASTQ, JSON header): [(id, seq, qual, annotation dict)] or None"""
    lines = data.decode("utf8", "replace").split("\n")
    if lines and lines[-1] == "":
        lines.pop()
    if len(lines) % 4:
        return None
    out = []
    for k in range(0, len(lines), 4):
        t, sq, plus, q = lines[k:k + 4]
        if not t.startswith("@") or plus != "+":
            return None
        ident, _, rest = t[1:].partition(" ")
        rest = rest.strip()
        try:
            ann = json.loads(rest) if rest else {}
        except ValueError:
            return None
        if not isinstance(ann, dict):
            return None
        out.append((ident, sq, q, ann))
    return out


def parse_fasta_out(data):
    """records written by a command (FASTA, JSON header): [(id, seq, None, annotation dict)] or None"""
    out, cur = [], None
    for l in data.decode("utf8", "replace").split("\n"):
        if l.startswith(">"):
            ident, _, rest = l[1:].partition(" ")
            rest = rest.strip()
            try:
                ann = json.loads(rest) if rest else {}
            except ValueError:
                return None
            if not isinstance(ann, dict):
                return None
            cur = [ident, "", None, ann]
            out.append(cur)
        elif l and cur is not None:
            cur[1] += l
        elif l:
            return None
    return [tuple(x) for x in out]


def parse_csv_out(data, keys):
    """rows of obicsv --ids --count -s -k ...: [[id, count, value of each key, sequence]] with integers as int; None when unparsable"""
    import csv, io
    rows = list(csv.reader(io.StringIO(data.decode("utf8", "replace"))))
    if not rows or rows[0] != ["id", "count"] + list(keys) + ["sequence"]:
        return None
    out = []
    for row in rows[1:]:
        if len(row) != len(keys) + 3:
            return None
        out.append([row[0]] + [int(x) if re.fullmatch(r"-?\d+", x) else x for x in row[1:-1]] + [row[-1]])
    return out


def coq_bytes(s):
    """bytes packed 7 per primitive integer, least significant first (decoded by C05.Codec.pk inside vm_compute)"""
    b = s.encode("utf8")
    return "(pk %d [%s])" % (len(b), ";".join(str(int.from_bytes(b[k:k + 7], "little")) for k in range(0, len(b), 7)))


def coq_val(v):
    if isinstance(v, bool) or not isinstance(v, (int, str)):
        return "VRaw (%s)" % coq_bytes(json.dumps(v, sort_keys=True, separators=(",", ":")))
    if isinstance(v, int):
        return "VInt (%d)%%Z" % v
    return "VStr (%s)" % coq_bytes(v)


def coq_rec(r):
    ident, sq, q, ann = r
    return "mkrec (%s) (%s) (%s) [%s]" % (coq_bytes(ident), coq_bytes(sq), "None" if q is None else "Some (%s)" % coq_bytes(q),
                                          "; ".join("(%s, %s)" % (coq_bytes(k), coq_val(v)) for k, v in sorted(ann.items())))


def coq_recs(rs):
    return "[" + ";\n ".join(coq_rec(r) for r in rs) + "]"


UNSET = 2000000000
COMPL = dict(zip("acgtnrykmswbdhv.-[]", "tgcanyrmkswvhdb.-]["))


def py_cmd_f(c, r):
    """python twin of Records.cmd_f (direct oracle)"""
    ident, sq, q, ann = r
    kind = c[0]
    if kind == "convert":
        return [r]
    if kind == "complement":
        return [(ident, "".join(COMPL.get(x, "n") for x in reversed(sq)), q[::-1] if q is not None else None, ann)]
    if kind == "annotlen":
        return [(ident, sq, q, dict(ann, seq_length=len(sq)))]
    inv, lmin, lmax, cmin, cmax = c[1:]
    cnt = ann.get("count", 1)
    ok = (lmin <= 1 or len(sq) >= lmin) and (lmax == UNSET or len(sq) <= lmax) and (cmin <= 1 or cnt >= cmin) and (cmax == UNSET or cnt <= cmax)
    if kind == "cond":
        # MakeIConditionalWorker(predicate, ReverseComplement): the selected records are transformed, the others pass unchanged
        return py_cmd_f(("complement",), r) if ok != inv else [r]
    return [r] if ok != inv else []


def coq_cmd(c):
    if c[0] == "convert":
        return "CConvert"
    if c[0] == "complement":
        return "CComplement"
    if c[0] == "annotlen":
        return "CAnnotLength"
    if c[0] == "cond":
        return "(CCondComplement %s (%d)%%Z (%d)%%Z (%d)%%Z (%d)%%Z)" % ("true" if c[1] else "false", c[2], c[3], c[4], c[5])
    return "(CGrep %s (%d)%%Z (%d)%%Z (%d)%%Z (%d)%%Z)" % ("true" if c[1] else "false", c[2], c[3], c[4], c[5])


def corr_command_lines(rng):
    a, b = sorted(rng.sample([2, 59, 60, 61, 99, 100, 101, 120, 150], 2))
    return [
        ("obiconvert", ("convert",), []),
        ("obicomplement", ("complement",), []),
        ("obiannotate", ("annotlen",), ["--length"]),
        ("obigrep", ("grep", False, a, b, 1, UNSET), ["-l", str(a), "-L", str(b)]),
        ("obigrep", ("grep", False, b, UNSET, 1, UNSET), ["-l", str(b)]),
        ("obigrep", ("grep", True, 1, a, 1, UNSET), ["-v", "-L", str(a)]),
        ("obigrep", ("grep", False, 1, UNSET, 3, UNSET), ["-c", "3"]),
        ("obigrep", ("grep", False, a, UNSET, 1, 3), ["-l", str(a), "-C", "3"]),
        ("obicount", ("count",), []),
        ("obisummary", ("summary-count",), ["--json-output"]),
        # (not "big": obicsv prints a number of more than 6 digits read from a JSON title line in exponent notation, 1.00000000001e+11 —
        #  a formatting matter of the CSV writer, the same in every configuration, outside C05)
        ("obicsv", ("csv", ("sample", "w", "neg")), ["--ids", "--count", "-s", "-k", "sample", "-k", "w", "-k", "neg"]),
    ]


def prep_records(ctx, d):
    """everything random of the record-level correspondence (ctx.rng is not used from the worker threads)"""
    n = 400 if ctx.quick else 4000
    path = os.path.join(d, "corr.fastq")
    inp = gen_corr(ctx, path, n)
    # the same records presented as three files cut at random places (an empty one allowed) and gzipped
    import gzip
    L = open(path).read().split("\n")
    c1 = ctx.rng.randrange(0, n + 1)
    c2 = ctx.rng.randrange(c1, n + 1)
    cuts = [0, c1, c2, n]
    for i in range(3):
        with open(os.path.join(d, "corr_p%d.fastq" % i), "w") as f:
            f.write("".join(x + "\n" for x in L[4 * cuts[i]:4 * cuts[i + 1]]))
    with gzip.open(path + ".gz", "wb", compresslevel=1) as f:
        f.write(open(path, "rb").read())
    # ... and as a FASTA file: the same records without qualities
    with open(os.path.join(d, "corr.fasta"), "w") as f:
        for k in range(0, 4 * n, 4):
            f.write(">" + L[k][1:] + "\n" + L[k + 1] + "\n")
    return dict(n=n, path=path, inp=inp, lines=corr_command_lines(ctx.rng), cuts=cuts)


def records_correspondence(ctx, broken, bindir, d, prep):
    n, path, inp = prep["n"], prep["path"], prep["inp"]
    configs = [(1, 2000, 1), (8, 7, 16)] if ctx.quick else [(1, 2000, 1), (8, 7, 16), (3, 1, 4), (32, 100, 16)]
    terms, info, runs = [], [], 0
    # how the input records reach the command: one file (every configuration), then three files / stdin / gzip (one configuration)
    parts = [os.path.join(d, "corr_p%d.fastq" % i) for i in range(3)]
    present = [("file", [path], None, cf) for cf in configs] + [("three-files", parts, None, (8, 7, 16)), ("stdin", [], path, (3, 1, 4)),
                                                                  ("gzip", [path + ".gz"], None, (8, 7, 16)),
                                                                  ("fasta", [os.path.join(d, "corr.fasta")], None, (8, 7, 16))]
    ctx.cov["record_function_presentations"] = dict(three_files_cut_at=prep["cuts"], stdin=True, gzip=True, fasta_without_qualities=True)
    inp_nq = [(i, sq, None, a) for (i, sq, _, a) in inp]
    for (exe, c, opts) in prep["lines"]:
        seen = set()
        for (how, files, stdin, (mc, bs, g)) in present:
            code, out, errb = run_cmd(bindir, [exe] + opts + files, mc, bs, g, stdin=stdin)
            runs += 1
            if code == 0 and out in seen:
                continue            # byte-identical to an output already checked against the model
            seen.add(out)
            name = "c05_records_%s" % "_".join([exe] + [o.strip("-") for o in opts])
            rp = dict(property="C05", kind="record-function", argv=[exe] + opts, input=how, max_cpu=mc, batch_size=bs, gomaxprocs=g, seed=ctx.seed,
                      how_to_replay="corr.fastq is regenerated from the seed by tools/props/c05.py gen_corr")
            if code != 0:
                ctx.violation(name + "_exit", dict(rp, exit=code, stderr=errb.decode("utf8", "replace")[-1500:]))
                continue
            if c[0] == "count":
                m = re.match(rb"entites,n\nvariants,(-?\d+)\nreads,(-?\d+)\nsymbols,(-?\d+)\n$", out)
                exp = (len(inp), sum(r[3].get("count", 1) for r in inp), sum(len(r[1]) for r in inp))
                got = tuple(int(x) for x in m.groups()) if m else None
                if got != exp:
                    ctx.violation(name, dict(rp, expected=exp, implementation=out.decode("utf8", "replace")[:300]))
                if got:
                    terms.append("Count (%d)%%Z (%d)%%Z (%d)%%Z" % got)
                    info.append((name, rp))
                continue
            if c[0] == "summary-count":
                # the "count" section of obisummary is the same fold as obicount
                exp = (len(inp), sum(r[3].get("count", 1) for r in inp), sum(len(r[1]) for r in inp))
                try:
                    cs = json.loads(out)["count"]
                    got = (cs["variants"], cs["reads"], cs["total_length"])
                except (ValueError, KeyError, TypeError):
                    got = None
                if got != exp:
                    ctx.violation(name, dict(rp, expected=exp, implementation=out.decode("utf8", "replace")[:600]))
                if got:
                    terms.append("Count (%d)%%Z (%d)%%Z (%d)%%Z" % got)
                    info.append((name, rp))
                continue
            if c[0] == "csv":
                keys = c[1]
                got = parse_csv_out(out, keys)
                exp = [[r[0], r[3].get("count", 1)] + [r[3].get(k, "NA") for k in keys] + [r[1]] for r in inp]
                if got != exp:
                    k = next((i for i, (x, y) in enumerate(zip(got or [], exp)) if x != y), min(len(got or []), len(exp)))
                    ctx.violation(name, dict(rp, first_differing_row=k, expected=exp[k:k + 1], implementation=(got or [])[k:k + 1],
                                             rows_expected=len(exp), rows_written=len(got) if got is not None else "unparsable output"))
                if got is not None:
                    terms.append("Csv [%s] [%s]" % ("; ".join(coq_bytes(k) for k in keys),
                                                    ";\n ".join("[" + "; ".join(coq_val(v) for v in row) + "]" for row in got)))
                    info.append((name, rp))
                continue
            got = parse_fasta_out(out) if how == "fasta" else parse_fastq_out(out)
            exp = [y for r in (inp_nq if how == "fasta" else inp) for y in py_cmd_f(c, r)]
            if got != exp:
                k = next((i for i, (x, y) in enumerate(zip(got or [], exp)) if x != y), min(len(got or []), len(exp)))
                ctx.violation(name, dict(rp, first_differing_record=k, expected=exp[k:k + 1], implementation=(got or [])[k:k + 1],
                                         records_expected=len(exp), records_written=len(got) if got is not None else "unparsable output"))
            if got is not None:
                terms.append("%s %s %s" % ("MapNQ" if how == "fasta" else "Map", coq_cmd(c), coq_recs(got)))
                info.append((name, rp))
    imports = ("From Coq Require Import NArith ZArith List Uint63.\nImport ListNotations.\nFrom OBI.C05 Require Import Records Codec.\n"
               "Local Open Scope uint63_scope.\nDefinition inp : list rec :=\n%s.\n" % coq_recs(inp))
    bad, err = correspond_retry(ctx, "records", imports, terms, "cmd_mismatches inp")
    if bad is None:
        broken.append(dict(kind="correspondence", detail=err))
    else:
        for i in bad:
            name, rp = info[i]
            if not os.path.exists(ctx.replay_path(name)):
                broken.append(dict(kind="correspondence", name="corr:C05/records/%s" % name, first_diverging_case=rp))
    ctx.cov["record_function_cases"] = len(terms)
    ctx.cov["record_function_records"] = n
    return runs


# ---------------------------------------------------------------------------------------------
# obisummary: the WHOLE printed summary against (a) a direct Python oracle and (b) the Coq model of
# DataSummary.Update / Add (C05/Summary.v: the one-pass summary of the input records, evaluated by vm_compute)
def py_summary(recs):
    """what obisummary must print for these records (id, seq, qual, annotations)"""
    cnt = lambda a: a.get("count", 1) if isinstance(a.get("count", 1), int) and not isinstance(a.get("count", 1), bool) else 1
    keys = {"scalar": {}, "map": {}, "vector": {}}
    samples, svar, ssing, sbad = {}, {}, {}, {}
    inc = lambda m, k, v=1: m.__setitem__(k, m.get(k, 0) + v)
    nstatus = 0
    for (_, sq, _, a) in recs:
        if "merged_sample" in a:
            st = a.get("obiclean_status")
            st = st if isinstance(st, dict) and all(isinstance(x, str) for x in st.values()) else None
            for k, v in a["merged_sample"].items():
                inc(samples, k, v)
                inc(svar, k)
                if v == 1:
                    inc(ssing, k)
                if v > 1 and st is not None and st.get(k) == "i":
                    inc(sbad, k)
        elif "sample" in a:
            inc(samples, a["sample"], cnt(a))
            inc(svar, a["sample"])
            if cnt(a) == 1:
                inc(ssing, a["sample"])
        nstatus += "obiclean_status" in a
        for k, v in a.items():
            inc(keys["map" if isinstance(v, dict) else "vector" if isinstance(v, list) else "scalar"], k)
    out = {"count": {"variants": len(recs), "reads": sum(cnt(r[3]) for r in recs), "total_length": sum(len(r[1]) for r in recs)}}
    if any(keys.values()):
        out["annotations"] = {"scalar_attributes": len(keys["scalar"]), "map_attributes": len(keys["map"]), "vector_attributes": len(keys["vector"]),
                              "keys": {k: v for k, v in keys.items() if v}}
        if samples:
            stats = {k: dict(reads=v, variants=svar.get(k, 0), singletons=ssing.get(k, 0)) for k, v in samples.items()}
            if nstatus == len(recs):
                for k in stats:
                    stats[k]["obiclean_bad"] = sbad.get(k, 0)
            out["samples"] = {"sample_count": len(samples), "sample_stats": stats}
    return out


class CoqNames:
    """byte strings defined once per generated file and referred to by name"""
    def __init__(self):
        self.names, self.defs = {}, []

    def __call__(self, text):
        if text not in self.names:
            self.names[text] = "k%d" % len(self.names)
            self.defs.append("Definition %s := %s." % (self.names[text], coq_bytes(text)))
        return self.names[text]


def coq_srec(r, nm):
    _, sq, _, a = r
    c = a.get("count", 1)
    c = c if isinstance(c, int) and not isinstance(c, bool) else 1
    ms, st = a.get("merged_sample"), a.get("obiclean_status")
    merged = "None" if ms is None else "(Some [%s])" % "; ".join("(%s, (%d)%%Z)" % (nm(k), v) for k, v in ms.items())
    status = "(Some [%s])" % "; ".join("(%s, %s)" % (nm(k), nm(v)) for k, v in st.items()) if isinstance(st, dict) and all(isinstance(x, str) for x in st.values()) else "None"
    sample = "(Some %s)" % nm(a["sample"]) if isinstance(a.get("sample"), str) else "None"
    tags = "; ".join("(%s, %s)" % (nm(k), "TMap" if isinstance(v, dict) else "TVector" if isinstance(v, list) else "TScalar") for k, v in sorted(a.items()))
    return "mksrec (%d)%%Z (%d)%%Z %s %s %s %s %s [%s]" % (c, len(sq), merged, status, sample, "true" if "obiclean_status" in a else "false",
                                                           "true" if "obiclean_weight" in a else "false", tags)


def coq_scase(js, nm):
    """the printed summary as counter entries (kinds of C05/Summary.v)"""
    E = [("K 0 []", js["count"]["reads"]), ("K 1 []", js["count"]["variants"]), ("K 2 []", js["count"]["total_length"])]
    for kind, sec in ((6, "scalar"), (7, "map"), (8, "vector")):
        for k, v in sorted(js.get("annotations", {}).get("keys", {}).get(sec, {}).items()):
            E.append(("K %d %s" % (kind, nm(k)), v))
    bad = False
    for k, stt in sorted(js.get("samples", {}).get("sample_stats", {}).items()):
        for kind, f in ((9, "reads"), (10, "variants"), (11, "singletons"), (12, "obiclean_bad")):
            if f in stt:
                E.append(("K %d %s" % (kind, nm(k)), stt[f]))
                bad = bad or kind == 12
    return "SCase %s [%s]" % ("true" if bad else "false", "; ".join("(%s, (%d)%%Z)" % e for e in E))


def read_own_fasta(path, n):
    """the first n records of a FASTA file written by gen_data (one title line with a JSON map, one sequence line)"""
    recs = []
    with open(path) as f:
        for title, sq in itertools.islice(zip(f, f), n):
            ident, _, rest = title[1:].rstrip("\n").partition(" ")
            recs.append((ident, sq.strip(), None, json.loads(rest) if rest else {}))
    return recs


def summary_correspondence(ctx, broken, bindir, d, prep):
    nrich = 600 if ctx.quick else 4000
    rich = read_own_fasta(os.path.join(d, "summary.fasta"), nrich)
    # one record without obiclean_status in a copy of the rich set: then the obiclean_bad statistics must NOT be printed
    rich_path, nost_path = os.path.join(d, "sumcorr.fasta"), os.path.join(d, "sumcorr_nostatus.fasta")
    nost = [(i, sq, q, {k: v for k, v in a.items() if k != "obiclean_status" or j != nrich // 2}) for j, (i, sq, q, a) in enumerate(rich)]
    for path, recs in ((rich_path, rich), (nost_path, nost)):
        with open(path, "w") as f:
            for (i, sq, _, a) in recs:
                f.write(">%s %s\n%s\n" % (i, json.dumps(a, separators=(",", ":")), sq))
    configs = [(0, 2000, 1), (8, 7, 16), (3, 1, 4)] if ctx.quick else [(0, 2000, 1), (8, 7, 16), (3, 1, 4), (32, 100, 16), (2, 50, 2)]
    runs, nterms = 0, 0
    for label, path, recs in (("rich", rich_path, rich), ("nostatus", nost_path, nost), ("mixed", prep["path"], prep["inp"])):
        exp = py_summary(recs)
        nm, terms, infos, seen = CoqNames(), [], [], set()
        for (mc, bs, g) in configs:
            code, out, errb = run_cmd(bindir, ["obisummary", "--json-output", path], mc, bs, g)
            runs += 1
            name = "c05_summary_%s" % label
            rp = dict(property="C05", kind="obisummary-whole-output", input=label, records=len(recs), argv=["obisummary", "--json-output"], max_cpu=mc, batch_size=bs,
                      gomaxprocs=g, seed=ctx.seed, how_to_replay="the input is regenerated from the seed by tools/props/c05.py (gen_data / gen_corr, summary_correspondence)")
            if code != 0:
                ctx.violation(name + "_exit", dict(rp, exit=code, stderr=errb.decode("utf8", "replace")[-1500:]))
                continue
            if out in seen:
                continue
            seen.add(out)
            try:
                js = json.loads(out)
            except ValueError:
                js = None
            if js != exp:
                diff = None
                if isinstance(js, dict):
                    flat = lambda x, pre="": {pre: x} if not isinstance(x, dict) else {k2: v2 for k, v in x.items() for k2, v2 in flat(v, pre + "/" + k).items()}
                    a, b = flat(js), flat(exp)
                    diff = {k: dict(implementation=a.get(k), expected=b.get(k)) for k in sorted(set(a) | set(b)) if a.get(k) != b.get(k)}
                    diff = dict(list(diff.items())[:8])
                ctx.violation(name, dict(rp, differences=diff if diff is not None else "unparsable output", implementation=out.decode("utf8", "replace")[:300] if js is None else None))
            if isinstance(js, dict) and isinstance(js.get("count"), dict):
                try:
                    terms.append(coq_scase(js, nm))
                    infos.append((name, rp))
                except (KeyError, TypeError, AttributeError):
                    pass
        if not terms:
            continue
        recterms = [coq_srec(r, nm) for r in recs]
        imports = ("From Coq Require Import NArith ZArith List Uint63.\nImport ListNotations.\nFrom OBI.C05 Require Import Records Summary Codec.\n"
                   "Local Open Scope uint63_scope.\n" + "\n".join(nm.defs) + "\nDefinition inp : list srec :=\n[" + ";\n ".join(recterms) + "].\n")
        bad, err = correspond_retry(ctx, "summary_" + label, imports, terms, "summary_mismatches inp")
        nterms += len(terms)
        if bad is None:
            broken.append(dict(kind="correspondence", detail=err))
        else:
            for i in bad:
                name, rp = infos[i]
                if not os.path.exists(ctx.replay_path(name)):
                    broken.append(dict(kind="correspondence", name="corr:C05/summary/%s" % name, first_diverging_case=rp))
    ctx.cov["summary_cases_through_model"] = nterms
    ctx.cov["summary_records"] = dict(rich=len(rich), nostatus=len(nost), mixed=len(prep["inp"]))
    return runs


# ---------------------------------------------------------------------------------------------
# in-process schedule exploration (harness vh c05): the real library pipeline, many configurations per second
REF_CONFIG = dict(batch=10 ** 6, readers=1, workers=1, writers=1, gomaxprocs=1, seed=0, repeat=1, stage2=0, **{"yield": 0})


def rand_configs(rng, n, nrec, repeat):
    out = [dict(REF_CONFIG)]
    for _ in range(n):
        out.append({"batch": rng.choice([1, 1, 2, 3, 7, 50, max(1, nrec // 2), nrec]), "readers": rng.choice([1, 2, 4]),
                    "workers": rng.choice([1, 2, 3, 4, 8, 16, 32]), "writers": rng.choice([1, 1, 2, 4]), "gomaxprocs": rng.choice([1, 2, 4, 16]),
                    "yield": rng.choice([0, 100, 400, 900]), "seed": rng.randrange(1 << 40), "repeat": repeat, "stage2": rng.choice([0, 0, 3])})
    return out


def fastq_head(path, nrec):
    with open(path) as f:
        return "".join(itertools.islice(f, 4 * nrec))


def prep_inproc(ctx, d, prep):
    rng = ctx.rng
    ncfg, repeat = (40, 2) if ctx.quick else (600, 3)
    nin = min(len(prep["inp"]), 800)          # the in-process runs are many: a head of the correspondence input is enough
    inp = prep["inp"][:nin]
    text = fastq_head(prep["path"], nin)
    cases = []
    for (exe, c, opts) in prep["lines"]:
        if c[0] in ("csv", "summary-count"):
            continue
        if c[0] == "grep" and len([x for x in cases if x[0]["cmd"] == "grep"]) >= (2 if ctx.quick else 5):
            continue
        case = dict(cmd={"convert": "convert", "complement": "complement", "annotlen": "annotlen", "grep": "grep", "count": "count"}[c[0]],
                    input=text, inv=False, lmin=1, lmax=UNSET, cmin=1, cmax=UNSET, keep=2, configs=rand_configs(rng, ncfg, len(inp), repeat))
        if c[0] == "grep":
            case.update(inv=c[1], lmin=c[2], lmax=c[3], cmin=c[4], cmax=c[5])
        cases.append((case, c))
    # round 3: the library stages no command line of the grid reaches in that form (DivideOn behind a worker pool, Concat / Pool of
    # several readers, FilterEmpty, MakeIConditionalWorker, WorkerPipe, full-file batches = Load, Load + IBatchOver)
    greps = [c for (_, c, _) in prep["lines"] if c[0] == "grep"]
    ncfg2 = 16 if ctx.quick else 100
    for kind in ("divide", "filterempty", "condworker", "concat", "pool", "fullfile", "batchover", "workerpipe"):
        gp = rng.choice(greps)
        n = len(inp)
        cuts = sorted(rng.choice([0, 0, 1, n // 3, n // 2, n - 1, n, rng.randrange(n + 1)]) for _ in range(rng.choice([1, 2, 2, 3])))
        case = dict(cmd=kind, input=text, inv=False, lmin=1, lmax=UNSET, cmin=1, cmax=UNSET, keep=2, configs=rand_configs(rng, ncfg2, len(inp), repeat))
        if kind in ("divide", "filterempty", "condworker"):
            case.update(inv=gp[1], lmin=gp[2], lmax=gp[3], cmin=gp[4], cmax=gp[5])
            c = {"divide": ("divide",) + gp[1:], "filterempty": gp, "condworker": ("cond",) + gp[1:]}[kind]
        elif kind in ("concat", "pool"):
            case["cuts"] = cuts
            c = ("convert",)
        else:
            c = ("annotlen",) if kind == "workerpipe" else ("convert",)
        cases.append((case, c))
    # the barcode extraction of obimultiplex on reads whose tags carry errors (Hamming / Levenshtein / rescue code paths), one library
    # object shared by up to 32 workers: determinism only (C12 owns the assignment itself)
    nmux = 1500 if ctx.quick else 6000
    for mode in (("indel", "rescue") if ctx.quick else [m_ for m_, _ in MUX_MODES]):
        cases.append((dict(cmd="multiplex", input=fastq_head(os.path.join(d, "muxerr.fastq"), nmux), ngs=open(os.path.join(d, "mux_%s.csv" % mode)).read(),
                           keep=2, configs=rand_configs(rng, ncfg2 + 8, nmux, repeat)), ("multiplex", mode)))
    npairs = 250 if ctx.quick else 2500
    cases.append((dict(cmd="pairing", input=fastq_head(os.path.join(d, "F.fastq"), npairs), mates=fastq_head(os.path.join(d, "R.fastq"), npairs),
                       lmin=10, keep=2, configs=rand_configs(rng, ncfg, npairs, repeat)), ("pairing",)))
    return dict(cases=cases, inp=inp)


def inproc_judge(ctx, case, c, o, inp):
    """verdict on one observation of vh c05"""
    import base64
    name = "c05_inproc_%s" % "_".join([case["cmd"]] + [str(x) for x in c[1:2] if case["cmd"] == "multiplex"])
    rp = dict(property="C05", kind="in-process-pipeline", seed=ctx.seed, case=case,
              how_to_replay="python3 tools/check.py C05 --replay <this file> (runs the case through vh c05 again)")
    if o.get("kind") != "ok":
        ctx.violation(name + "_" + str(o.get("kind")), dict(rp, implementation={k: v for k, v in o.items() if k != "outs"}))
        return
    outs = o["outs"]
    if any(x["poison"] for x in outs):
        ctx.violation(name + "_poison", dict(rp, note="poison byte 0xDB of a recycled buffer reached the output",
                                             config=[x["first_config"] for x in outs if x["poison"]][0]))
        return
    if len(outs) != 1:
        a = base64.b64decode(outs[0].get("bytes", "")).split(b"\n")
        b = base64.b64decode(outs[1].get("bytes", "")).split(b"\n")
        k = next((i for i, (x, y) in enumerate(zip(a, b)) if x != y), min(len(a), len(b)))
        ctx.violation(name + "_diff", dict(rp, kind="output-depends-on-configuration", distinct_outputs=len(outs),
                                           runs_per_output=[x["runs"] for x in outs], config_a=outs[0]["first_config"], config_b=outs[1]["first_config"],
                                           first_diff_line=k, line_a=a[k].decode("utf8", "replace")[:400] if k < len(a) else None,
                                           line_b=b[k].decode("utf8", "replace")[:400] if k < len(b) else None))
        return
    data = base64.b64decode(outs[0].get("bytes", ""))   # omitempty: an empty output has no field
    if c[0] in ("pairing", "multiplex"):
        return
    if c[0] == "divide":
        # two streams: the selected records, then the discarded ones
        yes, sep, no = data.partition(b"\x00DISCARDED\x00\n")
        terms = []
        for side, part, cc in (("selected", yes, ("grep",) + c[1:]), ("discarded", no, ("grep", not c[1]) + c[2:])):
            got = parse_fastq_out(part)
            exp = [y for r in inp for y in py_cmd_f(cc, r)]
            if got != exp or not sep:
                k = next((i for i, (x, y) in enumerate(zip(got or [], exp)) if x != y), min(len(got or []), len(exp)))
                ctx.violation(name + "_records", dict(rp, stream=side, first_differing_record=k, expected=exp[k:k + 1], implementation=(got or [])[k:k + 1],
                                                      records_expected=len(exp), records_written=len(got) if got is not None else "unparsable output"))
                return
            terms.append("Map %s %s" % (coq_cmd(cc), coq_recs(got)))
        return terms
    if c[0] == "count":
        exp = "entites,n\nvariants,%d\nreads,%d\nsymbols,%d\n" % (len(inp), sum(r[3].get("count", 1) for r in inp), sum(len(r[1]) for r in inp))
        if data.decode() != exp:
            ctx.violation(name + "_records", dict(rp, expected=exp, implementation=data.decode("utf8", "replace")[:300]))
        return
    got = parse_fastq_out(data)
    exp = [y for r in inp for y in py_cmd_f(c, r)]
    if got != exp:
        k = next((i for i, (x, y) in enumerate(zip(got or [], exp)) if x != y), min(len(got or []), len(exp)))
        ctx.violation(name + "_records", dict(rp, first_differing_record=k, expected=exp[k:k + 1], implementation=(got or [])[k:k + 1],
                                              records_expected=len(exp), records_written=len(got) if got is not None else "unparsable output"))
    elif case["cmd"] in STAGE_KINDS:
        return ["Map %s %s" % (coq_cmd(c), coq_recs(got))]


STAGE_KINDS = ("divide", "filterempty", "condworker", "concat", "pool", "fullfile", "batchover", "workerpipe")


def inprocess_exploration(ctx, broken, d, prep2):
    from concurrent.futures import ThreadPoolExecutor
    cases, inp = prep2["cases"], prep2["inp"]

    def one(cc):
        case, c = cc
        return ctx.vh_robust("c05", [case], timeout=600 if ctx.quick else 6000)[0]
    with ThreadPoolExecutor(max_workers=3) as ex:
        obs = list(ex.map(one, cases))
    runs, yields, terms, tinfo = 0, 0, [], []
    for (case, c), o in zip(cases, obs):
        if o.get("kind") == "crash":
            ctx.violation("c05_inproc_%s_crash" % case["cmd"], dict(property="C05", kind="in-process-pipeline-crashed", seed=ctx.seed, case=case, implementation=o))
            continue
        runs += o.get("runs", 0)
        yields += o.get("yields", 0)
        for t in inproc_judge(ctx, case, c, o, inp) or []:
            terms.append(t)
            tinfo.append(case)
    # the outputs of the library stages through the Coq model of the per-record functions (same input records as the command lines)
    if terms:
        imports = ("From Coq Require Import NArith ZArith List Uint63.\nImport ListNotations.\nFrom OBI.C05 Require Import Records Codec.\n"
                   "Local Open Scope uint63_scope.\nDefinition inp : list rec :=\n%s.\n" % coq_recs(inp))
        bad, err = correspond_retry(ctx, "stages", imports, terms, "cmd_mismatches inp")
        if bad is None:
            broken.append(dict(kind="correspondence", detail=err))
        else:
            for i in bad:
                case = tinfo[i]
                broken.append(dict(kind="correspondence", name="corr:C05/stage/%s" % case["cmd"],
                                   first_diverging_case=dict(property="C05", kind="in-process-pipeline", seed=ctx.seed, case=case)))
    ctx.cov["inprocess_stage_outputs_through_model"] = len(terms)
    ctx.cov["inprocess_pipeline_runs"] = runs
    ctx.cov["inprocess_yields_injected"] = yields
    ctx.cov["inprocess_cases"] = [dict(cmd=case["cmd"], configs=len(case["configs"])) for case, _ in cases]
    return runs


# ---------------------------------------------------------------------------------------------
# race-detector reports: which ones decide C05
RACE_RECORD_CODE = re.compile(r"/pkg/(obiseq|obialign|obiapat|obikmer|obingslibrary)/[^/]+\.go$")
RACE_BENIGN = [
    ("pipe-counter", re.compile(r"obiiter\.(RegisterAPipe|UnregisterPipe|WaitForLastPipe)\b")),          # globalLockerCounter
    ("lazy-score-tables", re.compile(r"obialign\._Init(DNAScoreMatrix|NucPartMatch|NucScorePartMatch)\b")),  # flag published after the tables
]


def race_accesses(report):
    """the two conflicting access stacks of a Go race report: [[(function, file, line), ...], [...]]"""
    stacks, cur = [], None
    lines = report.split("\n")
    for i, l in enumerate(lines):
        if re.match(r"\s*(Read|Write|Previous read|Previous write|Atomic read|Atomic write|Previous atomic \w+) at ", l):
            cur = []
            stacks.append(cur)
            continue
        if re.match(r"\s*Goroutine \d+ .*created at:", l) or not l.strip():
            cur = None
            continue
        m = re.match(r"\s+(/\S+\.go):(\d+)", l)
        if m and cur is not None and i > 0:
            cur.append((lines[i - 1].strip(), m.group(1), int(m.group(2))))
    return stacks[:2]


def race_classify(report):
    """-> (class, description). 'decisive' = both accesses have their first frame inside the obitools tree in the code that
    holds record bytes (sequence / quality / annotation buffers, alignment arenas, k-mer indexes) and no frame of a recorded
    benign pattern; everything else is informative."""
    st = race_accesses(report)
    if len(st) < 2:
        return "unparsed", []
    desc, in_record_code = [], []
    for frames in st:
        mine = [f for f in frames if "/pkg/" in f[1] and "/go/pkg/mod/" not in f[1] and "/usr/" not in f[1]]
        top = mine[0] if mine else (frames[0] if frames else ("?", "?", 0))
        desc.append("%s %s:%d" % (top[0].split("/")[-1], top[1].split("/pkg/")[-1], top[2]))
        in_record_code.append(bool(mine) and bool(RACE_RECORD_CODE.search(top[1])))
    for name, pat in RACE_BENIGN:
        if any(pat.search(f[0]) for frames in st for f in frames):
            return "benign:" + name, desc
    if all(in_record_code):
        return "decisive", desc
    return "informative", desc


# ---------------------------------------------------------------------------------------------
# first use of the JSON machinery by several goroutines at once (harness vh c05json): one trial = one process
JSON_TRIALS = {
    "obi": "merged_sample={'a': 3, 'b': 4}; obiclean_status={'a': 's', 'b': 'h'}; extra={'x': 1, 'y': 'z'}; count=7; some text",
    "json": '{"count":3,"merged_sample":{"a":3,"b":2},"st":{"a":"s"},"l":[1,2,"x"],"f":1.5,"b":true} def',
    "format": "merged_sample={'a': 3, 'b': 4}; obiclean_status={'a': 's', 'b': 'h'}; extra={'x': 1, 'y': 'z'}; count=7; some text",
}


def json_trial(vh_bin, case):
    try:
        p = subprocess.run([vh_bin, "c05json"], input=(json.dumps(case) + "\n").encode(), capture_output=True, timeout=60)
    except subprocess.TimeoutExpired:
        return "hang", {}
    if p.returncode != 0:
        return "crash", dict(stderr=p.stderr.decode("utf8", "replace")[-1500:])
    o = json.loads(p.stdout)
    return ("panic" if o["panics"] else ("diff" if o["distinct_results"] != 1 else "ok")), o


def json_first_use(ctx, n, kinds=("obi", "json", "format"), goroutines=16):
    """n fresh processes per kind; in each, 16 goroutines make their first call of the real header parser / formatter together"""
    from concurrent.futures import ThreadPoolExecutor
    total = 0
    for kind in kinds:
        case = dict(kind=kind, header=JSON_TRIALS[kind], goroutines=goroutines)
        with ThreadPoolExecutor(max_workers=4) as ex:
            res = list(ex.map(lambda i: json_trial(ctx.vh_bin, case), range(n)))
        total += n
        bad = [(i, r) for i, r in enumerate(res) if r[0] != "ok"]
        if bad:
            ctx.violation("c05_json_first_use_%s" % kind, dict(property="C05", kind="json-first-use", case=case, trials=n, failures=len(bad),
                          first_failing_trial=bad[0][0], outcome=bad[0][1][0], implementation=bad[0][1][1],
                          note="several goroutines made their FIRST call of the title-line parser / formatter at the same time in a fresh process and one of them "
                               "panicked (or results differ): the third-party JSON library compiles a decoder/encoder per type at first use in an unsynchronised table; "
                               "in a command such a panic kills the run, i.e. the outcome depends on the schedule",
                          how_to_replay="python3 tools/check.py C05 --replay <this file> repeats the trials (each one a fresh process) until one fails"))
    return total


GLUE_KEEP = ("obimultiplex-whole",)


def sort_fastq(data):
    L = data.split(b"\n")
    if L and L[-1] == b"":
        L.pop()
    return b"".join(sorted(b"\n".join(L[k:k + 4]) + b"\n" for k in range(0, len(L), 4)))


def collect_parts(so, prefix, spec):
    """the output of one run as named parts (stdout + the files the command wrote, read and removed), in canonical form"""
    import gzip
    parts, missing = {"stdout": so}, []
    for suf in spec.get("out", []):
        path = prefix + suf
        if not os.path.exists(path):
            missing.append(suf)
            continue
        with open(path, "rb") as f:
            parts[suf] = f.read()
        os.remove(path)
    if spec.get("post") == "gunzip":
        try:
            parts = {k: (gzip.decompress(v) if v else v) for k, v in parts.items()}
        except (OSError, EOFError, ValueError):
            parts = {k: b"NOT-GZIP:" + v for k, v in parts.items()}
    if spec.get("post") == "sortfq":
        parts = {k: sort_fastq(v) for k, v in parts.items()}
    return parts, missing


def glue_judge(ctx, lines, kept, d):
    """verdicts that span command lines: the members of a group wrote the same bytes; direct oracles of the paired / divided outputs"""
    groups = {}
    for la in lines:
        name, argv = la[0], la[1]
        spec = dict(la[2]) if len(la) > 2 else {}
        same = spec.get("same") or GLUE_BASE.get(name) or {}
        if name not in kept:
            continue            # that line already has a violation of its own
        for part, g in same.items():
            data = sort_fastq(kept[name]["stdout"]) if part == "stdout|sorted" else kept[name].get(part)
            groups.setdefault(g, []).append((name, argv, part, data))
    checked = 0
    for g, members in sorted(groups.items()):
        n0, argv0, part0, ref = members[0]
        for (name, argv, part, data) in members[1:]:
            checked += 1
            if data != ref:
                a, b = (ref or b"").split(b"\n"), (data or b"").split(b"\n")
                k = next((i for i, (x, y) in enumerate(zip(a, b)) if x != y), min(len(a), len(b)))
                ctx.violation("c05_%s_glue" % name, dict(property="C05", kind="same-records-presented-differently-give-different-output", group=g, seed=ctx.seed,
                              argv_a=argv0, part_a=part0, argv_b=argv, part_b=part, first_diff_line=k, lines_a=len(a), lines_b=len(b),
                              line_a=a[k].decode("utf8", "replace")[:400] if k < len(a) else None,
                              line_b=b[k].decode("utf8", "replace")[:400] if k < len(b) else None,
                              note="the two command lines read the same records (one file / several files / stdin / gzip / paired) or write them elsewhere "
                                   "(-o, -Z, --save-discarded, environment instead of options): the bytes must be the same",
                              how_to_replay="data set regenerated from the seed by tools/props/c05.py gen_data; run both command lines with --max-cpu 1 --batch-size 2000"))
    ctx.cov["glue_equalities_checked"] = checked
    # the witness of the format-guesser defect: all its records, alone and as the middle one of three files
    fq_ids = lambda data: [l.split()[0][1:] for l in data.decode("utf8", "replace").split("\n")[0::4] if l]
    for name, lo, hi in (("obiconvert-witness-quoted", None, None), ("obiconvert-witness-quoted-3", "part0.fastq", "part2.fastq")):
        if name in kept:
            exp = list(WITNESS_QUOTED_IDS)
            if lo:
                exp = fq_ids(open(os.path.join(d, lo), "rb").read()) + exp + fq_ids(open(os.path.join(d, hi), "rb").read())
            got = fq_ids(kept[name]["stdout"])
            if got != exp:
                k = next((i for i, (x, y) in enumerate(zip(got, exp)) if x != y), min(len(got), len(exp)))
                ctx.violation("c05_%s_records" % name, dict(property="C05", kind="records-of-a-valid-fastq-file-lost", seed=ctx.seed, records_expected=len(exp), records_written=len(got),
                              first_difference_at=k, expected=exp[k:k + 2], implementation=got[k:k + 2],
                              note="witness_quoted.fastq (tools/props/c05.py WITNESS_QUOTED_FASTQ) is a valid FASTQ file with double quotes in its quality lines"))
    if "obiconvert-one" in kept and kept["obiconvert-one"]["stdout"] != b'@only {"count":3}\nacgtacgtac\n+\nIIIIIIIIII\n':
        ctx.violation("c05_obiconvert-one_records", dict(property="C05", kind="single-record-file", seed=ctx.seed, expected='@only {"count":3} / acgtacgtac / + / IIIIIIIIII',
                                                          implementation=kept["obiconvert-one"]["stdout"].decode("utf8", "replace")[:300]))
    # obigrep on paired files, --paired-mode xor, -l 70: exactly the pairs with one mate of >= 70 nt, both files in step
    if "obigrep-paired" in kept:
        ids = lambda data: [l.split()[0][1:] for l in data.decode("utf8", "replace").split("\n")[0::4] if l]
        def lens(path):
            L = open(path).read().split("\n")
            return [(L[k].split()[0][1:], len(L[k + 1])) for k in range(0, len(L) - 3, 4)]
        lf, lr = lens(os.path.join(d, "F.fastq")), lens(os.path.join(d, "R.fastq"))
        exp = [a[0] for a, b in zip(lf, lr) if (a[1] >= 70) != (b[1] >= 70)]
        got1, got2 = ids(kept["obigrep-paired"]["_R1.fastq"]), ids(kept["obigrep-paired"]["_R2.fastq"])
        if got1 != exp or got2 != exp:
            k = next((i for i, (x, y) in enumerate(zip(got1, exp)) if x != y), min(len(got1), len(exp)))
            ctx.violation("c05_obigrep-paired_records", dict(property="C05", kind="paired-selection", seed=ctx.seed, expected_pairs=len(exp), written_R1=len(got1), written_R2=len(got2),
                          first_differing_pair=k, expected=exp[k:k + 2], implementation=got1[k:k + 2], mates_in_step=got1 == got2))
        ctx.cov["paired_grep_pairs_selected"] = len(exp)
    # obimultiplex -u: the identified records on stdout, the others in the file; together = what --keep-errors writes, in order
    if "obimultiplex-unid" in kept and "obimultiplex-whole" in kept:
        recs = lambda data: [b"\n".join(x) for x in zip(*[iter(data.split(b"\n"))] * 4)]
        allr = recs(kept["obimultiplex-whole"]["stdout"])
        good, bad = recs(kept["obimultiplex-unid"]["stdout"]), recs(kept["obimultiplex-unid"][".fastq"])
        iserr = lambda r: b'"obimultiplex_error"' in r
        if good != [r for r in allr if not iserr(r)] or bad != [r for r in allr if iserr(r)]:
            ctx.violation("c05_obimultiplex-unid_records", dict(property="C05", kind="divided-output", seed=ctx.seed, records_all=len(allr), identified_written=len(good),
                          unidentified_written=len(bad), expected_identified=len([r for r in allr if not iserr(r)]),
                          note="obimultiplex -u FILE must write the records without obimultiplex_error on stdout and the others to FILE, both in input order "
                               "(= the output of --keep-errors split on that attribute)"))
        ctx.cov["divided_records"] = dict(identified=len(good), unidentified=len(bad))


def run(ctx, broken):
    d = os.path.join(vlib.BUILD, "c05_data_%d" % os.getpid())
    shutil.rmtree(d, ignore_errors=True)
    os.makedirs(d)
    try:
        _run(ctx, broken, d)
    finally:
        shutil.rmtree(d, ignore_errors=True)


def progress(msg):
    try:
        with open(os.path.join(vlib.BUILD, "c05_progress.log"), "a") as f:
            import time
            f.write("%s %s\n" % (time.strftime("%H:%M:%S"), msg))
    except OSError:
        pass


def _run(ctx, broken, d):
    import time
    T = {}
    t0 = time.time()
    progress("start tier=%s seed=%s" % (ctx.tier, ctx.seed))
    bindir, err = ctx.build_cmds(CMDS)
    if bindir is None:
        broken.append(dict(kind="command-build", detail=err))
        return
    T['build_cmds'] = round(time.time() - t0, 1)
    # inputs larger than the 1 MiB read buffer: the reader then delivers several chunks (= several worker batches)
    nrec = 5000 if ctx.quick else 20000
    pf, pr = gen_data(ctx, d, nrec)
    # the input of obimultiplex: one reference run of obipairing
    rc0, out0, err0 = run_cmd(bindir, ["obipairing", "-F", os.path.join(d, "F.fastq"), "-R", os.path.join(d, "R.fastq"), "--min-overlap", "10"], 1, 2000, 1)
    open(os.path.join(d, "assembled.fastq"), "wb").write(out0)
    if ctx.quick:
        grid = [(1, 2000, 1), (1, 1, 4), (2, 7, 2), (8, 1, 16), (8, 7, 16), (16, 2000, 16), (3, nrec, 3), (32, 2, 8), (0, 2000, 4)]
        reps = 2
    else:
        grid = [(c, b, g) for c in (1, 2, 3, 8, 32) for b in (1, 2, 7, 100, nrec) for g in (1, 4, 16)] + [(0, 2000, 1), (0, 7, 16)]
        reps = 4
    T['gen_data'] = round(time.time() - t0, 1)
    lines = command_lines(d, pf, pr)
    runs, nontrivial, dist, traces = 0, set(), {}, []
    from concurrent.futures import ThreadPoolExecutor
    pool = ThreadPoolExecutor(max_workers=5)
    # in-process exploration and the record-level correspondence run beside the process grid
    prep = prep_records(ctx, d)
    prep2 = prep_inproc(ctx, d, prep)
    fut_rec = pool.submit(records_correspondence, ctx, broken, bindir, d, prep)

    # pool traces (both pools) of EVERY command line: one configuration in the quick tier, three in the thorough one
    traced_cfg = [grid[4]] if ctx.quick else [grid[1], grid[7], grid[40]]

    def grid_line(la):
        name, argv = la[0], la[1]
        spec = dict(la[2]) if len(la) > 2 else {}
        if name in GLUE_BASE:
            spec.setdefault("same", GLUE_BASE[name])
        prefix = os.path.join(d, "out_" + name)
        ref, n, nt, trs, parts_ref = None, 0, set(), [], None
        # the glue lines (their core is already walked over the whole grid by the base lines) run once per configuration, and in the
        # quick tier on 5 configurations
        light = ctx.quick and len(la) > 2
        for (c, b, g) in (grid[0:1] + grid[3:5] + grid[6:7] + grid[8:9] if light else grid):
            for rep in range(1 if len(la) > 2 else reps * (CHEAP_REPS if "-het" in name or "-auto-" in name else 1)):
                tr = None
                if rep == 0 and (c, b, g) in traced_cfg and (not ctx.quick or name in QUICK_TRACED):
                    tr = os.path.join(d, "trace_%s_%d_%d_%d.txt" % (name, c, b, g))
                code, so, errb = run_cmd(bindir, [x.replace("{O}", prefix) for x in argv], c, b, g, trace=tr, stdin=spec.get("stdin"), envpar=spec.get("envpar", False))
                n += 1
                rp = dict(property="C05", argv=argv, max_cpu=c, batch_size=b, gomaxprocs=g, seed=ctx.seed,
                          **({"stdin": spec["stdin"]} if spec.get("stdin") else {}), **({"parallelism_through": "OBIMAXCPU / OBIBATCHSIZE"} if spec.get("envpar") else {}))
                if code != 0:
                    ctx.violation("c05_%s_exit" % name, dict(rp, kind="command-failed", exit=code, stderr=errb.decode("utf8", "replace")[-1500:]))
                    return n, nt, trs, None
                parts, missing = collect_parts(so, prefix, spec)
                if missing:
                    ctx.violation("c05_%s_nofile" % name, dict(rp, kind="output-file-not-written", missing=missing))
                    return n, nt, trs, None
                out = b"".join(b"\x00PART " + k.encode() + b"\x00" + v for k, v in sorted(parts.items())) if len(parts) > 1 else parts["stdout"]
                key = (code, hashlib.sha256(out).hexdigest())
                if len(out) > 200:
                    nt.add((name, c, b, g))
                if tr and os.path.exists(tr):
                    trs.append((name, c, b, g, tr))
                if b"\xdb" in out:
                    ctx.violation("c05_%s_poison" % name, dict(rp, kind="recycled-buffer-in-output", note="poison byte 0xDB of a recycled buffer reached the output"))
                    return n, nt, trs, None
                if ref is None:
                    ref = (key, (c, b, g), out)
                    parts_ref = parts
                    if len(out) == 0 and not spec.get("empty_ok"):
                        ctx.violation("c05_%s_trivial" % name, dict(rp, kind="command-line-of-the-check-produces-nothing", output=out.decode("utf8", "replace"),
                                                                     stderr=errb.decode("utf8", "replace")[-800:]))
                        return n, nt, trs, None
                elif key != ref[0]:
                    # first differing line
                    la_, lb = ref[2].split(b"\n"), out.split(b"\n")
                    k = next((i for i, (x, y) in enumerate(zip(la_, lb)) if x != y), min(len(la_), len(lb)))
                    ctx.violation("c05_%s_diff" % name, dict(rp, kind="output-depends-on-configuration",
                                  config_a=dict(max_cpu=ref[1][0], batch_size=ref[1][1], gomaxprocs=ref[1][2]),
                                  config_b=dict(max_cpu=c, batch_size=b, gomaxprocs=g), first_diff_line=k,
                                  line_a=la_[k:k + 1][0].decode("utf8", "replace")[:400] if k < len(la_) else None,
                                  line_b=lb[k:k + 1][0].decode("utf8", "replace")[:400] if k < len(lb) else None,
                                  how_to_replay="data set regenerated from seed by tools/props/c05.py gen_data; run both configurations and compare"))
                    return n, nt, trs, None
        keep = parts_ref if (spec.get("same") or spec.get("judge") or name in GLUE_KEEP) else None
        return n, nt, trs, keep

    # the command lines run 4 at a time (each one walks its grid sequentially and stops at its first violation)
    fut_inproc = pool.submit(inprocess_exploration, ctx, broken, d, prep2)     # the longest single job: started first
    fut_sum = pool.submit(summary_correspondence, ctx, broken, bindir, d, prep)
    futs = [(la[0], pool.submit(grid_line, la)) for la in lines]
    fut_json = pool.submit(json_first_use, ctx, 120 if ctx.quick else 8000)
    glue_parts = {}
    for name, fu in futs:
        n, nt, trs, kept = fu.result()
        if kept is not None:
            glue_parts[name] = kept
        progress("grid line %s done (%d runs)" % (name, n))
        runs += n
        dist[name] = n
        nontrivial |= nt
        traces += trs
    glue_judge(ctx, lines, glue_parts, d)
    glue_parts.clear()
    runs += fut_rec.result()
    progress("records correspondence done")
    runs += fut_sum.result()
    progress("summary correspondence done")
    inproc_runs = fut_inproc.result()
    progress("in-process exploration done")
    ctx.cov["json_first_use_trials"] = fut_json.result()
    progress("json trials done")
    pool.shutdown()
    T['grid+records+inproc'] = round(time.time() - t0, 1)
    # trace validation through the Coq model: WHOLE traces of both pools, every command line
    nev, tinfo = 0, []
    for (name, c, b, g, tr) in traces:
        for (pool, ev) in trace_events(tr):
            tinfo.append((name, c, b, g, pool, ev))
            nev += len(ev)
    if tinfo:
        bad, err = validate_traces(ctx, broken, tinfo)
        if bad is None:
            broken.append(dict(kind="correspondence", detail=err))
        else:
            for i in bad[:3]:
                name, c, b, g, pool, ev = tinfo[i]
                where = py_pool_check(ev)
                k = where[0] if where else 0
                ctx.violation("c05_pooltrace_%s_%s" % (name, pool), dict(property="C05", kind="pool-trace-rejected-by-model", command=name, pool=pool,
                              max_cpu=c, batch_size=b, gomaxprocs=g, rejected_event_index=k, verdict=where[1] if where else "rejected by the Coq validator",
                              events_up_to_rejection=ev[max(0, k - 30):k + 1],
                              note="the ownership validator (C05.Model.pool_check, evaluated by vm_compute) rejects this real get/recycle trace "
                                   "(addresses renumbered by first appearance): a buffer was recycled twice, a live buffer was handed out, or a header "
                                   "sitting in the pool was modified by its former owner"))
    terms = tinfo
    progress("traces done (%d events)" % nev)
    T["traces"] = round(time.time() - t0, 1)
    ctx.cov["phase_end_s"] = T
    ctx.cov["traces_validated_against_impl"] = len(terms)
    ctx.cov["trace_events"] = nev
    # thorough: race-detector builds on a reduced grid; a report is DECISIVE (a violation) only when both
    # conflicting accesses are in code that holds the bytes of records (see race_classify)
    if not ctx.quick:
        race_dir, err = ctx.build_cmds(CMDS, race=True)
        if race_dir is None:
            broken.append(dict(kind="command-build-race", detail=err))
        else:
            counts = {}
            for la in lines:
                name, argv = la[0], la[1]
                spec = la[2] if len(la) > 2 else {}
                prefix = os.path.join(d, "race_out_" + name)
                for (c, b, g) in [(8, 7, 16), (4, 1, 4)]:
                    code, out, errb = run_cmd(race_dir, [x.replace("{O}", prefix) for x in argv], c, b, g, timeout=900,
                                              stdin=spec.get("stdin"), envpar=spec.get("envpar", False))
                    for suf in spec.get("out", []):
                        if os.path.exists(prefix + suf):
                            os.remove(prefix + suf)
                    runs += 1
                    for rep_ in re.split(r"={18}\n", errb.decode("utf8", "replace")):
                        if "DATA RACE" not in rep_:
                            continue
                        cls, why = race_classify(rep_)
                        counts[cls] = counts.get(cls, 0) + 1
                        if cls == "decisive":
                            ctx.violation("c05_race_%s" % name, dict(property="C05", kind="data-race-on-record-bytes", argv=argv, max_cpu=c, batch_size=b,
                                          gomaxprocs=g, seed=ctx.seed, accesses=why, report=rep_[:6000],
                                          note="race detector build: two goroutines access the same memory without synchronisation and BOTH accesses are in the "
                                               "code that holds record bytes (pkg/obiseq, obialign, obiapat, obikmer, obingslibrary); the unchanged tree has no such report "
                                               "(its reports are the pipe counter of obiiter, the lazily initialised score tables of obialign, the iterator variable of Rebatch)"))
                        elif len(ctx.cov.setdefault("race_report_samples", [])) < 4 and cls not in [x["class"] for x in ctx.cov["race_report_samples"]]:
                            ctx.cov["race_report_samples"].append({"class": cls, "command": name, "accesses": why})
            ctx.cov["race_reports_by_class"] = counts
            progress("race runs done %s" % counts)
    ctx.cov["evaluations"] = runs + inproc_runs
    ctx.cov["process_runs"] = runs
    ctx.cov["distinct_nontrivial"] = len(nontrivial)
    ctx.cov["rule"] = "one execution = (command line, max-cpu, batch-size, GOMAXPROCS, repetition) on a data set generated from the seed; non-trivial = output > 200 bytes; distinct = distinct (command line, configuration)"
    ctx.cov["distribution"] = dist
    ctx.cov["grid"] = [dict(max_cpu=c, batch_size=b, gomaxprocs=g) for (c, b, g) in grid]
    inp = prep["inp"]
    ctx.cov["input_classes"] = dict(
        correspondence_records=len(inp), iupac_or_gap=sum(1 for r in inp if set(r[1]) - set("acgt")), bracketed=sum(1 for r in inp if "[" in r[1]),
        length_1_or_2=sum(1 for r in inp if len(r[1]) <= 2), count_zero_or_negative=sum(1 for r in inp if isinstance(r[3].get("count"), int) and r[3]["count"] <= 0),
        already_has_seq_length=sum(1 for r in inp if "seq_length" in r[3]), same_content_as_previous=sum(1 for a, b in zip(inp, inp[1:]) if a[1:3] == b[1:3]),
        without_annotation=sum(1 for r in inp if not r[3]), presentations=["one file", "three files (random cuts, empty parts possible)", "stdin", "gzip", "FASTA (no qualities)"],
        grid_files=["single.fastq (JSON titles, definitions, concatemers)", "F/R.fastq (mates shorter than a 4-mer)", "long.fasta (no qualities, > pool size)",
                    "het_*.fasta", "summary.fasta (every counter distinct)", "muxerr.fastq (tags with substitutions / indels between delimiters)",
                    "assembled.fastq (records already annotated by obipairing)", "empty.fastq", "one.fastq (no final newline)", "witness_quoted.fastq"],
        not_generated=["duplicate identifiers", "CRLF line ends", "records longer than the 1 MiB read buffer", "non-integer count attributes"])
    ctx.samples = [dict(command=" ".join(os.path.basename(x) for x in argv), records=nrec) for _, argv in lines[:4]]


def replay(ctx, rp):
    if rp.get("kind") == "json-first-use":
        n = max(3 * rp.get("trials", 1000), 6000)
        fails = 0
        for i in range(n):
            k, o = json_trial(ctx.vh_bin, rp["case"])
            if k != "ok":
                fails += 1
                print("replay: trial %d: %s %s" % (i, k, json.dumps(o)[:1200]))
                ctx.violation("replayed", dict(rp, replayed=True, trial=i, outcome=k, implementation=o))
                break
        print("replay of the first-use trials (%s): %d failure in %d fresh processes" % (rp["case"]["kind"], fails, i + 1))
        return
    if rp.get("kind") in ("in-process-pipeline", "in-process-pipeline-crashed") or (rp.get("case") or {}).get("configs"):
        o = ctx.vh_robust("c05", [rp["case"]], timeout=600)[0]
        print("replay of the in-process case (%s, %d configurations): kind=%s runs=%s distinct outputs=%s" % (
            rp["case"]["cmd"], len(rp["case"]["configs"]), o.get("kind"), o.get("runs"), len(o.get("outs", []))))
        for x in o.get("outs", [])[:4]:
            print("  output %s: %d runs, first with %s%s" % (x["sha"], x["runs"], x["first_config"], " POISON" if x["poison"] else ""))
        if o.get("kind") != "ok" or len(o.get("outs", [])) != 1:
            ctx.violation("replayed", dict(rp, replayed=True))
        return
    print("replay: regenerate the data set with VERIF_SEED=%s and run the two configurations of %s" % (rp.get("seed"), rp.get("argv")))
    run(ctx, [])
