"""C01 — parsed records do not depend on chunk boundaries, transport or parser workers."""
import base64, json, os, time
from vlib import bytes_coq

PROPS = ["C01/Props.v"]
META = dict(
    text="Rocq theorems over an executable transcription of ReadSeqFileChunk, the three record splitters, the FASTA/FASTQ byte state machines and the GenBank/EMBL line parsers: for EVERY splitter answering inside its buffer, buffer size and file the chunks are numbered 0..n-1, are the CR/LF-stripped consecutive segments of the file, only CR/LF bytes fall outside and cuts happen only where the splitter answered (C01_chunker_partition); the splitters only answer at record starts (FASTA: '>' after CR/LF; FASTQ: an '@' line followed by a sequence-alphabet line, proved to be rejected by the parser anywhere but at a record boundary, so quality lines starting with '@'/'+' are never cut; flat: after LF // CR? LF); composition theorems C01_read_fasta / _fastq / _genbank / _embl (+ _any_order): for every text the chunk parser accepts as a whole, every buffer size and every arrival order of the parsed batches (Common/Reseq) the records delivered are the records of the file in order -- flat files may end with ANY CR/LF bytes after the last '//' (LF, CR LF, stray CR: flat_inv3). All four formats have an independent printer specification closed by a round-trip theorem and a whole-reader theorem (C01_{fasta,fastq,genbank,embl}_print_parse, C01_read_*_printed): FASTA/FASTQ with any folding, LF/CRLF, blank lines, definitions, any quality bytes incl. leading '@'/'+', nucleotides in upper/lower/mixed case delivered lower-cased; GenBank/EMBL with multi-line DEFINITION / DE (padded, joined by one blank), arbitrary non-keyword header and feature lines, SOURCE / OS present or absent, /db_xref=\"taxon:N\" present or absent (taxid 1), numbered ORIGIN blocks / EMBL sequence lines with padding and position, any case, LF or CR LF per record, empty lines after any '//'. io.ReadFull over any schedule of short reads equals one read of the whole data (C01_readfull_any_transport); record independence of the flat parsers at '//' (refuted for the unrepaired parsers). On every run the real ReadSeqFileChunk is driven with every buffer size 1..|file|+1 over generated well-formed files through several reader kinds, every chunk is parsed by the real chunk parser and compared with the generator's records (direct oracle); chunks, splitter answers and parsed records are compared with the model by vm_compute; flat files written by the Python twin of the printers are DECIDED inside Coq to be print_gb / print_embl of valid layouts (pcase_ok), so C01_printed_case_genbank / _embl apply to the very bytes the real parsers read; the public readers (1..8 workers; files larger than the 1 MiB buffer, a record ending exactly at / next to the buffer end, a one-line record longer than the buffer, blank-only files, flat files cut into many chunks through the hook VerifFlatFileChunkSize, full-file batch mode) and the obiconvert binary (file, stdin, gzip) are compared with the expected records. Round 3 (glue the commands go through): a transport that ends with a genuine I/O error instead of EOF is modelled (GlueModel.v: chunker_e) -- for every splitter, buffer size and data the reader then DIES (log.Fatal), never ends cleanly, and what it sent before is an initial part of a partition of the bytes received (C01_chunker_io_error_fatal, C01_chunker_dies_iff_transport_fails; C01_chunker_clean_transport ties the extended reader to the one of the other theorems); the peek-and-rebuild reader of OBIMimeTypeGuesser delivers exactly the data for every size of its buffer and keeps a transport error (C01_guess_reader_identity, C01_guess_io_error_kept). On every run: failing transports under ReadSeqFileChunk at every buffer size (chunks before death compared with chunker_e by vm_compute) and under the four public readers; OBIMimeTypeGuesser at every buffer size (hook VerifMimeGuessBufferSize) over the reader kinds; the entry points Read{Sequences,Fasta,Fastq,Genbank,EMBL}FromFile / FromStdin and the kseq reader on files written plain / gzip / bzip2 / xz / zstd, with a byte-order mark, empty, missing, larger than every buffer; obiconvert with --fasta/--fastq/--genbank/--embl, --max-cpu, --force-one-cpu, compressed files and compressed standard input, empty input, > 2 MiB input; flat-file parsers with their feature table (same records, the feature lines of each record, at every buffer size); quality offset 64; records of identical size (every read ends at a record end), blanks inside FASTA sequence lines, lone-CR line ends, CONTIG records, each error branch of the four chunk parsers.",
    note="Trusted: Coq kernel + vm_compute; io.ReadFull modelled by its documentation (this is what makes transports equal: short reads are hidden), bufio byte/line reading (bufio.Scanner's 64 KiB token limit is NOT modelled: EMBL lines are assumed shorter; valid_embl bounds them by 1000), strings/strconv helpers on ASCII (Atoi overflow not modelled: valid layouts have at most 18 digits); harness and generators. 'Well-formed' in the composition theorems means: accepted by the chunk parser as one chunk and ending inside/after the last record (flat files: after the last '//' line followed by any CR/LF bytes; a last '//' without line end is covered dynamically only); in the printer theorems: the image of the printers on valid layouts (GenBank lines <= 100 bytes as the parser demands, one taxon cross-reference per record, CONTIG records not printed). The public readers deliver NUMBERED batches: their arrival order is not the file order for any format (header-parsing worker pool after SortBatches); the check requires numbers 0..n-1 whose concatenation in number order is the file, and ONE ordered batch in full-file batch mode. The kseq C reader (stdin before the C17 repair), channels/goroutines and IParseFastSeqHeaderBatch are exercised, not modelled (Common/Reseq.v is the model of SortBatches). Feature tables (withFeatureTable) are not observed. Fixed in round 2: ReadGenbank/ReadEMBL never terminated in full-file batch mode and did not sort their batches. Round 3, not exercised because outside the property: pkg/obiiter/batchiterator.go beyond MakeIBioSequence/Add/Done/Push/Next/Get/WaitAndClose/SortBatches/CompleteFileIterator (Concat, Pool, Rebatch, FilterEmpty, FilterOn/And, DivideOn, Count, Consume, IBatchOver, the lock helpers: transformations and multi-file reading, properties C03/C05/C16; the nil-iterator panics); xopen.go Wopen/WopenFile/Close/Flush (writers: C04/C18), XReader over http(s) (offline), Ropen of '-' and '|command' (ExpandListOfFiles only hands real paths to the readers), ExpandUser, IsStdin, Exists (no caller), the truncated-stream guards (C17); ReadFastSeqFromStdin (kseq on the C-level stdin, no caller); ReadEcoPCR / ReadCSV branches of the type guesser (other formats). The kseq reader ReadFastSeqFromFile has no caller in any command: it is compared with the expected records modulo the blanks it keeps around the definition, on files without lone-CR line ends (it dies with SIGSEGV on those). On standard input --fasta/--fastq are ignored (the type is guessed) and the guesser recognises FASTQ through LF-ended lines: a FASTQ file whose lines end with a lone CR is read only from a file with --fastq (exercised that way). The writer refuses the empty sequence of a CONTIG record: such records are judged in process only. The harness needs the hook VerifMimeGuessBufferSize (verif3_c01.go).")
TRUSTED = ["io.ReadFull modelled by its documented meaning (n bytes or EOF / ErrUnexpectedEOF), bufio.Reader.ReadByte/ReadLine and bufio.Scanner as plain byte / line iteration (Scanner's 64 KiB token limit not modelled)",
           "strings.TrimSpace / SplitN / HasPrefix / strconv.Atoi of the flat-file parsers modelled on ASCII input (Atoi overflow not modelled)",
           "Go channels / goroutines between ReadSeqFileChunk, the parser workers and SortBatches: modelled as an arbitrary permutation of the numbered batches fed to Common/Reseq.v",
           "a failing transport is modelled as: the bytes delivered, then an error that io.ReadFull passes on unchanged (short read + the error) -- exercised with readers failing after k bytes, alone and behind short reads",
           "decompressors (klauspost gzip/zstd, dsnet bzip2, ulikunitz xz) and the UTF-8 byte-order-mark skipping of xopen.Buf are exercised against reference compressors (Python gzip/bz2/lzma, zstd CLI), not modelled",
           "the Python twin of print_gb / print_embl is NOT trusted: its output is compared byte for byte with the Coq printers on every run (print_mismatches)"]

FMT = dict(fasta=0, fastq=1, genbank=2, embl=3)
EOLS = (10, 13)


def b64(b):
    return base64.b64encode(bytes(b)).decode()


def unb64(s):
    return base64.b64decode(s) if s else b""


# ------------------------------------------------------------------ generators (well-formed files)
IDCH = "abcXYZ019_.:|/->@+#"
DEFCH = "abcXYZ019_.:|/->@+ #,()"
SEQCH = "acgtACGTnNryRY-.[]"
QUALCH = [chr(c) for c in range(33, 127)]


def rand_text(rng, alphabet, n):
    return "".join(rng.choice(alphabet) for _ in range(n))


def gen_layout(rng, cr=False):
    # "\r": lines ended by a lone CR (FASTA / FASTQ only; the flat-file parsers split lines at LF)
    return dict(eol=rng.choice(["\n", "\n", "\r\n", "mixed"] + (["\r", "mixed3"] if cr else [])), blank=rng.random() < 0.3, trail=rng.choice([0, 1, 1, 2]),
                inblank=rng.random() < 0.25)


def eol_of(rng, lay):
    e = lay["eol"]
    if e == "mixed":
        e = rng.choice(["\n", "\r\n"])
    if e == "mixed3":
        e = rng.choice(["\n", "\r\n", "\r"])
    if lay["blank"] and rng.random() < 0.25:
        e = e + rng.choice(["\n", "\r\n", "\n\n"])
    return e


def gen_header(rng):
    rid = rand_text(rng, IDCH, rng.choice([1, 1, 2, 3, 5, 8]))
    if rng.random() < 0.2:
        rid = rng.choice(">@+") + rid
    d = ""
    sep = ""
    k = rng.random()
    if k < 0.55:
        sep = rng.choice([" ", "\t", "  ", " \t", "\t\t", "   ", "\t "])
        d = rand_text(rng, DEFCH, rng.choice([1, 2, 4, 9, 15, 30])).strip(" ")
        if rng.random() < 0.3:      # several words separated by tabs / runs of blanks, tokens starting with '@' '>' '+'
            words = [rng.choice(["", "", "@", ">", "+"]) + rand_text(rng, IDCH, rng.choice([1, 2, 4])) for _ in range(rng.choice([2, 3, 5]))]
            d = "".join(w + rng.choice([" ", "  ", "\t", " \t "]) for w in words[:-1]) + words[-1]
        d = d.lstrip(" \t")
        if not d:
            d = "x"
        if rng.random() < 0.25:
            d = rng.choice(">@+") + d
        if rng.random() < 0.15:
            d = d + rng.choice([" ", "\t"]) + rng.choice(">@+") + rand_text(rng, IDCH, 2)      # "... @xx" at the end of the title line
    elif k < 0.65:
        sep = " "           # separator but empty definition
    return rid, sep, d


def gen_fasta(rng, nrec, lay):
    recs, out = [], []
    for _ in range(nrec):
        rid, sep, d = gen_header(rng)
        n = rng.choice([1, 2, 3, 7, 12, 20, 33])
        s = rand_text(rng, SEQCH, n)
        w = rng.choice([1, 2, 5, 10, 60])
        txt = ">" + rid + sep + d + eol_of(rng, lay)
        lines = [s[i:i + w] for i in range(0, n, w)]
        for li, l in enumerate(lines):
            if lay.get("inblank") and rng.random() < 0.5:       # blanks / tabs inside and at the end of a sequence line: dropped by the parser
                k = rng.randrange(1, len(l) + 1)
                l = l[:k] + rng.choice([" ", "\t", "  ", " \t"]) + l[k:]
            txt += l
            if li < len(lines) - 1:
                txt += eol_of(rng, lay)
        out.append(txt)
        recs.append(dict(id=rid, d=d, seq=s.lower(), qual=None, taxid=None, sci=""))
    body = ""
    for i, t in enumerate(out):
        body += t
        if i < len(out) - 1:
            body += eol_of(rng, lay)
    body += "".join(eol_of(rng, lay) for _ in range(lay["trail"]))
    return body.encode(), recs


def gen_fastq(rng, nrec, lay, shift=33):
    recs, out = [], []
    for _ in range(nrec):
        rid, sep, d = gen_header(rng)
        n = rng.choice([1, 2, 3, 7, 12, 20])
        s = rand_text(rng, SEQCH, n)
        q = rand_text(rng, QUALCH, n)
        k = rng.random()
        if k < 0.3:
            q = "@" + q[1:]
        elif k < 0.6:
            q = "+" + q[1:]
        elif k < 0.7:
            q = rand_text(rng, "ACGTacgtI", n)     # a quality line that looks like a sequence line
        plus = "+" + rng.choice(["", "", rid, rid + sep + d, "acgt", "@x"])
        txt = "@" + rid + sep + d + eol_of(rng, lay) + s + eol_of(rng, lay) + plus + eol_of(rng, lay) + q
        out.append(txt)
        recs.append(dict(id=rid, d=d, seq=s.lower(), qual=[(ord(c) - shift) % 256 for c in q], taxid=None, sci=""))
    body = ""
    for i, t in enumerate(out):
        body += t
        if i < len(out) - 1:
            body += eol_of(rng, lay)
    body += "".join(eol_of(rng, lay) for _ in range(lay["trail"]))
    return body.encode(), recs


ORGS = ["Homo sapiens", "Abies alba", "Escherichia coli K-12", "uncultured bacterium"]


def gb_origin(s):
    out = []
    for i in range(0, len(s), 60):
        groups = [s[j:j + 10] for j in range(i, min(len(s), i + 60), 10)]
        out.append("%9d %s" % (i + 1, " ".join(groups)))
    return out


def embl_seq(s):
    out = []
    for i in range(0, len(s), 60):
        groups = [s[j:j + 10] for j in range(i, min(len(s), i + 60), 10)]
        body = "     " + " ".join(groups)
        out.append(body.ljust(72) + ("%8d" % min(len(s), i + 60)))
    return out


def gen_flat(rng, fmt, nrec, lay):
    recs, lines_all = [], []
    for k in range(nrec):
        rid = rand_text(rng, "ABCXYZ0123456789_", rng.choice([2, 6, 8]))
        n = rng.choice([1, 9, 10, 11, 25, 60, 61, 75])
        s = rand_text(rng, rng.choice(["acgtn", "acgtn", "ACGTN", "acgtnACGTNryRY"]), n)      # lower, upper or mixed case: delivered lower-cased
        ndef = rng.choice([0, 1, 1, 2, 3])
        deflines = [rand_text(rng, "abc xyz,.()", rng.choice([3, 8, 20])).strip() or "d" for _ in range(ndef)]
        deflines = [d + rng.choice([" ta//", "//", " c//"]) if rng.random() < 0.4 else d for d in deflines]   # "//" at the end of a line that is not a terminator
        has_src = rng.random() < 0.7
        has_tax = rng.random() < 0.6
        org = rng.choice(ORGS)
        taxid = rng.choice([2, 9606, 45372, 562, 77133])
        L = []
        if fmt == "genbank":
            L.append("LOCUS       %s %d bp    DNA     linear   PLN 01-JAN-2000" % (rid.ljust(16), n))
            if ndef:
                L.append("DEFINITION  " + rng.choice(["", " "]) + deflines[0] + rng.choice(["", "", "  "]))
                for dl in deflines[1:]:
                    L.append("            " + rng.choice(["", "  "]) + dl + rng.choice(["", " "]))
            L.append("ACCESSION   " + rid)
            if rng.random() < 0.5:
                L += ["VERSION     %s.1" % rid, "KEYWORDS    ."]
            if has_src:
                L.append("SOURCE      " + org + rng.choice(["", " "]))
                L.append("  ORGANISM  " + org)
                if rng.random() < 0.5:
                    L.append("            Eukaryota; Metazoa; Chordata.")
            L.append("FEATURES             Location/Qualifiers")
            L.append("     source          1..%d" % n)
            L.append('                     /organism="%s"' % org)
            if has_tax:
                L.append('                     /db_xref="taxon:%d"' % taxid)
            if rng.random() < 0.5:
                L.append('                     /mol_type="genomic DNA"')
            L.append("ORIGIN" + rng.choice(["", "      "]))
            L += gb_origin(s)
            L.append("//")
            d = " ".join(x.strip() for x in deflines)
        else:
            L.append("ID   %s; SV 1; linear; genomic DNA; STD; PLN; %d BP." % (rid, n))
            L.append("XX")
            if rng.random() < 0.5:
                L += ["AC   %s;" % rid, "XX"]
            for dl in deflines:
                L.append("DE   " + dl + rng.choice(["", " "]))
            if has_src:
                L.append("OS   " + org)
                if rng.random() < 0.5:
                    L.append("OC   Eukaryota; Metazoa; Chordata.")
            L.append("FH   Key             Location/Qualifiers")
            L.append("FH")
            L.append("FT   source          1..%d" % n)
            if has_tax:
                L.append('FT                   /db_xref="taxon:%d"' % taxid)
            L.append("SQ   Sequence %d BP;" % n)
            L += embl_seq(s)
            L.append("//")
            d = " ".join(x.strip() for x in deflines)
        lines_all.append(L)
        recs.append(dict(id=rid, d=d, seq=s.lower(), qual=None, taxid=taxid if has_tax else 1, sci=org if has_src else ""))
    e = "\r\n" if lay["eol"] == "\r\n" else "\n"
    body = ""
    for i, L in enumerate(lines_all):
        body += e.join(L)
        if i < len(lines_all) - 1 or lay["trail"]:
            body += e
            if lay["blank"] and rng.random() < 0.3:
                body += rng.choice([e, "\n", "\r\n", e + e])        # empty lines between records
    if lay["trail"] == 2:
        # empty lines after the last "//": LF, CR LF, mixed, a stray CR
        body += rng.choice([e, e + e, "\r\n", "\r\n\r\n", "\n\r\n", "\r\n\n\n", "\r\r\n", "\n\n\n"])
    return body.encode(), recs


def gen_big_flat(rng, fmt, nsmall, nbig):
    """one record with a long sequence followed by nsmall small ones (LF, trailing newline)"""
    s = rand_text(rng, "acgt", nbig)
    if fmt == "genbank":
        L = ["LOCUS       BIG000001 %d bp    DNA     linear   PLN 01-JAN-2000" % nbig, "DEFINITION  big one", "FEATURES             Location/Qualifiers", "ORIGIN"] + gb_origin(s) + ["//"]
    else:
        L = ["ID   BIG000001; SV 1; linear; genomic DNA; STD; PLN; %d BP." % nbig, "DE   big one", "SQ   Sequence %d BP;" % nbig] + embl_seq(s) + ["//"]
    data1, recs1 = gen_flat(rng, fmt, nsmall, dict(eol="\n", blank=False, trail=1))
    return ("\n".join(L) + "\n").encode() + data1, [dict(id="BIG000001", d="big one", seq=s, qual=None, taxid=1, sci="")] + recs1


def gen_boundary(rng, fmt, target):
    """a file whose k-th record ends (with its newline) exactly at offset `target`, followed by more records"""
    parts, recs, size, k = [], [], 0, 0

    def one(rid, sq):
        if fmt == "fastq":
            q = ("@+I5"[len(recs) % 4]) * len(sq)
            recs.append(dict(id=rid, d="", seq=sq.lower(), qual=[ord(c) - 33 for c in q], taxid=None, sci=""))
            return "@%s\n%s\n+\n%s\n" % (rid, sq, q)
        recs.append(dict(id=rid, d="", seq=sq.lower(), qual=None, taxid=None, sci=""))
        return ">%s\n%s\n" % (rid, sq)
    pool = [rand_text(rng, SEQCH, 120) for _ in range(16)]
    while True:
        t = one("b%d" % k, pool[k % 16])
        if size + len(t) > target - 400:
            recs.pop()
            break
        parts.append(t); size += len(t); k += 1
    over = len(one("b%d" % k, "a")) - (2 if fmt == "fastq" else 1)
    recs.pop()
    n = target - size - over
    n = n // 2 if fmt == "fastq" else n
    t = one("b%d" % k, rand_text(rng, "ACGTacgt", n))
    if size + len(t) != target:           # fastq with an odd remainder: one more byte in the identifier
        recs.pop()
        t = one("b%dx" % k, rand_text(rng, "ACGTacgt", n))
    parts.append(t); size += len(t)
    assert size == target, (size, target)
    for j in range(40):
        parts.append(one("a%d" % j, pool[j % 16]))
    return "".join(parts).encode(), recs


def gen_long_line(rng, fmt, n):
    """three records; the second one has its n nucleotides on ONE line (longer than the read buffer)"""
    recs, parts = [], []
    unit = rand_text(rng, "ACGTacgtnN", 1000)
    for rid, sq in (("s1", "acgtACGT"), ("long", (unit * (n // 1000 + 1))[:n]), ("s3", "ttga")):
        if fmt == "fastq":
            q = "I" * len(sq)
            parts.append("@%s some text\n%s\n+\n%s\n" % (rid, sq, q))
            recs.append(dict(id=rid, d="some text", seq=sq.lower(), qual=[40] * len(sq), taxid=None, sci=""))
        else:
            parts.append(">%s some text\n%s\n" % (rid, sq))
            recs.append(dict(id=rid, d="some text", seq=sq.lower(), qual=None, taxid=None, sci=""))
    return "".join(parts).encode(), recs


# ------------------------------------------------------------------ flat files as images of the Coq printers (Flat.v: print_gb / print_embl)
def mixcase(rng, s):
    k = rng.random()
    return s if k < 0.4 else s.upper() if k < 0.6 else "".join(c.upper() if rng.random() < 0.5 else c for c in s)


def gen_pad3(rng, text):
    return (rng.choice(["", "", " ", "  "]), text, rng.choice(["", "", " ", "   "]))


def trimmed_text(rng, n):
    t = rand_text(rng, "abc xyz,.()/;", n).strip()
    return t


def gen_gb_layout(rng):
    rid = rand_text(rng, "ABCXYZ0123456789_.", rng.choice([1, 6, 8]))
    n = rng.choice([0, 1, 9, 10, 11, 25, 60, 61, 75, 130])
    s = rand_text(rng, "acgtnryk", n)
    org = rng.choice(ORGS)
    lay = dict(eol=rng.choice(["\n", "\n", "\r\n"]),
               locus=rng.choice(["", " ", " %d bp    DNA     linear   PLN 01-JAN-2000" % n, "  x"]),
               defs=[gen_pad3(rng, trimmed_text(rng, rng.choice([3, 8, 20, 60])) or "d") for _ in range(rng.choice([0, 1, 1, 2, 4]))],
               hdr1=rng.sample(["ACCESSION   " + rid, "VERSION     %s.1" % rid, "KEYWORDS    .", "DBLINK      BioProject: PRJ1", "", "  junk //", "LOCUS", "ORIGI"], rng.choice([0, 1, 3])),
               src=None, feat=rng.choice(["", "         Location/Qualifiers", " x"]), ft1=[], xref=None, ft2=[],
               origin=rng.choice(["", "      ", " junk"]), seq=[], blank=[rng.choice(["\n", "\r\n"]) for _ in range(rng.choice([0, 0, 1, 3]))])
    sci = ""
    if rng.random() < 0.7:
        sci = org if rng.random() < 0.85 else ""
        lay["src"] = (rng.choice(["", " "]), rng.choice(["", " ", "  "]),
                      rng.sample(["  ORGANISM  " + org, "            Eukaryota; Metazoa; Chordata.", "REFERENCE   1  (bases 1 to %d)" % n, "  AUTHORS   Doe,J.", ""], rng.choice([0, 2, 4])))
    ftpool = ["     source          1..%d" % n, '                     /organism="%s"' % org, '                     /mol_type="genomic DNA"',
              '                     /db_xref="GI:12345"', "     gene            1..5", ""]
    lay["ft1"] = rng.sample(ftpool, rng.choice([0, 2, 3]))
    taxid = 1
    if rng.random() < 0.6:
        taxid = rng.choice([2, 9606, 45372, 562, 77133, 0, 123456789012345])
        lay["xref"] = (rng.choice(["", "00"]) + str(taxid), rng.choice(["", "", " extra", '"']))
        lay["ft2"] = rng.sample(ftpool, rng.choice([0, 1, 2]))
    pos, perline = 0, rng.choice([60, 60, 30, 10])
    while pos < n:
        chunk = s[pos:pos + perline]
        w = rng.choice([10, 10, 5]) if perline > 10 else 10
        groups = [mixcase(rng, chunk[j:j + w]) for j in range(0, len(chunk), w)][:6]
        used = sum(len(g) for g in groups)
        lay["seq"].append(("%9d " % (pos + 1), groups))
        pos += used
    seq = "".join(g for _, gs in lay["seq"] for g in gs).lower()
    texts = [t for (_, t, _) in lay["defs"]]
    d = "" if not texts else texts[0] + "".join(" " + t for t in texts[1:])
    return lay, dict(id=rid, d=d, seq=seq, qual=None, taxid=taxid, sci=sci)


def gb_lines(lay, r):
    L = ["LOCUS       " + r["id"] + lay["locus"]]
    for k, (a, t, b) in enumerate(lay["defs"]):
        L.append(("DEFINITION  " if k == 0 else " " * 12) + a + t + b)
    L += lay["hdr1"]
    if lay["src"] is not None:
        a, b, h2 = lay["src"]
        L.append("SOURCE      " + a + r["sci"] + b)
        L += h2
    L.append("FEATURES    " + lay["feat"])
    L += lay["ft1"]
    if lay["xref"] is not None:
        L.append(" " * 21 + '/db_xref="taxon:' + lay["xref"][0] + '"' + lay["xref"][1])
    L += lay["ft2"]
    L.append("ORIGIN" + lay["origin"])
    L += [pre + " ".join(gs) for pre, gs in lay["seq"]]
    L.append("//")
    return L


def gen_embl_layout(rng):
    rid = rand_text(rng, "ABCXYZ0123456789_. ", rng.choice([1, 6, 8])).strip() or "X1"
    n = rng.choice([0, 1, 9, 10, 11, 25, 60, 61, 75, 130])
    s = rand_text(rng, "acgtnryk", n)
    org = rng.choice(ORGS)
    ign = ["XX", "AC   %s;" % rid, "DT   01-JAN-2000 (Rel. 1, Created)", "KW   .", "", "OC   Eukaryota; Metazoa.", "FH   Key             Location/Qualifiers", "FH",
           "FT   source          1..%d" % n, 'FT                   /organism="%s"' % org, 'FT                   /mol_type="genomic DNA"', "SQ   Sequence %d BP;" % n, "ID", "// x", " //"]
    lay = dict(eol=rng.choice(["\n", "\n", "\r\n"]), idrest=rng.choice(["", ";", "; SV 1; linear; genomic DNA; STD; PLN; %d BP." % n]),
               hdr1=rng.sample(ign, rng.choice([0, 1, 3])),
               defs=[gen_pad3(rng, trimmed_text(rng, rng.choice([3, 8, 20, 60])) or "d") for _ in range(rng.choice([0, 1, 1, 2, 4]))],
               hdr2=rng.sample(ign, rng.choice([0, 1, 2])), src=None, hdr3=rng.sample(ign, rng.choice([0, 2, 5])), xref=None,
               hdr4=rng.sample(ign, rng.choice([0, 1, 3])), seq=[], blank=[rng.choice(["\n", "\r\n"]) for _ in range(rng.choice([0, 0, 1, 3]))])
    sci = ""
    if rng.random() < 0.7:
        sci = org if rng.random() < 0.85 else ""
        lay["src"] = (rng.choice(["", " "]), rng.choice(["", " ", "  "]))
    taxid = 1
    if rng.random() < 0.6:
        taxid = rng.choice([2, 9606, 45372, 562, 77133, 0, 123456789012345])
        lay["xref"] = (rng.choice(["", "00"]) + str(taxid), rng.choice(["", "", " extra", '"']))
    pos = 0
    while pos < n:
        chunk = s[pos:pos + 60]
        groups = [mixcase(rng, chunk[j:j + 10]) for j in range(0, len(chunk), 10)]
        pos += len(chunk)
        k = rng.random()
        if len(groups) == 6:
            tail = rng.choice(["%9d" % pos, "", "  x y"])
        elif k < 0.6:             # the real layout: padded with blanks up to the position column
            body = " ".join(groups)
            rest = (" " * (66 - len(body))) + ("%9d" % pos)        # what follows the blank after the last group
            # as a split at the first 6 blanks: the missing groups are empty strings
            parts = (body + " " + rest).split(" ", 6)
            groups, tail = parts[:6], parts[6]
        else:
            tail = rng.choice(["%d" % pos, "", "x"])
        lay["seq"].append((groups, tail))
    seq = "".join(g for gs, _ in lay["seq"] for g in gs).lower()
    texts = [t for (_, t, _) in lay["defs"]]
    d = "" if not texts else texts[0] + "".join(" " + t for t in texts[1:])
    return lay, dict(id=rid.split(";")[0], d=d, seq=seq, qual=None, taxid=taxid, sci=sci)


def embl_lines(lay, r):
    L = ["ID   " + r["id"] + lay["idrest"]] + lay["hdr1"]
    L += ["DE   " + a + t + b for (a, t, b) in lay["defs"]]
    L += lay["hdr2"]
    if lay["src"] is not None:
        L.append("OS   " + lay["src"][0] + r["sci"] + lay["src"][1])
    L += lay["hdr3"]
    if lay["xref"] is not None:
        L.append("FT" + " " * 19 + '/db_xref="taxon:' + lay["xref"][0] + '"' + lay["xref"][1])
    L += lay["hdr4"]
    L += ["     " + " ".join(gs + [tail]) for gs, tail in lay["seq"]]
    L.append("//")
    return L


def gen_layout_file(rng, fmt, nrec):
    """(bytes, records, Coq term `PGb lrs bytes` / `PEm lrs bytes`): a file written by the Python twin of the Coq printer"""
    lrs, out = [], ""
    for _ in range(nrec):
        lay, r = (gen_gb_layout if fmt == "genbank" else gen_embl_layout)(rng)
        L = (gb_lines if fmt == "genbank" else embl_lines)(lay, r)
        out += "".join(l + lay["eol"] for l in L) + "".join(lay["blank"])
        lrs.append((lay, r))
    data = out.encode()
    return data, [r for _, r in lrs], "%s [%s] %s" % ("PGb" if fmt == "genbank" else "PEm", "; ".join(layout_term(fmt, lay, r) for lay, r in lrs), bytes_coq(data))


def lls(ls):
    return "[" + "; ".join(nl(x) for x in ls) + "]"


def layout_term(fmt, lay, r):
    pds = "[" + "; ".join("mkpd %s %s %s" % (nl(a), nl(t), nl(b)) for a, t, b in lay["defs"]) + "]"
    xref = "None" if lay["xref"] is None else "(Some (%s, %s))" % (nl(lay["xref"][0]), nl(lay["xref"][1]))
    blank = lls(lay["blank"])
    if fmt == "genbank":
        src = "None" if lay["src"] is None else "(Some (%s, %s, %s))" % (nl(lay["src"][0]), nl(lay["src"][1]), lls(lay["src"][2]))
        seq = "[" + "; ".join("(%s, %s)" % (nl(pre), lls(gs)) for pre, gs in lay["seq"]) + "]"
        t = "mkgbl %s %s %s %s %s %s %s %s %s %s %s %s" % (nl(lay["eol"]), nl(lay["locus"]), pds, lls(lay["hdr1"]), src, nl(lay["feat"]), lls(lay["ft1"]), xref, lls(lay["ft2"]), nl(lay["origin"]), seq, blank)
    else:
        src = "None" if lay["src"] is None else "(Some (%s, %s))" % (nl(lay["src"][0]), nl(lay["src"][1]))
        seq = "[" + "; ".join("(%s, %s)" % (lls(gs), nl(tail)) for gs, tail in lay["seq"]) + "]"
        t = "mkeml %s %s %s %s %s %s %s %s %s %s %s" % (nl(lay["eol"]), nl(lay["idrest"]), lls(lay["hdr1"]), pds, lls(lay["hdr2"]), src, lls(lay["hdr3"]), xref, lls(lay["hdr4"]), seq, blank)
    return "(%s, %s)" % (t, rec_term(r))


def gen_file(rng, fmt, nrec=None):
    lay = gen_layout(rng, cr=fmt in ("fasta", "fastq"))
    nrec = nrec or rng.choice([1, 2, 3, 4, 6])
    if fmt == "fasta":
        return gen_fasta(rng, nrec, lay)
    if fmt == "fastq":
        return gen_fastq(rng, nrec, lay)
    return gen_flat(rng, fmt, min(nrec, 3), lay)


# ------------------------------------------------------------------ corpus (hand-written boundary files, defect witnesses)
def rec(id, d, seq, qual=None, taxid=None, sci=""):
    return dict(id=id, d=d, seq=seq, qual=qual, taxid=taxid, sci=sci)


def q33(s):
    return [ord(c) - 33 for c in s]


GB2 = ("LOCUS       AB000001 12 bp    DNA     linear   PLN 01-JAN-2000\nDEFINITION  first record\n            with taxon.\nSOURCE      Homo sapiens\n"
       "FEATURES             Location/Qualifiers\n     source          1..12\n                     /db_xref=\"taxon:9606\"\nORIGIN\n        1 acgtacgtac gt\n//\n"
       "LOCUS       AB000002 5 bp    DNA     linear   PLN 01-JAN-2000\nDEFINITION  second record without taxon.\n"
       "FEATURES             Location/Qualifiers\n     source          1..5\nORIGIN\n        1 ttttt\n//\n")
EMBL2 = ("ID   X00001; SV 1; linear; genomic DNA; STD; PLN; 12 BP.\nDE   first record\nOS   Homo sapiens\nFT   source          1..12\n"
         "FT                   /db_xref=\"taxon:9606\"\nSQ   Sequence 12 BP;\n     acgtacgtac gt                                                            12\n//\n"
         "DE   second record without ID, OS, taxon\nSQ   Sequence 5 BP;\n     ttttt                                                                     5\n//\n")

CORPUS = [
    ("fasta", b">a\nacgt\n>b\nac\n", [rec("a", "", "acgt"), rec("b", "", "ac")], "simple"),
    ("fasta", b">a d>e\r\nAC\r\nGT\r\n\r\n>b\tx y \r\nac", [rec("a", "d>e", "acgt"), rec("b", "x y ", "ac")], "crlf-fold-notrail"),
    ("fasta", b">>a >\n-.[]\n>b>\nn\n\n\n", [rec(">a", ">", "-.[]"), rec("b>", "", "n")], "gt-in-header"),
    ("fastq", b"@a\nacgt\n+\nIIII\n@b\nac\n+\nII\n", [rec("a", "", "acgt", q33("IIII")), rec("b", "", "ac", q33("II"))], "simple"),
    ("fastq", b"@a x\nacgt\n+a x\n@III\n@b\nac\n+\n+I\n@c\ng\n+\n@\n", [rec("a", "x", "acgt", q33("@III")), rec("b", "", "ac", q33("+I")), rec("c", "", "g", q33("@"))], "qual-starts-with-@+"),
    ("fastq", b"@a@b +c\r\nAC\r\n+\r\nAC\r\n\r\n@+b\r\nT\r\n+acgt\r\n+", [rec("a@b", "+c", "ac", q33("AC")), rec("+b", "", "t", q33("+"))], "crlf-seq-like-qual"),
    # a blank followed by '@' inside the title line (paired-read style "id @id/2"): '@' there is not a record start
    ("fastq", b"@r1 @r1/2\nacgt\n+\nIIII\n@r2\t@r2/2 x\nac\n+\nII\n@r3 y @z\ng\n+\nI\n",
     [rec("r1", "@r1/2", "acgt", q33("IIII")), rec("r2", "@r2/2 x", "ac", q33("II")), rec("r3", "y @z", "g", q33("I"))], "blank-then-@-in-title"),
    ("fasta", b">r1 >r1/2\nacgt\n>r2\t>x\nac\n>r3 y >z\ng\n",
     [rec("r1", ">r1/2", "acgt"), rec("r2", ">x", "ac"), rec("r3", "y >z", "g")], "blank-then->-in-title"),
    # chunk level only (records None): leading blank lines make the reader skip an all-CR/LF segment without consuming a number
    ("fasta", b"\n\n\n>a\nac\n\n>b\nc\n", None, "chunks-only:leading-eols"),
    ("fastq", b"\r\n\r\n\n@a\nac\n+\nII\n@b\nc\n+\nI\n", None, "chunks-only:leading-eols"),
    ("genbank", b"\n\n//\n\n\n//\nLOCUS\n//\n", None, "chunks-only:empty-records"),
    # files made of empty lines only: no chunk, no record
    ("fasta", b"\n\n\n", None, "chunks-only:blank-only"), ("fasta", b"\r\n\r\n", None, "chunks-only:blank-only"),
    ("fastq", b"\n", None, "chunks-only:blank-only"), ("fastq", b"\r\n\n\r\n", None, "chunks-only:blank-only"),
    ("genbank", b"\n\r\n\n", None, "chunks-only:blank-only"), ("embl", b"\r\n\r\n", None, "chunks-only:blank-only"),
    # upper-case nucleotides in flat files; CR LF empty lines after the last "//"
    ("genbank", GB2.replace("acgtacgtac gt", "ACGTACGTAC gT").replace("\n", "\r\n").encode() + b"\r\n\r\n",
     [rec("AB000001", "first record with taxon.", "acgtacgtacgt", None, 9606, "Homo sapiens"), rec("AB000002", "second record without taxon.", "ttttt", None, 1, "")], "upper-case+crlf-blank-tail"),
    ("embl", EMBL2.replace("acgtacgtac gt", "ACGTacgtAC GT").encode() + b"\r\n\n",
     [rec("X00001", "first record", "acgtacgtacgt", None, 9606, "Homo sapiens"), rec("", "second record without ID, OS, taxon", "ttttt", None, 1, "")], "upper-case+blank-tail"),
    ("genbank", GB2.encode(), [rec("AB000001", "first record with taxon.", "acgtacgtacgt", None, 9606, "Homo sapiens"),
                               rec("AB000002", "second record without taxon.", "ttttt", None, 1, "")], "fixed:flat-accumulators"),
    ("embl", EMBL2.encode(), [rec("X00001", "first record", "acgtacgtacgt", None, 9606, "Homo sapiens"),
                              rec("", "second record without ID, OS, taxon", "ttttt", None, 1, "")], "fixed:flat-accumulators"),
]


# round 3: input classes the random generators did not produce
GBEQ = "".join("LOCUS       AB%d 4 bp\nFEATURES    \nORIGIN\n        1 acgt\n//\n" % i for i in range(5))
EMEQ = "".join("ID   X%d;\nSQ   Sequence 4 BP;\n     acgt 4\n//\n" % i for i in range(5))
GBCONTIG = ("LOCUS       AB1 12 bp\nDEFINITION  x\nFEATURES             Loc\n     source  1..2\nCONTIG      join(A:1..2)\nCONTIG      more\n//\n"
            "LOCUS       AB2 2 bp\nFEATURES    \nORIGIN\n        1 ac\n//\n")
CORPUS += [
    # records of identical size: with B = that size (or a multiple) EVERY read ends exactly at a record end (flat files: the
    # tail carried over is empty, the buffer is reused from its start)
    ("fasta", b"".join(b">r%d\nacgtac\n" % i for i in range(6)), [rec("r%d" % i, "", "acgtac") for i in range(6)], "equal-size"),
    ("fastq", b"".join(b"@r%d\nacgt\n+\nI@+I\n" % i for i in range(6)), [rec("r%d" % i, "", "acgt", q33("I@+I")) for i in range(6)], "equal-size"),
    ("genbank", GBEQ.encode(), [rec("AB%d" % i, "", "acgt", None, 1, "") for i in range(5)], "equal-size"),
    ("embl", EMEQ.encode(), [rec("X%d" % i, "", "acgt", None, 1, "") for i in range(5)], "equal-size"),
    ("genbank", GBEQ.replace("\n", "\r\n").encode(), [rec("AB%d" % i, "", "acgt", None, 1, "") for i in range(5)], "equal-size-crlf"),
    # blanks and tabs inside / at the end of FASTA sequence lines
    ("fasta", b">a\nac gt\tac \n \tg\n>b x\na c\n", [rec("a", "", "acgtacg"), rec("b", "x", "ac")], "blank-in-sequence"),
    # lines ended by a lone CR
    ("fasta", b">a d\rAC\rgt\r>b\rac\r", [rec("a", "d", "acgt"), rec("b", "", "ac")], "lone-cr"),
    ("fastq", b"@a d\rACGT\r+\r@III\r@b\rac\r+\r+I\r", [rec("a", "d", "acgt", q33("@III")), rec("b", "", "ac", q33("+I"))], "lone-cr"),
    # GenBank: a CONTIG record (no ORIGIN block: empty sequence), a LOCUS line without identifier
    ("genbank", GBCONTIG.encode(), [rec("AB1", "x", "", None, 1, ""), rec("AB2", "", "ac", None, 1, "")], "contig"),
    ("genbank", b"LOCUS       \nFEATURES    \nORIGIN\n        1 acgt\n//\n", [rec("", "", "acgt", None, 1, "")], "empty-locus-id"),
    # bytes >= 128 in the title line (UTF-8 text)
    ("fasta", ">s\xc3\xa9q1 d\xc3\xa9finition \xe2\x82\xac\nacgt\n>b\nac\n".encode("latin1"), [rec("s\xc3\xa9q1", "d\xc3\xa9finition \xe2\x82\xac", "acgt"), rec("b", "", "ac")], "utf8-title"),
    ("fastq", "@s\xc3\xa9q1 d\xc3\xa9f\nacgt\n+\nIIII\n@b\nac\n+\nII\n".encode("latin1"), [rec("s\xc3\xa9q1", "d\xc3\xa9f", "acgt", q33("IIII")), rec("b", "", "ac", q33("II"))], "utf8-title"),
    # the smallest files (xopen peeks 2 / 4 / 6 bytes for the compression magic numbers)
    ("fasta", b">a\nc", [rec("a", "", "c")], "tiny"), ("fasta", b">a\nc\n", [rec("a", "", "c")], "tiny"),
]
# texts aimed at each error branch of the chunk parsers / each state of the flat-file splitter (model and code must agree:
# fatal or the same records)
MALFORMED = [
    ("fasta", b"> a\nac\n"), ("fasta", b">\tb\nac\n"), ("fasta", b">a\n1cgt\n"), ("fasta", b">a\nac>b\nac\n"), ("fasta", b">a\nac1t\n"),
    ("fasta", b">a\n>b\nac\n"), ("fasta", b">a\n\n"), ("fasta", b">a x\n ac\n"), ("fasta", b">a\nac\n>\nac\n"),
    ("fastq", b"@a\nac1t\n+\nIIII\n"), ("fastq", b"@a\nacgt\nIIII\n"), ("fastq", b"@a\nacgt\n+\nIIII\nx"), ("fastq", b"@a\nacgt\n+\nIII\n"),
    ("fastq", b"@a\nacgt\n+\n\n"), ("fastq", b"@a\nacgt\n+\nIIIII"), ("fastq", b"@\nacgt\n+\nIIII\n"), ("fastq", b"@a\n\n+\nI\n"), ("fastq", b"a\nacgt\n+\nIIII\n"),
    ("fastq", b"@a\nac gt\n+\nIIIII\n"),
    ("genbank", b"LOCUS       A1\n" + b"x" * 101 + b"\n//\n"), ("genbank", b"LOCUS       A1\nLOCUS       A2\n"), ("genbank", b"DEFINITION  d\n"),
    ("genbank", b"SOURCE      s\n"), ("genbank", b"FEATURES    f\n"), ("genbank", b"LOCUS       A1\nORIGIN\n"), ("genbank", b"LOCUS       A1\nCONTIG\n"),
    ("genbank", b"LOCUS       A1\n//\n"), ("genbank", b"LOCUS       A1\nFEATURES    \nSOURCE      s\n"), ("genbank", b"LOCUS       A1\nFEATURES    \nDEFINITION  s\n"),
    ("genbank", b"LOCUS       A1\nFEATURES    \nORIGIN\n        1 ac\nLOCUS       A2\n"), ("genbank", b"LOCUS       A1\nFEATURES    \nCONTIG\nORIGIN\n//\n"),
    ("genbank", b"LOCUS       A1\nDEFINITION  a\n            b\nc\nFEATURES    \nORIGIN\n        1 ac\n//"),
    ("genbank", b"LOCUS       A1 99999999999999999999999 bp\nFEATURES    \nORIGIN\n        1 ac\n//\n"),
    ("embl", b"ID   A;\n     ac 2\n"), ("embl", b"//\n//\n"), ("embl", b"ID   A;\nFH   K\nFH\nFT   x\n     acgt\n//\n"),
]
SPLITBUFS = [("flat", b"ID\n/\nxx\n//\n"), ("flat", b"a\n/x\n//\nb"), ("flat", b"a\n\r/\n//\r\nb"), ("flat", b"a\n//x\n//\n"), ("flat", b"\n/\n/\n//\n\n"),
             ("flat", b"a\n\r\n//\n"), ("flat", b"//\n"), ("flat", b"a\n//\r\r\nb")]


# ------------------------------------------------------------------ oracle helpers
def obs_rec(r):
    return dict(id=unb64(r["id"]).decode("latin1"), d=unb64(r["def"]).decode("latin1"), seq=unb64(r["seq"]).decode("latin1"),
                qual=list(unb64(r["qual"])) if r["hasq"] else None, taxid=r["taxid"] if r["hast"] else None, sci=unb64(r.get("sci")).decode("latin1"))


def partition_ok(file, chunks):
    """The property on the chunk stream: numbers 0..n-1, consecutive non-empty segments, only CR/LF outside,
    and no chunk but the last ends with CR/LF."""
    pos = 0
    for k, (o, st, ln) in enumerate(chunks):
        if o != k or ln <= 0 or st < pos:
            return "numbering/order: chunk %d = %r" % (k, (o, st, ln))
        if any(c not in EOLS for c in file[pos:st]):
            return "bytes other than CR/LF dropped before chunk %d" % k
        pos = st + ln
        if k < len(chunks) - 1 and file[pos - 1] in EOLS:
            return "chunk %d not stripped" % k
    if any(c not in EOLS for c in file[pos:]):
        return "bytes other than CR/LF dropped after the last chunk"
    return None


def recs_equal(a, b):
    return a == b


def prefix_partition(file, limit, chunks):
    """Chunks delivered before a transport failure at offset `limit`: numbers 0..n-1, consecutive non-empty segments of
    file[:limit], only CR/LF between them."""
    pos = 0
    for k, (o, st, ln) in enumerate(chunks):
        if o != k or ln <= 0 or st < pos or st + ln > limit:
            return "numbering/order/range: chunk %d = %r (transport failed at %d)" % (k, (o, st, ln), limit)
        if any(c not in EOLS for c in file[pos:st]):
            return "bytes other than CR/LF dropped before chunk %d" % k
        pos = st + ln
    return None


def expected_features(fmt, data):
    """Feature table of every record as the flat-file parsers accumulate it (withFeatureTable): GenBank: the FEATURES line
    and every following line up to ORIGIN / CONTIG; EMBL: the FH / FT lines.  Lines joined by LF."""
    out, cur, infeat = [], "", False
    for raw in data.decode("latin1").split("\n"):
        line = raw[:-1] if raw.endswith("\r") else raw
        if line == "//":
            out.append(cur); cur = ""; infeat = False
        elif fmt == "genbank":
            if line.startswith("FEATURES    "):
                cur += line; infeat = True
            elif line.startswith("ORIGIN") or line.startswith("CONTIG"):
                infeat = False
            elif infeat:
                cur += "\n" + line
        else:
            if line.startswith("ID   ") or line.startswith("OS   ") or line.startswith("DE   "):
                pass
            elif line.startswith("FH   "):
                cur += line
            elif line == "FH" or line.startswith("FT   "):
                cur += "\n" + line
    return out


def compress(codec, data):
    import gzip, bz2, lzma, subprocess
    if codec == "gz":
        return gzip.compress(data)
    if codec == "bz2":
        return bz2.compress(data)
    if codec == "xz":
        return lzma.compress(data)
    if codec == "zst":
        return subprocess.run([ZSTD, "-q", "-c"], input=data, capture_output=True, timeout=60, check=True).stdout
    return data


ZSTD = "/root/miniconda/bin/zstd"
CODECS = ["raw", "gz", "bz2", "xz"] + (["zst"] if os.path.exists(ZSTD) else [])
BOM = b"\xef\xbb\xbf"
EXT = dict(fasta=".fasta", fastq=".fastq", genbank=".gb", embl=".embl")
MIME = dict(fasta="text/fasta", fastq="text/fastq", genbank="text/genbank", embl="text/embl")


# ------------------------------------------------------------------ Coq rendering
def nl(s):
    return bytes_coq(s.encode("latin1") if isinstance(s, str) else bytes(s))


def rec_term(r):
    q = "None" if r["qual"] is None else "(Some %s)" % bytes_coq(bytes(r["qual"]))
    t = "None" if r["taxid"] is None else "(Some %d%%Z)" % r["taxid"]
    return "(mkrec %s %s %s %s %s %s)" % (nl(r["id"]), nl(r["d"]), nl(r["seq"]), q, t, nl(r["sci"]))


def recs_term(recs, fatal):
    if fatal:
        return "None"
    return "(Some [" + "; ".join(rec_term(r) for r in recs) + "])"


IMPORTS = "From Coq Require Import NArith ZArith List. Import ListNotations.\nFrom OBI.C01 Require Import Model.\n"



# ------------------------------------------------------------------ end to end: the obiconvert binary over several transports
def parse_obi_output(text):
    """FASTA / FASTQ as written by obiconvert (JSON header) -> list of (id, definition, seq, qual string | None, taxid, sci)"""
    out, lines, i = [], text.split("\n"), 0
    while i < len(lines):
        l = lines[i]
        if not l:
            i += 1
            continue
        head = l[1:].split(" ", 1)
        ann = {}
        if len(head) > 1 and head[1].strip().startswith("{"):
            try:
                ann = json.loads(head[1])
            except ValueError:
                ann = {"_raw": head[1]}
        if l[0] == "@":
            out.append((head[0], ann.get("definition", ""), lines[i + 1], lines[i + 3], ann.get("taxid"), ann.get("scientific_name", "")))
            i += 4
        else:
            j, seq = i + 1, ""
            while j < len(lines) and not lines[j].startswith(">"):
                seq += lines[j]
                j += 1
            out.append((head[0], ann.get("definition", ""), seq, None, ann.get("taxid"), ann.get("scientific_name", "")))
            i = j
    return out


def transport_plan(rng, fmt, data):
    """The command lines of one file: (name, arguments after the binary, what is fed to stdin).  `F` stands for the path of the
    plain file, `F.<codec>` for the compressed ones.  Always: the file, the standard input; then two drawn among the compressed
    files / compressed standard input / the format flag (--fasta ...: ReadFastaFromFile ...) / --max-cpu / --force-one-cpu."""
    import re
    flagname = dict(fasta="--fasta", fastq="--fastq", genbank="--genbank", embl="--embl")[fmt]
    # on stdin the flat formats are announced with the documented flag (files are sniffed); the type guesser recognises FASTQ by
    # LF-ended lines: files whose lines end with a lone CR are read with --fastq
    lonecr = fmt == "fastq" and re.search(rb"\r(?!\n)", data) is not None
    need = [flagname] if lonecr else []
    sflag = need or ([flagname] if fmt in ("genbank", "embl") else [])
    plan = [("file", need + ["F"], None)] + ([] if lonecr else [("stdin", sflag, "raw")])     # (on stdin --fasta / --fastq are ignored: the type is guessed)
    extra = []
    for codec in CODECS[1:]:
        extra.append((codec + "-file", need + ["F." + codec], None))
        if not lonecr:
            extra.append((codec + "-stdin", sflag, codec))
    cpu = rng.choice([["--max-cpu", "1"], ["--max-cpu", "2"], ["--max-cpu", "8"], ["--force-one-cpu"]])
    extra.append(("flag-file", [flagname, "F" + rng.choice([""] + ["." + c for c in CODECS[1:]])], None))
    extra.append(("flag-cpu-file", [flagname] + cpu + ["F"], None))
    extra.append(("cpu-file", need + cpu + ["F" + rng.choice(["", ".gz"])], None))
    if not lonecr:
        extra.append(("cpu-stdin", sflag + cpu, rng.choice(["raw", "gz"])))
    rng.shuffle(extra)
    return plan + extra[:2]


def run_transports(ctx, files, broken, rng=None):
    import subprocess, tempfile, shutil, random
    rng = rng or random.Random(0)
    bind, err = ctx.build_cmds(["obiconvert"])
    if bind is None:
        broken.append(dict(kind="command-build", detail=err))
        return 0
    exe = os.path.join(bind, "obiconvert")
    d = tempfile.mkdtemp(prefix="c01_", dir=os.path.join(os.path.dirname(bind)))
    n = 0
    try:
        for k, f in enumerate(files):
            fmt, data, recs, tag = f[:4]
            plan = f[4] if len(f) > 4 else transport_plan(rng, fmt, data)
            path = os.path.join(d, "f%d%s" % (k, EXT[fmt]))
            blobs = {"raw": data}
            open(path, "wb").write(data)
            outs = {}
            for name, args, stdin in plan:
                argv = [exe]
                for a in args:
                    if a == "F" or a.startswith("F."):
                        codec = a[2:] or "raw"
                        if codec not in blobs:
                            blobs[codec] = compress(codec, data)
                        if codec != "raw" and not os.path.exists(path + "." + codec):
                            with open(path + "." + codec, "wb") as fh:
                                fh.write(blobs[codec])
                        a = path + a[1:]
                    argv.append(a)
                if stdin is not None and stdin not in blobs:
                    blobs[stdin] = compress(stdin, data)
                try:
                    pr = subprocess.run(argv, input=b"" if stdin is None else blobs[stdin], capture_output=True, timeout=60)
                    outs[name] = (pr.returncode, pr.stdout.decode("latin1"), [a if not a.startswith(d) else "F" + a[len(path):] for a in argv[1:]])
                except subprocess.TimeoutExpired:
                    outs[name] = (124, "", argv[1:])
                n += 1
            exp = [(r["id"], r["d"].strip(), r["seq"], None if r["qual"] is None else "".join(chr(min(q, 93) + 33) for q in r["qual"]),
                    r["taxid"], r["sci"]) for r in recs]
            for name, (rc, txt, shown) in outs.items():
                got = parse_obi_output(txt) if rc == 0 else None
                if got is not None:
                    got = [(a, b.strip(), c, dd, e, f) for (a, b, c, dd, e, f) in got]
                if got != exp:
                    big = len(data) > 100000
                    ctx.violation("c01_transport_%d_%s" % (k, name), dict(property="C01", kind="direct-oracle", what="obiconvert %s%s" % (" ".join(shown), " < the %s data" % dict(plan_stdin(plan))[name] if dict(plan_stdin(plan))[name] else ""),
                                                                          case=dict(kind="transport", fmt=fmt, file=b64(data), transport=name, plan=[[a, b, c] for a, b, c in plan if a == name]), file_text=data.decode("latin1")[:600 if big else 100000],
                                                                          exit_status=rc, implementation=[g[0] for g in got[:12]] if big and got else got, n_implementation=None if got is None else len(got),
                                                                          expected_records=exp if not big else None, n_expected=len(exp)))
                    break
    finally:
        shutil.rmtree(d, ignore_errors=True)
    return n


def plan_stdin(plan):
    return [(name, stdin) for name, args, stdin in plan]


# ------------------------------------------------------------------ main
def run(ctx, broken):
    rng = ctx.rng
    files = []   # (fmt, bytes, expected records, tag)
    files += CORPUS
    nfiles = dict(fasta=10, fastq=12, genbank=3, embl=3) if ctx.quick else dict(fasta=120, fastq=150, genbank=25, embl=25)
    for fmt, n in nfiles.items():
        for _ in range(n):
            data, recs = gen_file(rng, fmt)
            files.append((fmt, data, recs, "gen"))
    layout_terms = []
    for fmt in ("genbank", "embl"):
        for _ in range(5 if ctx.quick else 60):
            data, recs, term = gen_layout_file(rng, fmt, rng.choice([1, 2, 2] if ctx.quick else [1, 2, 3, 5]))
            files.append((fmt, data, recs, "layout"))
            layout_terms.append((len(files) - 1, term))
    maxlen = 330 if ctx.quick else 700
    keep = [i for i, f in enumerate(files) if len(f[1]) <= (maxlen if f[0] in ("fasta", "fastq") else 3 * maxlen) or f[3] != "gen"]
    renum = {old: new for new, old in enumerate(keep)}
    files = [files[i] for i in keep]
    layout_terms = [(renum[i], t) for i, t in layout_terms]

    # 1. termination witness (one process of its own: a spinning goroutine must not slow the others down)
    hang_case = dict(kind="sweep", fmt="fasta", file=b64(b">a\nacgt\n>b\nac\n"), bmin=1, bmax=1, rd="bytes", withq=True, shift=33, time_ms=1500)
    hobs = ctx.vh_robust("c01", [hang_case], timeout=30, one_timeout=30)
    hung = hobs[0].get("kind") == "crash" or any(s["st"] == "hang" for s in hobs[0].get("sizes", []))
    if hung:
        ctx.violation("chunker_buffer1_never_terminates", dict(property="C01", kind="termination", case=hang_case, implementation=hobs[0],
                                                               expected="ReadSeqFileChunk terminates for every buffer size >= 1"))
    bmin = 2 if hung else 1

    # 2. sweeps: every buffer size over every file, several reader kinds
    cases = []
    for fi, (fmt, data, recs, tag) in enumerate(files):
        rds = ["bytes"] if fi % 3 else ["bytes", rng.choice(["onebyte", "half", "pipe", "dataerr"])]
        for rd in rds:
            cases.append(dict(kind="sweep", fmt=fmt, file=b64(data), bmin=bmin, bmax=len(data) + 1, rd=rd, withq=True, shift=33, _f=fi))
    # FASTQ read without qualities (obiuniq): the records must not carry qualities, wherever the chunks end
    for fi, (fmt, data, recs, tag) in enumerate(files):
        if fmt == "fastq" and recs is not None and (fi % 2 == 0 or tag != "gen"):
            cases.append(dict(kind="sweep", fmt=fmt, file=b64(data), bmin=bmin, bmax=len(data) + 1, rd="bytes", withq=False, shift=33, _f=fi))
        # ... and with the other quality offset (--solexa: 64)
        if fmt == "fastq" and recs is not None and (fi % 3 == 0 or tag != "gen"):
            cases.append(dict(kind="sweep", fmt=fmt, file=b64(data), bmin=bmin, bmax=len(data) + 1, rd="bytes", withq=True, shift=64, _f=fi))
        # flat files parsed WITH their feature table: same records, and the feature lines of each record, wherever the chunks end
        if fmt in ("genbank", "embl") and recs is not None and (fi % 2 == 0 or tag != "gen"):
            cases.append(dict(kind="sweep", fmt=fmt, file=b64(data), bmin=bmin, bmax=len(data) + 1, rd="bytes", withq=True, shift=33, feat=True, _f=fi))
    # a transport that FAILS (I/O error, not end of file) after k bytes: the reader must die (log.Fatal), never end cleanly;
    # what it delivered before is compared with the model (chunker_e)
    for fi, (fmt, data, recs, tag) in enumerate(files):
        if (fi % 3 == 1 or tag not in ("gen", "layout")) and len(data) <= 450:
            for k in {rng.randrange(0, len(data) + 1), rng.choice([0, len(data), len(data) - 1, max(0, len(data) - 2)])}:
                cases.append(dict(kind="sweep", fmt=fmt, file=b64(data), bmin=bmin, bmax=len(data) + 1, rd=rng.choice(["ioerr", "ioerr", "ioerr-half"]), failat=k, withq=True, shift=33, _f=fi))
    T = {}
    t0 = time.time()
    obs = ctx.vh_robust("c01", [{k: v for k, v in c.items() if not k.startswith("_")} for c in cases], timeout=600, one_timeout=60)
    T["sweeps_s"] = round(time.time() - t0, 1); t0 = time.time()

    nchunkings, nviol, dist = 0, 0, {}
    sweep_terms, parse_texts, split_bufs, glue_terms, glue_origin = [], {}, {}, [], []
    for ci, (c, o) in enumerate(zip(cases, obs)):
        fmt, data, recs, tag = files[c["_f"]]
        exp = None if recs is None else [dict(r, qual=([(q + 33 - c["shift"]) % 256 for q in r["qual"]] if c["withq"] and r["qual"] is not None else None)) for r in recs]

        def viol(what, detail, B=None):
            nonlocal nviol
            nviol += 1
            if nviol <= 4:
                ctx.violation("c01_%s_%d%s" % (what, ci, "" if B is None else "_b%d" % B), dict(property="C01", kind="direct-oracle", what=what, case=dict({k: v for k, v in c.items() if not k.startswith("_")}, bmin=B or c["bmin"], bmax=B or c["bmax"]),
                                                             file_text=data.decode("latin1"), buffer_size=B, detail=detail, expected_records=exp))
        if o.get("kind") == "crash":
            viol("crash", o)
            continue
        whole = None if o["fatal"] else [obs_rec(r) for r in o["recs"] or []]
        if exp is not None and whole != exp:
            viol("whole_file_records", dict(implementation=whole))
        if c.get("feat") and exp is not None and not o["fatal"]:
            gotf = [unb64(r.get("feat")).decode("latin1") for r in o["recs"] or []]
            if gotf != expected_features(fmt, data):
                viol("feature_tables", dict(implementation=gotf, expected=expected_features(fmt, data)))
        if c["rd"].startswith("ioerr"):
            per_b = []
            for s in o["sizes"]:
                nchunkings += 1
                key = "%s/%s/%s" % (fmt, c["rd"], s["st"])
                dist[key] = dist.get(key, 0) + 1
                if s["st"] != "fatal":
                    viol("io_error_not_reported_" + s["st"], dict(s, transport_fails_after=c["failat"], expected="log.Fatal (exit status 1)"), s["b"])
                    continue
                msg = prefix_partition(data, c["failat"], s["chunks"])
                if msg:
                    viol("partition_before_io_error", dict(msg=msg, chunks=s["chunks"]), s["b"])
                per_b.append((s["b"], s["chunks"]))
            if len(data) > 150:
                keepb = {rng.randrange(1, len(data) + 2) for _ in range(6 if ctx.quick else 40)} | {c["failat"], c["failat"] + 1, max(1, c["failat"] - 1)}
                per_b = [x for x in per_b if x[0] in keepb]
            if len(data) <= 700:
                glue_terms.append("GIoErr %d%%nat %s %d%%nat ([%s])%%nat" % (FMT[fmt], bytes_coq(data), c["failat"], "; ".join(
                    "(%d, [%s])" % (b, "; ".join("(%d,%d,%d)" % tuple(t) for t in ch)) for b, ch in per_b)))
                glue_origin.append(("ioerr", ci))
            continue
        per_b = []
        for s in o["sizes"]:
            nchunkings += 1
            key = "%s/%s/%s" % (fmt, c["rd"] + ("+feat" if c.get("feat") else "") + ("+shift64" if c["shift"] == 64 else ""), s["st"])
            dist[key] = dist.get(key, 0) + 1
            if s["st"] != "ok":
                viol("chunks_" + s["st"], s, s["b"])
                continue
            msg = partition_ok(data, s["chunks"])
            if msg:
                viol("partition", dict(msg=msg, chunks=s["chunks"]), s["b"])
            if exp is not None and not s["same"]:
                got = None if s["fatal"] else [obs_rec(r) for r in s.get("recs") or []]
                viol("records_depend_on_buffer_size", dict(implementation=got, whole_file=whole), s["b"])
            per_b.append((s["b"], s["chunks"]))
            if not c.get("feat"):
                for (od, st, ln) in s["chunks"]:
                    parse_texts.setdefault((fmt, c["withq"], c["shift"], data[st:st + ln]), None)
        if c["rd"] == "bytes" and c["withq"] and c["shift"] == 33 and not c.get("feat"):
            if len(data) > 150:      # the model evaluates every buffer size on small files, a sample on larger ones (cost ~ |file|^2 log |file|)
                nb = (4 if len(data) > 600 else 12) if ctx.quick else 60
                keep = (set(range(3, 9)) if len(data) <= 600 else {4, 7}) | {rng.randrange(9, len(data) + 2) for _ in range(nb)} | {len(data) - 1, len(data), len(data) + 1}
                per_b = [x for x in per_b if x[0] in keep]
            sweep_terms.append((ci, "CSweep %d%%nat %s ([%s])%%nat" % (FMT[fmt], bytes_coq(data), "; ".join(
                "(%d, [%s])" % (b, "; ".join("(%d,%d,%d)" % tuple(t) for t in ch)) for b, ch in per_b))))
        # splitter inputs: prefixes of the file
        for k in sorted({rng.randrange(0, len(data) + 1) for _ in range(6)} | {len(data)}):
            split_bufs.setdefault((fmt if fmt in ("fasta", "fastq") else "flat", data[:k]), None)

    # 3. parsers and splitters on the distinct chunks / prefixes (+ malformed texts): observation for the correspondence
    ptexts = list(parse_texts.keys())
    rng.shuffle(ptexts)
    ptexts = ptexts[: (250 if ctx.quick else 3000)]
    for fmt, data, recs, tag in files:      # cut texts: arbitrary (mostly malformed) pieces
        if fmt in ("fasta", "fastq"):
            for _ in range(2):
                a = rng.randrange(0, len(data))
                ptexts.append((fmt, True, 33, data[a:rng.randrange(a + 1, len(data) + 1)]))
    # chunks of fewer than two bytes (FastaChunkParser reads start[0], start[1] of Peek(20) unchecked: panic = fatal), blank-only texts
    for t in (b"", b">", b">\n", b">a", b"\n", b">a\n", b">a\nA", b"@", b"@a\nA\n+\nI"):
        ptexts.append(("fastq" if t[:1] == b"@" else "fasta", True, 33, t))
    for f in ("genbank", "embl"):
        for t in (b"", b"\n\n", b"\r\n\r\r\n", b"//", b"//\n", b"\r"):
            ptexts.append((f, True, 33, t))
    for f, t in MALFORMED:
        ptexts.append((f, True, rng.choice([33, 64]) if f == "fastq" else 33, t))
    pcases = [dict(kind="parse", fmt=f, file=b64(t), withq=wq, shift=sh) for (f, wq, sh, t) in ptexts]
    pobs = ctx.vh_robust("c01", pcases, timeout=300, one_timeout=20)
    sbufs = list(split_bufs.keys()) + [x for x in SPLITBUFS if x not in split_bufs]
    scases = [dict(kind="split", fmt=f, file=b64(t)) for (f, t) in sbufs]
    sobs = ctx.vh_robust("c01", scases, timeout=300, one_timeout=20)

    # io.ReadFull over the reader kinds (two successive reads): the model's readfull is what the chunk reader relies on
    fcases = []
    for _ in range(60 if ctx.quick else 600):
        L = rng.choice([0, 1, 2, 5, 9, 17])
        fcases.append(dict(kind="readfull", file=b64(bytes(rng.randrange(256) for _ in range(L))), rd=rng.choice(["bytes", "onebyte", "half", "dataerr", "pipe"]),
                           bmin=rng.choice([0, 1, 2, L, L + 1, max(0, L - 1), 4]), bmax=rng.choice([0, 1, 3, L, L + 2])))
    fobs = ctx.vh_robust("c01", fcases, timeout=120, one_timeout=20)
    terms, origin = [], []
    for k, (c, o) in enumerate(zip(fcases, fobs)):
        if o.get("kind") == "crash":
            continue
        cls = dict(nil="ENil", eof="EEof", unexp="EUnexp")
        if any(x["st"] not in cls for x in o["sizes"]):
            ctx.violation("c01_readfull_%d" % k, dict(property="C01", kind="direct-oracle", what="io.ReadFull error class", case=c, implementation=o))
            continue
        terms.append("CReadFull %s %d%%nat %d%%nat (%d%%nat, %s) (%d%%nat, %s)" % (bytes_coq(unb64(c["file"])), c["bmin"], c["bmax"],
                     o["sizes"][0]["b"], cls[o["sizes"][0]["st"]], o["sizes"][1]["b"], cls[o["sizes"][1]["st"]]))
        origin.append(("readfull", k))
    nrf = len(terms)
    for ci, t in sweep_terms:
        terms.append(t); origin.append(("sweep", ci))
    for k, ((f, wq, sh, t), o) in enumerate(zip(ptexts, pobs)):
        if o.get("kind") == "crash":
            continue
        rl = None if o["fatal"] else [obs_rec(r) for r in o["recs"] or []]
        terms.append("CParse %d%%nat %d%%N %s %s %s" % (FMT[f], sh, "true" if wq else "false", bytes_coq(t), recs_term(rl, o["fatal"])))
        origin.append(("parse", k))
    for k, ((f, t), o) in enumerate(zip(sbufs, sobs)):
        if o.get("kind") == "crash":
            continue
        terms.append("CSplit %d%%nat %s %s" % (dict(fasta=0, fastq=1, flat=2)[f], bytes_coq(t), "None" if o["split"] < 0 else "(Some %d%%nat)" % o["split"]))
        origin.append(("split", k))
    T["oracle+parse+split_s"] = round(time.time() - t0, 1); t0 = time.time()
    nsw = len(sweep_terms)
    bad, err = ctx.correspond("sweep", IMPORTS, terms[nrf:nrf + nsw], shard=2)
    if bad is not None:
        bad2, err = ctx.correspond("main", IMPORTS, terms[:nrf] + terms[nrf + nsw:], shard=60)
        bad = None if bad2 is None else [nrf + i for i in bad] + [i if i < nrf else nsw + i for i in bad2]
    # the files written by the Python twin of the printers ARE print_gb / print_embl of valid layouts (decided inside Coq:
    # valid_gbb / valid_emblb + list_eqb), so pcase_gb_sound / pcase_embl_sound apply to the very bytes the real code parsed
    pbad, perr = ctx.correspond("print", IMPORTS + "From OBI.C01 Require Import FlatModel.\n", [t for _, t in layout_terms], fn="print_mismatches", shard=4)
    if pbad is None:
        broken.append(dict(kind="correspondence", detail=perr))
    elif pbad:
        fi = layout_terms[pbad[0]][0]
        broken.append(dict(kind="correspondence", name="corr:C01/printer", n_diverging=len(pbad),
                           first_diverging_case=dict(kind="printer", fmt=files[fi][0], file_text=files[fi][1].decode("latin1"), records=files[fi][2], term=layout_terms[pbad[0]][1][:3000])))
    ctx.cov["printer_image_cases"] = len(layout_terms)
    T["correspondence_s"] = round(time.time() - t0, 1); t0 = time.time()

    import re
    # 3b. (round 3) the peek-and-rebuild reader of OBIMimeTypeGuesser: every size of its buffer (hook VerifMimeGuessBufferSize;
    # 1 MiB in production) over several reader kinds, incl. a failing transport: the rebuilt reader delivers the bytes of the input
    gcases = []
    for fi, (fmt, data, recs, tag) in enumerate(files):
        if recs is None or not (fi % 4 == 2 or tag not in ("gen", "layout")):
            continue
        gs = sorted({1, 2, len(data) - 1, len(data), len(data) + 1} | {rng.randrange(1, len(data) + 2) for _ in range(4)})
        for g in [g for g in gs if g >= 1]:
            k = rng.random()
            rd = "bytes" if k < 0.4 else rng.choice(["onebyte", "half", "pipe", "dataerr"]) if k < 0.7 else rng.choice(["ioerr", "ioerr-half"])
            gcases.append(dict(kind="guess", fmt=fmt, file=b64(data), rd=rd, g=g, failat=rng.choice([rng.randrange(0, len(data) + 1), g, g - 1, len(data)]) if rd.startswith("ioerr") else 0, _f=fi))
        gcases.append(dict(kind="guess", fmt=fmt, file=b64(data), rd=rng.choice(["bytes", "half", "pipe"]), g=0, failat=0, _f=fi))       # production size: the type guessed is judged
    gobs = ctx.vh_robust("c01", [{k: v for k, v in c.items() if not k.startswith("_")} for c in gcases], timeout=300, one_timeout=30)
    for gi, (c, o) in enumerate(zip(gcases, gobs)):
        fmt, data, recs, tag = files[c["_f"]]
        dist["guess/%s" % c["rd"]] = dist.get("guess/%s" % c["rd"], 0) + 1
        io = c["rd"].startswith("ioerr")
        gmsg = None
        if o.get("kind") == "crash":
            gmsg = "crash"
        elif not io:
            if o.get("fatal") or o.get("err") or not o.get("same") or o.get("nread") != len(data):
                gmsg = "the rebuilt reader does not deliver the bytes of the input"
            elif c["g"] == 0 and o.get("mime") != MIME[fmt] and not (fmt == "fastq" and re.search(rb"\r(?!\n)", data)):     # (FASTQ is recognised through LF-ended lines)
                gmsg = "format guessed: %s" % o.get("mime")
        else:       # failing transport: the error is returned at once, or the reader delivers the bytes read so far and then the error
            if not o.get("fatal") and not (o.get("err") and o.get("nread") == c["failat"]):
                gmsg = "I/O error of the transport swallowed"
        if gmsg:
            nviol += 1
            if nviol <= 6:
                ctx.violation("c01_guess_%d" % gi, dict(property="C01", kind="direct-oracle", what="OBIMimeTypeGuesser: " + gmsg, case={k: v for k, v in c.items() if not k.startswith("_")},
                                                        file_text=data.decode("latin1")[:2000], implementation=o, expected="the bytes of the input (%d), type %s" % (len(data), MIME[fmt])))
        if o.get("kind") != "crash" and c["g"] > 0 and len(data) <= 700:
            glue_terms.append("GGuess %d%%nat %s %s %s" % (c["g"], bytes_coq(data), "(Some %d%%nat)" % c["failat"] if io else "None",
                                                           "None" if o.get("fatal") else "(Some (%d%%nat, %s))" % (o.get("nread", 0), "true" if o.get("same") else "false")))
            glue_origin.append(("guess", gi))
    # 3c. xopen.Buf over plain and compressed data, with and without a byte-order mark, down to the smallest inputs (the magic
    # numbers of the compressors are looked for in the first 2 / 4 / 6 bytes): the bytes delivered are the data without ONE mark
    bcases = []
    smalls = [b"", BOM, BOM + BOM, BOM + b"\n", b"\xef\xbb", b"\xef", b">", b">a", b">a\n", BOM + b">", BOM + b">a\nc", b"\xef\xbb\xbe>a\nc\n", b"\xff\xfe>a\nc\n", b"\x1f", b"\x1f\x8b", b"BZ", b"\x28\xb5\x2f", b"\xfd7zX"]
    for d in smalls:
        for codec in ["raw", rng.choice(CODECS[1:])]:
            bcases.append(dict(kind="buf", file=b64(compress(codec, d)), rd=rng.choice(["bytes", "onebyte", "half", "pipe"]), _d=d, _codec=codec))
    for fi, (fmt, data, recs, tag) in enumerate(files):
        if fi % 4 == 3 or tag not in ("gen", "layout"):
            d = (BOM if rng.random() < 0.6 else b"") + data
            codec = rng.choice(CODECS)
            bcases.append(dict(kind="buf", file=b64(compress(codec, d)), rd=rng.choice(["bytes", "onebyte", "half", "pipe", "dataerr"]), _d=d, _codec=codec))
    bobs = ctx.vh_robust("c01", [{k: v for k, v in c.items() if not k.startswith("_")} for c in bcases], timeout=300, one_timeout=30)
    for bi, (c, o) in enumerate(zip(bcases, bobs)):
        d = c["_d"]
        dist["buf/%s%s" % (c["_codec"], "+bom" if d[:3] == BOM else "")] = dist.get("buf/%s%s" % (c["_codec"], "+bom" if d[:3] == BOM else ""), 0) + 1
        want = d[3:] if d[:3] == BOM else d
        # (raw data that begin with the magic number of a compressor are not text: observation only)
        magic = c["_codec"] == "raw" and any(d.startswith(m) for m in (b"\x1f\x8b", b"BZh", b"\x28\xb5\x2f\xfd", b"\xfd7zXZ\x00"))
        if magic:
            continue
        got = None if o.get("err") == "nocontent" else (unb64(o.get("back")) if o.get("kind") == "buf" and not o.get("fatal") else "error")
        if got != (want or None):
            nviol += 1
            if nviol <= 6:
                ctx.violation("c01_buf_%d" % bi, dict(property="C01", kind="direct-oracle", what="xopen.Buf over %s data%s" % (c["_codec"], " beginning with a byte-order mark" if d[:3] == BOM else ""),
                                                      case={k: v for k, v in c.items() if not k.startswith("_")}, file_text=d.decode("latin1")[:2000], implementation=dict(o, back=None if not o.get("back") else unb64(o["back"]).decode("latin1")[:2000]),
                                                      expected="no content" if not want else want.decode("latin1")[:2000]))
        if o.get("kind") == "buf" and not o.get("fatal") and len(d) <= 700:
            glue_terms.append("GBuf %s %s" % (bytes_coq(d), "None" if o.get("err") == "nocontent" else "(Some %s)" % bytes_coq(unb64(o.get("back")))))
            glue_origin.append(("buf", bi))
    gbad, gerr = ctx.correspond("glue", IMPORTS + "From OBI.C01 Require Import GlueModel.\n", glue_terms, fn="glue_mismatches", shard=12)
    ctx.cov["glue_model_evaluations"] = len(glue_terms)
    if gbad is None:
        broken.append(dict(kind="correspondence", detail=gerr))
    elif gbad and not ctx.violations:
        kind, k = glue_origin[gbad[0]]
        cc, oo = (cases[k], obs[k]) if kind == "ioerr" else (gcases[k], gobs[k]) if kind == "guess" else (bcases[k], bobs[k])
        if kind == "ioerr":
            oo = dict(oo, sizes=[x for x in oo["sizes"]][:12], recs=None)
        broken.append(dict(kind="correspondence", name="corr:C01/glue-%s" % kind, n_diverging=len(gbad),
                           first_diverging_case=dict(kind=kind, case={a: b for a, b in cc.items() if not a.startswith("_")}, implementation=oo, term=glue_terms[gbad[0]][:1500])))
    T["guess+glue_s"] = round(time.time() - t0, 1); t0 = time.time()
    ctx.cov["phase_s"] = T
    if bad is None:
        broken.append(dict(kind="correspondence", detail=err))
        bad = []
    ctx.cov["model_vs_impl_mismatches"] = len(bad)
    if bad:
        ctx.cov["first_mismatching_terms"] = [terms[i][:600] for i in bad[:6]]
    if bad and not ctx.violations:
        kind, k = origin[bad[0]]
        first = dict(kind=kind)
        if kind == "sweep":
            first.update(case={a: b for a, b in cases[k].items() if not a.startswith("_")})
        elif kind == "parse":
            first.update(case=pcases[k], implementation=pobs[k])
        elif kind == "readfull":
            first.update(case=fcases[k], implementation=fobs[k])
        else:
            first.update(case=scases[k], implementation=sobs[k])
        broken.append(dict(kind="correspondence", name="corr:C01/%s" % kind, first_diverging_case=first, n_diverging=len(bad)))

    # 4. public readers with 1..8 workers (production buffer sizes; one chunk for small files) through several transports
    rcases = []
    for fi, (fmt, data, recs, tag) in enumerate(files):
        if recs is not None and (fi % 4 == 0 or tag != "gen"):
            rcases.append(dict(kind="read", fmt=fmt, file=b64(data), rd=rng.choice(["bytes", "onebyte", "pipe"]), withq=True, shift=33, workers=rng.choice([1, 2, 3, 8]), _f=fi))
    # two files larger than the 1 MiB production buffer: several chunks really race through 4 / 8 parser workers
    pool_s = [rand_text(rng, SEQCH, rng.choice([40, 80, 150])) for _ in range(40)]
    for fmt, nw in (("fastq", 4), ("fasta", 8)):
        parts, recs = [], []
        nbig = 16000 if ctx.quick else 60000
        for k in range(nbig):
            sq = pool_s[(k * 7) % 40]
            q = ("@+I5"[k % 4]) * len(sq)
            rid, d = "r%d" % k, ("d%d x" % k if k % 3 else "")
            if fmt == "fastq":
                parts.append("@%s%s\n%s\n+\n%s\n" % (rid, " " + d if d else "", sq, q))
                recs.append(dict(id=rid, d=d, seq=sq.lower(), qual=[ord(c) - 33 for c in q], taxid=None, sci=""))
            else:
                parts.append(">%s%s\n%s\n%s\n" % (rid, " " + d if d else "", sq[:30], sq[30:]))
                recs.append(dict(id=rid, d=d, seq=sq.lower(), qual=None, taxid=None, sci=""))
        files.append((fmt, "".join(parts).encode(), recs, "big"))
        rcases.append(dict(kind="read", fmt=fmt, file=b64(files[-1][1]), rd=rng.choice(["bytes", "pipe"]), withq=True, shift=33, workers=nw, _f=len(files) - 1))
    # a record that ends exactly at / one byte before / one byte after the 1 MiB read buffer, and a record (one line of
    # sequence) longer than the buffer: the splitter answers -1 on the first buffer and the reader has to extend it
    MIB = 1024 * 1024
    for fmt in ("fasta", "fastq"):
        for delta in ([rng.choice([-1, 0, 1])] if ctx.quick else [-1, 0, 1, 2]):
            data, recs = gen_boundary(rng, fmt, MIB + delta)
            files.append((fmt, data, recs, "big"))
            rcases.append(dict(kind="read", fmt=fmt, file=b64(data), rd="bytes", withq=True, shift=33, workers=rng.choice([2, 4]), _f=len(files) - 1))
        data, recs = gen_long_line(rng, fmt, MIB + 150000)
        files.append((fmt, data, recs, "big"))
        rcases.append(dict(kind="read", fmt=fmt, file=b64(data), rd=rng.choice(["bytes", "pipe"]), withq=True, shift=33, workers=3, _f=len(files) - 1))
    # files made of empty lines only: no record
    for fi, (fmt, data, recs, tag) in enumerate(files):
        if tag == "chunks-only:blank-only":
            files.append((fmt, data, [], "blank-only"))
            rcases.append(dict(kind="read", fmt=fmt, file=b64(data), rd="bytes", withq=True, shift=33, workers=2, flatb=rng.choice([0, 2]), full=rng.random() < 0.5, _f=len(files) - 1))
    # flat files cut into many chunks (read buffer lowered through the verif hook VerifFlatFileChunkSize; 128 MiB in
    # production): the first record is long, so that the worker parsing chunk 0 finishes after its neighbours
    for fmt, nw, full in (("genbank", 4, True), ("embl", 8, True), ("genbank", 3, False), ("embl", 2, False), (rng.choice(["genbank", "embl"]), 1, True)):
        data, recs = gen_big_flat(rng, fmt, 60 if ctx.quick else 400, 60000 if ctx.quick else 300000)
        files.append((fmt, data, recs, "big"))
        rcases.append(dict(kind="read", fmt=fmt, file=b64(data), rd=rng.choice(["bytes", "pipe"]), withq=True, shift=33, workers=nw, flatb=rng.choice([1024, 4096]), full=full, _f=len(files) - 1))
    for fi, (fmt, data, recs, tag) in enumerate(files):
        if fmt in ("genbank", "embl") and recs is not None and tag != "big" and len(recs) >= 2:
            end1 = data.find(b"\n//") + 3
            end1 = data.find(b"\n", end1) + 1            # offset of the byte that follows the first "//" line
            sizes = {rng.choice([2, 16, 100, 300]), end1 + rng.choice([-1, 0, 1])}     # ... a buffer that ends exactly there
            if tag.startswith("equal-size"):       # every read ends exactly after a "//" line: the tail carried over is empty each time
                sizes |= {end1, 2 * end1}
            for flatb in sizes:
                rcases.append(dict(kind="read", fmt=fmt, file=b64(data), rd="bytes", withq=True, shift=33, workers=rng.choice([2, 3, 8]), flatb=flatb, full=rng.random() < 0.6, _f=fi))
    # the two files larger than 1 MiB again, delivered as ONE batch (OptionsFullFileBatch)
    for c in [c for c in rcases if files[c["_f"]][3] == "big" and c["fmt"] in ("fasta", "fastq")]:
        rcases.append(dict(c, full=True))
    # (round 3) without the title-line annotation parser (the reader returns the sorted iterator itself); a transport failing
    # after k bytes under the public readers: the run must die, whatever was delivered before
    for fi, (fmt, data, recs, tag) in enumerate(files):
        if recs is not None and tag != "big" and (fi % 5 == 1 or tag not in ("gen", "layout")):
            if fmt in ("fasta", "fastq"):
                rcases.append(dict(kind="read", fmt=fmt, file=b64(data), rd="bytes", withq=True, shift=33, workers=rng.choice([1, 2, 4]), nohdr=True, full=rng.random() < 0.3, _f=fi))
            if fmt == "fastq":      # quality offset 64 (obioptions.SetInputQualityShift: --solexa)
                rcases.append(dict(kind="read", fmt=fmt, file=b64(data), rd=rng.choice(["bytes", "pipe"]), withq=True, shift=64, workers=rng.choice([1, 2, 4]), _f=fi))
            rcases.append(dict(kind="read", fmt=fmt, file=b64(data), rd=rng.choice(["ioerr", "ioerr-half"]), failat=rng.choice([rng.randrange(0, len(data) + 1), len(data)]), withq=True, shift=33,
                               workers=rng.choice([1, 2, 4]), flatb=rng.choice([0, 64, 300]) if fmt in ("genbank", "embl") else 0, full=rng.random() < 0.3, _f=fi))
    for c in rcases:       # a reader that does not finish (deadlock) is a violation; generous deadlines (the machine may be heavily loaded)
        c["time_ms"] = 40000 if files[c["_f"]][3] == "big" else 20000
    t0 = time.time()
    # (the cases expected to die run in a process of their own: a goroutine left behind by one of them may call log.Fatal later)
    rcases.sort(key=lambda c: c["rd"].startswith("ioerr"))
    nplain = sum(1 for c in rcases if not c["rd"].startswith("ioerr"))
    robs = ctx.vh_robust("c01", [{k: v for k, v in c.items() if not k.startswith("_")} for c in rcases[:nplain]], timeout=900, one_timeout=90)
    robs += ctx.vh_robust("c01", [{k: v for k, v in c.items() if not k.startswith("_")} for c in rcases[nplain:]], timeout=300, one_timeout=60)
    T["readers_s"] = round(time.time() - t0, 1); t0 = time.time()
    for ci, (c, o) in enumerate(zip(rcases, robs)):
        fmt, data, recs, tag = files[c["_f"]]
        got = None if (o.get("kind") == "crash" or o.get("fatal")) else [obs_rec(r) for r in o.get("recs") or []]
        dist["read/%s" % fmt] = dist.get("read/%s" % fmt, 0) + 1
        if c["rd"].startswith("ioerr"):
            dist["read_failing_transport/%s" % fmt] = dist.get("read_failing_transport/%s" % fmt, 0) + 1
            # dying = log.Fatal, or a run-time panic of a parser worker on the truncated last chunk (the process ends with a traceback)
            died = o.get("err") == "log.Fatal" or (o.get("kind") == "crash" and ("goroutine" in (o.get("err") or "") or "panic" in (o.get("err") or "")))
            if died and o.get("kind") == "crash":
                dist["read_failing_transport/panic"] = dist.get("read_failing_transport/panic", 0) + 1
            if not died:
                nviol += 1
                if nviol <= 6:
                    ctx.violation("c01_read_%d" % ci, dict(property="C01", kind="direct-oracle", what="public reader over a transport that fails after %d bytes: the error is not reported (log.Fatal expected)" % c["failat"],
                                                           case={k: v for k, v in c.items() if not k.startswith("_")}, file_text=data.decode("latin1")[:2000], implementation=dict(o, recs=None, arrived=None),
                                                           n_implementation=None if got is None else len(got), expected="log.Fatal: Error reading data from file"))
            continue
        orders = o.get("orders") or []
        if len(orders) >= 2:
            dist["read_multi_batch/%s" % fmt] = dist.get("read_multi_batch/%s" % fmt, 0) + 1
        if orders != list(range(len(orders))):
            dist["read_arrival_not_in_file_order/%s" % fmt] = dist.get("read_arrival_not_in_file_order/%s" % fmt, 0) + 1      # allowed: the batch numbers carry the order
        if c.get("full") and got is not None and not o.get("err") and len(orders) != (1 if recs else 0):
            o["err"] = "full-file batch mode delivered %d batches" % len(orders)
        if got is not None:
            got = [dict(r, d=r["d"].rstrip()) for r in got]       # the public readers also run the header parser, which trims the definition
        if o.get("err") or got != [dict(r, d=r["d"].rstrip(), qual=r["qual"] if r["qual"] is None else [(q + 33 - c["shift"]) % 256 for q in r["qual"]]) for r in recs]:
            nviol += 1
            if nviol <= 6:
                big = tag == "big"
                ctx.violation("c01_read_%d" % ci, dict(property="C01", kind="direct-oracle", what="public reader", case={k: v for k, v in c.items() if not k.startswith("_")},
                                                       file_text=data.decode("latin1")[:600 if big else 2000], err=o.get("err"), full_file_batch=bool(c.get("full")), batch_numbers_in_arrival_order=orders[:40],
                                                       implementation=[r["id"] for r in (got or [])[:12]] if big else got,
                                                       n_implementation=None if got is None else len(got), expected_records=[r["id"] for r in recs[:12]] if big else recs, n_expected=len(recs)))

    # 4b. (round 3) the entry points the commands call: Read{Sequences,Fasta,Fastq,Genbank,EMBL}FromFile / ...FromStdin (and the
    # kseq reader ReadFastSeqFromFile, which no command calls) on files written under the name a user would give them: plain,
    # gzip, bzip2, xz, zstd; with a byte-order mark; empty; missing; larger than the guessing buffer (lowered through the hook)
    import re
    fcases2 = []

    def need_guess(fmt, data):
        if fmt == "fastq":
            m = re.match(rb"^@[^ ].*\n[^ ]+\n\+", data)
            return len(m.group(0)) if m else len(data)
        return dict(fasta=2, genbank=12, embl=5)[fmt]
    for fi, (fmt, data, recs, tag) in enumerate(files):
        if recs is None or tag in ("big", "blank-only"):
            continue
        sniffable = tag != "layout" and not (b"\r" in data and fmt in ("fasta", "fastq") and re.search(rb"\r(?!\n)", data))
        for rep_ in range(2 if (tag != "gen" or fi % 2 == 0) else 1):
            api = rng.choice(["seqs", "seqs", fmt]) if sniffable else fmt
            stdin = api in ("seqs", "fasta", "fastq") and rng.random() < 0.35
            bom = rng.random() < 0.15
            g = 0
            if api == "seqs" and rng.random() < 0.5:
                g = need_guess(fmt, data) + (3 if bom else 0) + rng.choice([0, 1, 7, 40, len(data)])
            codec = rng.choice(CODECS)
            fcases2.append(dict(kind="fromfile", name="f%d%s%s" % (fi, EXT[fmt], "" if codec == "raw" else "." + codec), file=b64(compress(codec, (BOM if bom else b"") + data)), api=api, stdin=stdin, g=g,
                                workers=rng.choice([1, 2, 4]), withq=True, full=rng.random() < 0.25, nohdr=rng.random() < 0.25, time_ms=20000, _f=fi, _exp="recs", _codec=codec, _bom=bom))
        if fmt in ("fasta", "fastq") and fi % 3 == 0 and not re.search(rb"\r(?!\n)", data):      # (kseq dies on lines ended by a lone CR)
            codec = rng.choice(["raw", "gz"])
            fcases2.append(dict(kind="fromfile", name="k%d%s%s" % (fi, EXT[fmt], "" if codec == "raw" else ".gz"), file=b64(compress(codec, data)), api="fastseq", workers=1, withq=True, nohdr=rng.random() < 0.6, batch=rng.choice([0, 1, 2, 3]),
                                full=rng.random() < 0.3, time_ms=20000, _f=fi, _exp="kseq", _codec=codec, _bom=False))
    for fmt in FMT:      # no data at all (plain and compressed), a file that does not exist
        for codec in ("raw", rng.choice(CODECS[1:])):
            for api, stdin in [("seqs", False), (fmt, False)] + ([("seqs", True), (fmt, True)] if fmt in ("fasta", "fastq") else []):
                fcases2.append(dict(kind="fromfile", name="e%s%s" % (EXT[fmt], "" if codec == "raw" else "." + codec), file=b64(compress(codec, b"")), api=api, stdin=stdin, workers=2, withq=True,
                                    time_ms=20000, _f=None, _exp="empty", _codec=codec, _bom=False))
        for api in ["seqs", fmt] + (["fastseq"] if fmt == "fasta" else []):
            fcases2.append(dict(kind="fromfile", name="", file="", api=api, workers=2, withq=True, time_ms=20000, _f=None, _exp="missing", _codec="raw", _bom=False))
        # nothing but a byte-order mark (an empty text file saved by an editor that writes one): no record, as for the empty file
        codec = rng.choice(CODECS)
        for api, stdin in [("seqs", False), (fmt, False)] + ([("seqs", True)] if fmt in ("fasta", "fastq") else []):
            fcases2.append(dict(kind="fromfile", name="m%s%s" % (EXT[fmt], "" if codec == "raw" else "." + codec), file=b64(compress(codec, BOM)), api=api, stdin=stdin, workers=2, withq=True,
                                time_ms=20000, _f=None, _exp="empty", _codec=codec, _bom=True))
    for fi, (fmt, data, recs, tag) in enumerate(files):      # the files larger than the production buffers, through the guesser
        if tag == "big" and fmt in ("fasta", "fastq") and len(recs) > 1000 and len(data) > 2 * MIB:
            codec = rng.choice(CODECS)
            fcases2.append(dict(kind="fromfile", name="big%d%s%s" % (fi, EXT[fmt], "" if codec == "raw" else "." + codec), file=b64(compress(codec, data)), api="seqs", stdin=rng.random() < 0.5, workers=4, withq=True,
                                time_ms=40000, _f=fi, _exp="recs", _codec=codec, _bom=False))
    t0 = time.time()
    fobs2 = ctx.vh_robust("c01", [{k: v for k, v in c.items() if not k.startswith("_")} for c in fcases2], timeout=900, one_timeout=90)
    T["fromfile_s"] = round(time.time() - t0, 1); t0 = time.time()
    for ci, (c, o) in enumerate(zip(fcases2, fobs2)):
        key = "fromfile/%s%s/%s%s%s" % (c["api"], "-stdin" if c.get("stdin") else "", c["_codec"], "+bom" if c["_bom"] else "", "/" + c["_exp"] if c["_exp"] != "recs" else "")
        dist[key] = dist.get(key, 0) + 1
        if c.get("g"):
            dist["fromfile/small-guess-buffer"] = dist.get("fromfile/small-guess-buffer", 0) + 1
        fmt, data, recs, tag = files[c["_f"]] if c["_f"] is not None else (None, b"", [], "")
        got = None if (o.get("kind") == "crash" or o.get("fatal")) else [obs_rec(r) for r in o.get("recs") or []]
        orders = o.get("orders") or []
        if c["_exp"] == "missing":
            ok, expd = got is None and o.get("kind") != "crash" and o.get("err") != "timeout", "an error (the file does not exist)"
        elif c["_exp"] == "kseq":     # the third-party reader keeps the blanks around the definition
            norm = lambda rs: [dict(r, d=r["d"].strip(" \t\r")) for r in rs]
            ok, expd = got is not None and not o.get("err") and norm(got) == norm(recs), norm(recs)
        else:
            norm = lambda rs: [dict(r, d=r["d"].rstrip()) for r in rs]
            ok, expd = got is not None and not o.get("err") and norm(got) == norm(recs), norm(recs)
            if ok and c.get("full") and len(orders) != (1 if recs else 0):
                ok, o["err"] = False, "full-file batch mode delivered %d batches" % len(orders)
        if not ok:
            nviol += 1
            if nviol <= 6:
                big = tag == "big"
                ctx.violation("c01_fromfile_%d" % ci, dict(property="C01", kind="direct-oracle", what="entry point %s%s on %s" % (c["api"], " (standard input)" if c.get("stdin") else "", c["name"] or "a missing file"),
                                                           case={k: v for k, v in c.items() if not k.startswith("_")}, file_text=data.decode("latin1")[:600 if big else 2000], codec=c["_codec"], byte_order_mark=c["_bom"],
                                                           err=o.get("err"), batch_numbers_in_arrival_order=orders[:40], implementation=[r["id"] for r in (got or [])[:12]] if big else got,
                                                           n_implementation=None if got is None else len(got), expected_records=[r["id"] for r in expd[:12]] if big and isinstance(expd, list) else expd))

    # 5. the built obiconvert binary: regular file, stdin, gzip file, gzip on stdin (default workers; output must be in file order)
    tfiles = [f for i, f in enumerate(files) if f[2] is not None and f[3] != "big" and (f[3] != "gen" or i % (5 if ctx.quick else 2) == 0)]
    # (files written from printer layouts have unusual but valid header lines: the CLI's format sniffing is not exercised on them)
    # (... and the writer refuses the empty sequence of a CONTIG record)
    tfiles = [f for f in tfiles if f[3] not in ("blank-only", "layout", "contig")]
    # no data at all: no record, exit status 0
    for fmt in ("fasta", "fastq", rng.choice(["genbank", "embl"])):
        flag = ["--" + fmt] if fmt in ("genbank", "embl") else []
        tfiles.append((fmt, b"", [], "empty", [("file", ["F"], None), ("stdin", flag, "raw")] + ([("flag-file", ["--" + fmt, "F"], None)] if rng.random() < 0.5 else [])))
    tfiles.append((rng.choice(["fasta", "fastq"]), BOM, [], "empty", [("file", ["F"], None), ("stdin", [], rng.choice(CODECS))]))     # nothing but a byte-order mark
    # a byte-order mark in front of the data (plain and compressed)
    for f in [f for f in tfiles if f[3] == "simple"]:
        codec = rng.choice(CODECS)
        tfiles.append((f[0], BOM + f[1], f[2], "bom", [("file", ["F"], None), ("stdin", [], codec), (codec + "-file", ["F." + codec] if codec != "raw" else ["--" + f[0], "F"], None)]))
    # one file larger than every buffer of the path (1 MiB guessing buffer, 1 MiB read buffer): the guessed bytes are followed
    # by the rest of the stream
    bigs = [f for f in files if f[3] == "big" and f[0] in ("fasta", "fastq") and len(f[2]) > 1000 and len(f[1]) > 2 * MIB]
    if bigs:
        f = rng.choice(bigs)
        codec = rng.choice(CODECS[1:])
        tfiles.append((f[0], f[1], f[2], "big", [("file", ["F"], None), ("stdin", [], rng.choice(["raw", codec])), (codec + "-file", ["--max-cpu", rng.choice(["1", "3"]), "F." + codec], None)]))
    ntrans = run_transports(ctx, tfiles, broken, rng)
    T["transports_s"] = round(time.time() - t0, 1)
    dist["obiconvert_runs"] = ntrans
    dist["readfull_cases"] = len(fcases)
    ctx.cov["evaluations"] = nchunkings + len(pcases) + len(scases) + len(rcases) + ntrans + len(fcases) + len(fcases2) + len(gcases) + len(bcases)
    ctx.cov["distinct_nontrivial"] = sum(1 for c, o in zip(cases, obs) if o.get("kind") != "crash" for s in o["sizes"] if len(s["chunks"]) >= 2)
    ctx.cov["rule"] = ("one evaluation = one (file, reader kind, buffer size) chunking + parse of every chunk, or one parser / splitter / public-reader call; "
                       "non-trivial = the chunking produced at least two chunks (a cut really fell inside the file); every buffer size %d..|file|+1 is swept" % bmin)
    import re as _re
    classes = {}
    for f in files:
        ks = [f[3]]
        if f[0] in ("fasta", "fastq") and f[3] == "gen":
            ks += [k for k, hit in (("gen:lone-cr", _re.search(rb"\r(?!\n)", f[1])), ("gen:crlf", b"\r\n" in f[1]), ("gen:blank-in-sequence", f[0] == "fasta" and _re.search(rb"\n[^>\n]*[acgtnryACGTNRY.\[\]-][ \t]", f[1])),
                                   ("gen:title-with->@+", _re.search(rb"[ \t][>@+]", f[1])), ("gen:no-final-eol", f[1][-1:] not in (b"\n", b"\r"))) if hit]
        for k in ks:
            classes[k] = classes.get(k, 0) + 1
    ctx.cov["distribution"] = dict(input_classes=classes, files={f: sum(1 for x in files if x[0] == f) for f in FMT}, file_len_max=max(len(f[1]) for f in files if f[3] != "big"), big_file_bytes=[len(f[1]) for f in files if f[3] == "big"],
                                   chunkings=dist, parser_cases=len(pcases), splitter_cases=len(scases), reader_cases=len(rcases), entry_point_cases=len(fcases2), guesser_cases=len(gcases))
    small = [f for f in files if f[3] != "big"]
    ctx.samples = [dict(fmt=f[0], file=f[1].decode("latin1"), records=f[2]) for f in small[:2] + small[-2:]]


def replay(ctx, rp):
    c = rp["case"]
    if c.get("kind") == "transport":
        data = unb64(c["file"])
        exp = [dict(id=e[0], d=e[1], seq=e[2], qual=None if e[3] is None else [ord(ch) - 33 for ch in e[3]], taxid=e[4], sci=e[5]) for e in rp["expected_records"]]
        nviol = len(ctx.violations)
        plan = [tuple(x) for x in c.get("plan") or []]
        run_transports(ctx, [(c["fmt"], data, exp, "replay") + ((plan,) if plan else ())], [])
        print("replay:", rp.get("what"), "on", repr(rp.get("file_text"))[:300])
        print(" ->", "records differ from the expected ones (see the new replay file)" if len(ctx.violations) > nviol else "all transports deliver the expected records")
        return
    obs = ctx.vh_robust("c01", [c], timeout=60, one_timeout=60)
    print("replay:", json.dumps(c)[:400])
    print("file  :", repr(rp.get("file_text")))
    o = obs[0]
    if o.get("kind") == "read":
        orders = o.get("orders") or []
        print(" public reader %s, %d workers, flat-file buffer %s: %d batches, numbers in the order delivered: %s%s" % (
            c["fmt"], c.get("workers", 0), c.get("flatb") or "production size", len(orders), orders[:40], " ..." if len(orders) > 40 else ""))
        print(" -> delivered in file order" if orders == list(range(len(orders))) else " -> NOT delivered in file order",
              "; %d records, fatal=%s err=%s" % (len(o.get("recs") or []), o.get("fatal"), o.get("err")))
        print(" first identifiers delivered:", [obs_rec(r)["id"] for r in (o.get("arrived") or o.get("recs") or [])[:12]])
        print(" expected:", rp.get("expected_records"))
        return
    if o.get("kind") == "buf":
        print(" xopen.Buf over reader kind %s -> %s" % (c.get("rd"), "no content" if o.get("err") == "nocontent" else o.get("err") or repr(unb64(o.get("back")))[:400]))
        print(" expected:", repr(rp.get("expected"))[:400])
        return
    if o.get("kind") in ("fromfile", "guess"):
        if o["kind"] == "fromfile":
            print(" entry point %s%s on the file %r (%d bytes as stored: %s)" % (c.get("api"), " over standard input" if c.get("stdin") else "", c.get("name") or "<missing>", len(unb64(c.get("file", ""))), rp.get("codec")))
            print(" -> fatal=%s err=%s batches=%s records=%s" % (o.get("fatal"), o.get("err"), o.get("orders"), [obs_rec(r) for r in (o.get("recs") or [])[:12]]))
        else:
            print(" OBIMimeTypeGuesser, buffer %s, reader kind %s%s -> type %s, %s bytes read back, identical=%s, fatal=%s err=%s" % (
                c.get("g") or "1 MiB", c.get("rd"), " failing after %d bytes" % c["failat"] if str(c.get("rd")).startswith("ioerr") else "", o.get("mime"), o.get("nread"), o.get("same"), o.get("fatal"), o.get("err")))
        print(" expected:", rp.get("expected_records") if "expected_records" in rp else rp.get("expected"))
        return
    if o.get("kind") == "sweep":
        for s in o["sizes"]:
            print(" B=%d status=%s chunks=%s same_records_as_whole_file=%s" % (s["b"], s["st"], s["chunks"], s["same"]))
            if not s["same"] and s.get("recs"):
                print("   records:", [obs_rec(r) for r in s["recs"]])
        print(" whole-file records:", None if o["fatal"] else [obs_rec(r) for r in o["recs"] or []])
    else:
        print(" ->", o)
    print(" expected:", rp.get("expected_records") or rp.get("expected"))
